"""C02 -- Jacobian is the exact derivative of the emitted RHS (generator-shape obligations)."""
from __future__ import annotations

import ast
import re

from .. import calg, jmodel as J
from ..cskel import Skel
from ..odemodel import model, FILE
from ..pymodel import package
from ..valueflow import Flow, as_map, lower, match, V, show, simp, norm_bv
from .c01 import report_problems, guards_ok, site_key, where

EXPLANATION = (
    "Product rule over the emission sites of _prepare_ode_content: R1 for every RHS site (loss, gain, heating, "
    "cooling, ODE modifier) exactly one Jacobian site with the same row domain, sign and coefficient whose column "
    "ranges over the factor LIST with multiplicity and whose term is the product with one occurrence of the column's "
    "own factor removed from a fresh copy; R2 no `*` unpacking of a string; R3 the thermal row is wrapped by the same "
    "(gamma-1)/kerg/npar factor, sentinel preserved; R4 every store uses row*n_eqns+col with the n_eqns passed as "
    "Jacobian.nrow and the dense/odeint templates decode loop.index0 as (index0/nrow | int, index0 % nrow) in "
    "(row, col) order; R5 positional dataclass calls match field order by provenance; R6 an entry is omitted iff it "
    "equals the sentinel '0.0' and every store appends a non-empty term. Rate coefficients and gamma/kerg/npar are "
    "constants of differentiation, as in the generator.")
ASSUMPTIONS = [
    "list.copy/remove, str.join semantics of Python",
    "rate coefficients k[], kh[], kc[] and the thermal-wrap locals gamma, kerg, npar are held fixed (interpretation recorded, not a finding)",
]

DENSE = "naunet/templates/cvode/src/naunet_jac.cpp.j2"
ODEINT = "naunet/templates/odeint/src/naunet_ode.cpp.j2"


def jac_writers(ctx, rule):
    """In the generated Jacobian functions only the reviewed statements store into the matrix (dense IJth / CSR data, rowptrs,
    colvals / odeint j) and the working copy of the abundances is the abundance vector itself (shared with C03)."""
    from .. import cwriters as W
    n = W.check_writers(ctx, rule, [W.JAC, W.ODE], W.JAC_ARRAYS, "the Jacobian storage / the abundance vector the entries read",
                        funcs={"Jac", "JacKernel", "InitJac", "Jac::operator()"})
    ctx.floor(rule, "reviewed static writes in Jacobian functions", n, 8)


def check(ctx):
    m = model(ctx.tree)
    ctx.saw(FILE, "TemplateLoader._prepare_ode_content")
    rhs = {k: [s for s in m.sites if s.array == "rhs" and s.kind == k] for k in ("loss", "gain", "heat", "cool", "mod")}
    jac = {k: [s for s in m.sites if s.array == "jacrhs" and s.kind == k] for k in ("loss", "gain", "heat", "cool", "mod")}

    # ---- R1 / R2 ---------------------------------------------------------------
    from ..valueflow import canon_ids

    def rowkey(site):
        lm = {}
        if site.rowloop is not None:
            lm[site.rowloop] = "ROW"
        if site.colloop is not None:
            lm[site.colloop] = "COL"
        iters = set()
        for lp in site.fact.loops:
            it = simp(lp.iter)
            iters.add(it)
            if it[0] == "call" and it[1] in (("global", "enumerate"), ("global", "list"), ("global", "tuple")) and len(it[2]) >= 1:
                iters.add(simp(it[2][0]))
        lens = {("call", ("global", "len"), (it,), ()) for it in iters}
        # (`if xs:` around / inside `for x in xs:` -- a guard clause in front of the column loop -- holds for every iteration)
        g = tuple((canon_ids(simp(c), lm), pol) for c, pol in site.fact.guards if not (pol is True and (simp(c) in iters or simp(c) in lens)))
        return (canon_ids(site.rowbase, lm) if site.rowbase is not None else canon_ids(site.row, lm), g)

    # no store into the Jacobian table at all: the table is kept in a representation that is not understood (not "every derivative
    # is missing")
    table_known = any(s.array == "jacrhs" and s.kind != "init" for s in m.sites)
    if not table_known:
        ctx.unrec("R1", "jacrhs:table", (FILE, m.func.lineno), f"no store into the Jacobian table `{m.JACNAME}` was found: how the table is represented / filled is not understood")
    for kind in ("loss", "gain", "heat", "cool", "mod") if table_known else ():
        r, j = rhs[kind], jac[kind]
        if not r and not j:
            ctx.missing("R1", f"rhs:{kind}", (FILE, m.func.lineno), f"no RHS site of kind `{kind}` found; see C01")
            continue
        used = set()
        # Jacobian stores whose term could not be reconstructed (text pasted from a value built elsewhere) may be the missing
        # partners: then the pairing is undecided, not violated
        opaque_sites = [x for x in m.sites if x.array == "jacrhs" and x.kind == "other" and any(p_[0] == "unrec" for p_ in x.problems)]
        for rs in r:
            cands = [x for x in j if rowkey(x) == rowkey(rs)]
            if len(cands) != 1:
                (ctx.unrec if (not cands and opaque_sites) else ctx.bad)(
                    "R1", f"jacrhs:{kind}:count", where(rs),
                    f"the `{kind}` RHS term at line {rs.line} has {len(cands)} Jacobian sites with the same row domain and conditions, expected exactly one"
                    + (f" (Jacobian `{kind}` sites at lines {[x.line for x in j]} differ in row domain or guard)" if j else ""),
                    **({} if (not cands and opaque_sites) else dict(expected=f"one jacrhs store for rows {show(rs.rowbase or rs.row)[:80]}", found=f"{len(cands)}")))
            for x in cands:
                used.add(id(x))
                _pair(ctx, m, kind, rs, x)
        # (an RHS store whose shape was not understood may be the missing partner: then the pairing is undecided, not violated)
        opaque_rhs = [x for x in m.sites if x.array == "rhs" and x.kind == "other" and any(p_[0] == "unrec" for p_ in x.problems)]
        for x in j:
            if id(x) not in used:
                (ctx.unrec if (not r or opaque_rhs) else ctx.bad)(
                    "R1", f"{site_key(x)}:orphan", where(x),
                    f"Jacobian `{kind}` site has no RHS term with the same row domain and conditions (derivative of nothing)",
                    **({} if (not r or opaque_rhs) else dict(found=x.text)))
    # Jacobian sites without an RHS counterpart
    for s in m.sites:
        if s.array == "jacrhs" and s.kind == "other":
            report_problems(ctx, "R1", s)
            if not s.problems:
                ctx.unrec("R1", f"{site_key(s)}:writer", where(s), "unclassified store into jacrhs")
    ctx.floor("R1", "jacrhs accumulation sites", sum(len(v) for v in jac.values()), 5, (FILE, m.func.lineno))

    # ---- R3 thermal wrap ---------------------------------------------------------
    wraps = [s for s in m.sites if s.array == "jacrhs" and s.kind == "wrap"]
    if len(wraps) != 1:
        # several plain stores: the wrap is spelled in a way that is not understood (arms, stages), not "wrapped twice"
        (ctx.unrec if wraps else ctx.missing)("R3", "jacrhs:wrap:count", (FILE, m.func.lineno), f"expected one wrap of the thermal Jacobian row, found {len(wraps)}")
    for s in wraps if len(wraps) == 1 else ():
        report_problems(ctx, "R3", s)
        f = s.fact
        slot0 = ("sub", m.JAC, simp(f.index))
        sentinel_guard = (("cmp", ("Eq",), (slot0, ("const", "0.0"))), False)      # `if entry != '0.0': entry = wrap(entry)`
        gs = [(simp(c), p) for c, p in f.guards]
        cond_store = sentinel_guard in gs
        rest = list(dict.fromkeys(g for g in gs if g != sentinel_guard))        # (the same test twice -- caller and helper -- is one condition)
        g_ok = len(rest) == 1 and rest[0][1] is True and m.is_has_thermal(rest[0][0])
        # wrong: applied unconditionally, or under the negated / only under the thermal flag plus nothing else that is understood;
        # a further condition that is not understood is "cannot decide"
        if g_ok or not rest or (len(rest) == 1 and m.is_has_thermal(rest[0][0])):
            ctx.check(g_ok, "R3", "jacrhs:wrap:guard", where(s), "wrap applied under `if has_thermal` only",
                      found="; ".join(("" if p else "not ") + show(c)[:80] for c, p in rest) or "unconditional")
        else:
            ctx.unrec("R3", "jacrhs:wrap:guard", where(s), "the condition under which the thermal row is wrapped is not understood: "
                      + "; ".join(("" if p else "not ") + show(c)[:80] for c, p in rest))
        rng_ok = s.row == ("tgas",) and s.col and s.col[0] == "range" and len(s.col[1]) == 1 and m.is_n_spec(s.col[1][0]) and len(f.loops) == 1
        # wrong: another (understood) row, or a range of an understood bound that is not n_spec
        rng_understood = s.row is not None and s.col is not None and s.col[0] == "range" and len(s.col[1]) == 1 and m._known_arith(s.col[1][0]) and len(f.loops) == 1 \
            and not any(p_[0] == "unrec" for p_ in s.problems)
        if rng_ok or rng_understood:
            ctx.check(bool(rng_ok), "R3", "jacrhs:wrap:range", where(s), "wrap visits row n_spec, columns range(n_spec), once each",
                      found=f"row={s.row} col={show(s.col) if s.col else None}")
        else:
            ctx.unrec("R3", "jacrhs:wrap:range", where(s), f"which entries the wrap visits is not understood: row={s.row} col={show(s.col)[:80] if s.col else None}, {len(f.loops)} loops")
        v = s.value
        slot = ("sub", m.JAC, simp(f.index))
        form_ok = False
        form_known = False          # the stored value was read as C text over the old entry alone
        found = show(v)[:200]
        if cond_store and v[0] != "ifexp":
            # the same wrap as a conditional store: the sentinel is preserved by not touching the entry
            v = ("ifexp", ("cmp", ("Eq",), (slot, ("const", "0.0"))), ("const", "0.0"), v)
        if v[0] == "phi" and len(v) == 4:
            # `t = entry; if t != '0.0': t = wrap(t); entry = t`: the same conditional value, the untouched arm being the entry itself
            v = ("ifexp", v[1], v[2], v[3])
        if v[0] == "ifexp":
            c, a, b = v[1], v[2], v[3]
            if c == ("cmp", ("NotEq",), (slot, ("const", "0.0"))):
                a, b = b, a
                c = ("cmp", ("Eq",), (slot, ("const", "0.0")))
            if c == ("cmp", ("Eq",), (slot, ("const", "0.0"))) and a == slot:
                a = ("const", "0.0")        # where the entry equals the sentinel, keeping the entry keeps the sentinel
            if c == ("cmp", ("Eq",), (slot, ("const", "0.0"))) and a == ("const", "0.0"):
                lw = lower(b)
                try:
                    holes = list(lw.holes.values())
                    if len(holes) == 1 and holes[0] in (("fmt", slot, None, -1), slot) and not lw.seqs:
                        hn = next(iter(lw.holes))
                        form_ok = calg.canon_str(lw.text).equiv(calg.canon_str(f"(gamma - 1.0) * ({hn}) / kerg / npar"))
                        form_known = True
                        found = lw.text
                except calg.CParseError:
                    pass
        else:
            # no sentinel test at all around a plain store: every entry, the empty ones included, is rewritten
            form_known = v[0] in ("fstr", "const")
        if form_ok or form_known:
            ctx.check(form_ok, "R3", "jacrhs:wrap:form", where(s),
                      "entry := '0.0' if entry == '0.0' else (gamma-1)*(entry)/kerg/npar -- same factor as the RHS wrap, sentinel preserved",
                      expected="'0.0' if e == '0.0' else f'(gamma - 1.0) * ( {e} ) / kerg / npar'", found=found)
        else:
            ctx.unrec("R3", "jacrhs:wrap:form", where(s), f"the value stored by the thermal wrap is not read as text over the old entry: {found}")

    # every store into jacrhs precedes every consumer (CSR builder, Jacobian(...)): all layouts see the same final entries
    from ..odemodel import write_read_order
    last, first = write_read_order(m, "jacrhs")
    if last is None or first is None:
        ctx.unrec("R3", "jacrhs:write-before-use", (FILE, m.func.lineno), "cannot locate the last store into jacrhs / its first consumer")
    elif last.seq >= first[0] and not _csr_consumer(m, first):
        ctx.unrec("R3", "jacrhs:write-before-use", (FILE, last.line), f"jacrhs is read at line {first[1]} ({first[2]}) before its last store at line {last.line}; that reader is not "
                  "recognised as the CSR builder / the Jacobian object, so whether a layout misses the update is not decided")
    else:
        ctx.check(last.seq < first[0], "R3", "jacrhs:write-before-use", (FILE, last.line),
                  "jacrhs is complete (thermal prefactor included) before the sparse arrays and the Jacobian object are built from it" if last.seq < first[0] else
                  f"jacrhs is still modified at line {last.line} after line {first[1]} where {first[2]}: the sparse (CSR) values miss that update while the dense layout has it",
                  expected="all stores into jacrhs, then the CSR loops", found=f"last store line {last.line}, first consumer line {first[1]}")

    # ---- R4 flatten / decode -------------------------------------------------------
    init = [s for s in m.sites if s.array == "jacrhs" and s.kind == "init"]
    if len(init) == 1:
        v = simp(init[0].fact.value)
        t = const_table(v)
        from .c03 import _npoly, _NEQ
        if t is None:
            ctx.unrec("R4", "jacrhs-init", where(init[0]), f"the initial value of the Jacobian table is not read as N copies of one constant: {show(v)[:120]}")
        else:
            size = ("const", 1)
            for f_ in t[1]:
                size = ("binop", "Mult", size, f_)
            good = t[0] == ("const", "0.0") and _npoly(m, size) == {(_NEQ, _NEQ): 1}
            # wrong only when the cell is another literal or the size is arithmetic over understood quantities that is not n_eqns squared
            if good or (t[0][0] == "const" and all(m._known_arith(f_) for f_ in t[1])):
                ctx.check(good, "R4", "jacrhs-init", where(init[0]), "jacrhs = ['0.0'] * n_eqns * n_eqns", found=show(v)[:120])
            else:
                ctx.unrec("R4", "jacrhs-init", where(init[0]), f"size / cell of the initial Jacobian table not understood: {show(v)[:120]}")
    else:
        ctx.missing("R4", "jacrhs-init", (FILE, m.func.lineno), f"expected one initialisation of jacrhs, found {len(init)}")
    # a table of rows created by list multiplication (`[[c] * n] * n`) is ONE row object referenced n times: a term added to one
    # equation's row shows up in every row
    for n_ in ast.walk(m.func):
        if isinstance(n_, ast.Assign) and isinstance(n_.value, ast.BinOp) and isinstance(n_.value.op, ast.Mult):
            for lst in (n_.value.left, n_.value.right):
                if isinstance(lst, ast.List) and len(lst.elts) == 1 and (isinstance(lst.elts[0], (ast.List, ast.ListComp))
                                                                        or (isinstance(lst.elts[0], ast.BinOp) and isinstance(lst.elts[0].op, ast.Mult)
                                                                            and any(isinstance(x, ast.List) for x in (lst.elts[0].left, lst.elts[0].right)))):
                    ctx.bad("R4", f"rows-aliased:{ast.unparse(n_.targets[0])[:30]}", (FILE, n_.lineno),
                            f"`{ast.unparse(n_)[:80]}` builds a table whose rows are one and the same list object: every store into one row is seen in all rows",
                            expected="[[c] * n for _ in range(n)] (distinct rows) or the flat table [c] * n * n", found=ast.unparse(n_.value)[:80])
    _r5(ctx, m)
    _r4_templates(ctx)

    # ---- R6 omitted entries ----------------------------------------------------------
    n6 = 0
    for s in m.sites:
        if s.array == "jacrhs" and s.kind in ("loss", "gain", "heat", "cool", "mod"):
            n6 += 1
            lw = lower(s.fact.value)
            txt = lw.text
            head = txt.lstrip()
            if any(head.startswith(k_) for k_ in list(lw.holes) + list(lw.seqs)) or lw.errors:
                # the term begins with a value that was not read as text (a sign / prefix computed elsewhere): not "empty"
                ctx.unrec("R6", f"{site_key(s)}:nonempty", where(s), f"the appended term begins with a value that is not read as text: {txt[:100]}")
                continue
            ctx.check(len(txt.strip()) > 0 and txt.lstrip()[:1] in "+-" and txt != "", "R6", f"{site_key(s)}:nonempty", where(s),
                      "every store appends a non-empty signed term, so a slot equals '0.0' iff no store reached it", found=txt)
    ctx.floor("R6", "jacobian stores", n6, 5)
    jac_writers(ctx, "R7")
    # the Jacobian addresses rows and columns by POSITION in network.species (literal integers) while the RHS uses IDX_<alias>:
    # entry (i, j) is d ydot_i / d y_j only if the macro header numbers the species by that same position (shared with C09.R4)
    from . import c09
    from ..pymodel import package as _pkg
    ctx.absorb(lambda sub: c09._r4_defs(sub, _pkg(sub.tree)), "R8", only=lambda o: o.key.startswith("naunet_macros.h.j2:IDX_ definitions"))
    ctx.floor("R8", "macro header numbering", len([o for o in ctx.obs if o.rule == "R8"]), 1)
    # the arrays are assembled row by row (CSR): the matrix handed to the linear solver must be declared in that same storage
    # format, or the solver works with the transpose (shared with C03.R4)
    from . import c03
    ctx.absorb(c03._r4, "R9", only=lambda o: "SUNSparseMatrix" in o.key or "cuSparse" in o.key)
    ctx.floor("R9", "sparse matrix constructions", len([o for o in ctx.obs if o.rule == "R9"]), 2)
    # occurrences count: no set / dict keyed by the species stands between a reactant list and the terms built from it
    from ..multiplicity import rule as multiplicity_rule
    multiplicity_rule(ctx, "R10", ['ode'], "the Jacobian")
    # each rendering is computed from the network of that call: the renderer keeps no memo between two renderings (shared with C17.R7)
    from .c17 import stateless_renderer
    stateless_renderer(ctx, package(ctx.tree), "R11")
    _r12_own_tables(ctx, m)
    _r13_terms_stay(ctx, m)
    _r14_same_state(ctx)



_CONTAINER_CALLS = {"dict", "list", "set", "defaultdict", "OrderedDict", "collections.defaultdict", "collections.OrderedDict", "deque", "collections.deque"}


def _r12_own_tables(ctx, m):
    """R12.  The tables a rendering fills in place are its own.  A helper of the renderer module that keeps a list in a container
    living at module / class level (a memo of prepared terms) AND hands out that very list -- not a copy -- shares it with every later
    rendering: the terms `_prepare_ode_content` then adds in place (modifier, heating, cooling, thermal prefactor) pile up in the memo,
    and the next Jacobian is no longer the derivative of its RHS.  Reported only where all three facts are seen: kept in a process-wide
    container, returned as the same object, edited in place by the caller."""
    pkg = package(ctx.tree)
    mod = pkg.modules.get(FILE)
    if mod is None:
        return
    shared = set()
    for st in mod.body:
        tg, val = (st.targets, st.value) if isinstance(st, ast.Assign) else ([st.target], st.value) if isinstance(st, ast.AnnAssign) and st.value is not None else ((), None)
        if val is not None and (isinstance(val, (ast.Dict, ast.List, ast.Set)) and not getattr(val, "elts", getattr(val, "keys", None)) or
                                (isinstance(val, ast.Call) and ast.unparse(val.func) in _CONTAINER_CALLS)):
            shared |= {t.id for t in tg if isinstance(t, ast.Name)}
    cls_shared = set()
    ci = pkg.classes.get("TemplateLoader")
    for nm, val in (ci.attrs.items() if ci else ()):
        if (isinstance(val, (ast.Dict, ast.List, ast.Set)) and not getattr(val, "elts", getattr(val, "keys", None))) or (isinstance(val, ast.Call) and ast.unparse(val.func) in _CONTAINER_CALLS):
            cls_shared.add(nm)

    def is_shared(e):
        if isinstance(e, ast.Name):
            return e.id in shared
        return isinstance(e, ast.Attribute) and isinstance(e.value, ast.Name) and e.value.id in ("self", "cls", "TemplateLoader") and e.attr in cls_shared
    helpers = {}            # helper name -> (line, container text): returns an object that is also kept in a shared container
    cands = [(k, fn) for k, fn in (ci.methods.items() if ci else ())] + [(n_, fn) for (f_, n_), fn in pkg.functions.items() if f_ == FILE]
    for name, fn in cands:
        if not isinstance(fn, ast.FunctionDef):
            continue
        kept = {}
        for n in ast.walk(fn):
            if isinstance(n, ast.Assign) and len(n.targets) == 1:
                t, v = n.targets[0], n.value
                # G[key] = X
                if isinstance(t, ast.Subscript) and is_shared(t.value) and isinstance(v, ast.Name):
                    kept[v.id] = (n.lineno, ast.unparse(t.value))
                # X = G.get(key) / G[key] / G.setdefault(key, ..)
                if isinstance(t, ast.Name):
                    src = v.func.value if isinstance(v, ast.Call) and isinstance(v.func, ast.Attribute) and v.func.attr in ("get", "setdefault", "pop") else \
                        v.value if isinstance(v, ast.Subscript) else None
                    if src is not None and is_shared(src) and not (isinstance(v, ast.Call) and v.func.attr == "pop"):
                        kept[t.id] = (n.lineno, ast.unparse(src))
            elif isinstance(n, ast.Call) and isinstance(n.func, ast.Attribute) and n.func.attr in ("append", "setdefault", "add") and is_shared(n.func.value) and n.args \
                    and isinstance(n.args[-1], ast.Name):
                kept[n.args[-1].id] = (n.lineno, ast.unparse(n.func.value))
        rets = [r for r in ast.walk(fn) if isinstance(r, ast.Return) and isinstance(r.value, ast.Name) and r.value.id in kept]
        if rets:
            helpers[name] = kept[rets[0].value.id]
    nchk = 0
    for name, fn in cands:
        if not isinstance(fn, ast.FunctionDef):
            continue
        for n in ast.walk(fn):
            if isinstance(n, ast.Assign) and len(n.targets) == 1 and isinstance(n.targets[0], ast.Name) and isinstance(n.value, ast.Call):
                f_ = n.value.func
                callee = f_.attr if isinstance(f_, ast.Attribute) and isinstance(f_.value, ast.Name) and f_.value.id in ("self", "cls", "TemplateLoader") else f_.id if isinstance(f_, ast.Name) else None
                if callee not in helpers:
                    continue
                var = n.targets[0].id
                edits = [x for x in ast.walk(fn) if (isinstance(x, (ast.Assign, ast.AugAssign)) and any(
                    isinstance(t, ast.Subscript) and isinstance(t.value, ast.Name) and t.value.id == var for t in (x.targets if isinstance(x, ast.Assign) else [x.target])))
                    or (isinstance(x, ast.Call) and isinstance(x.func, ast.Attribute) and isinstance(x.func.value, ast.Name) and x.func.value.id == var
                        and x.func.attr in ("append", "extend", "insert", "remove", "pop", "clear", "sort", "reverse"))]
                nchk += 1
                if edits:
                    line, cont = helpers[callee]
                    ctx.bad("R12", f"{name}:{var}:shared table edited in place", (FILE, edits[0].lineno),
                            f"`{var}` is the list `{callee}` keeps in the process-wide container `{cont}` (line {line}) and returns as the same object; `{name}` then edits it in place "
                            f"(line {edits[0].lineno}): the terms added here stay in the memo and are added AGAIN by the next rendering that hits it -- that Jacobian is not the derivative "
                            "of its right-hand side", expected="a fresh list per rendering (return a copy, or do not memoise the table)", found=f"{var} = {ast.unparse(n.value)[:60]}")
    ctx.ok("R12", "tables are per rendering", (FILE, m.func.lineno), f"no table edited in place is shared with a module / class level container ({len(helpers)} memo helpers, {nchk} uses checked)")


def _r13_terms_stay(ctx, m):
    """R13.  A term once added to a Jacobian entry stays: apart from the thermal prefactor no statement rewrites the TEXT of an entry.
    Reported where the table (or an entry) is re-assigned from its own entries through a helper that splits the text into pieces and
    joins a FILTERED selection of them: terms of the sum are dropped by a test on their text (membership in the terms of the other
    sign, ..), which ignores how often a term occurs -- `- t + t + t` loses all three although only one pair cancels -- while the
    right-hand side keeps every term."""
    pkg = package(ctx.tree)
    J_ = m.JACNAME
    fn = pkg.method("TemplateLoader", "_prepare_ode_content")
    n13 = 0
    for n in ast.walk(fn):
        if not isinstance(n, ast.Assign) or len(n.targets) != 1:
            continue
        t = n.targets[0]
        base = t.value if isinstance(t, ast.Subscript) else t
        if not (isinstance(base, ast.Name) and base.id == J_) or not any(isinstance(x, ast.Name) and x.id == J_ for x in ast.walk(n.value)):
            continue
        for c in ast.walk(n.value):
            if not isinstance(c, ast.Call):
                continue
            f_ = c.func
            callee = None
            if isinstance(f_, ast.Attribute) and isinstance(f_.value, ast.Name) and f_.value.id in ("self", "cls", "TemplateLoader"):
                callee = pkg.resolve("TemplateLoader", f_.attr)[1]
            elif isinstance(f_, ast.Name):
                callee = pkg.functions.get((FILE, f_.id))
            if callee is None:
                continue
            n13 += 1
            hit = _drops_pieces(callee)
            if hit is not None:
                ctx.bad("R13", f"{callee.name}:terms dropped from Jacobian entries", (FILE, hit[0]),
                        f"line {n.lineno} rewrites the Jacobian entries through `{callee.name}`, which splits an entry into its terms and keeps only those passing `{hit[1][:70]}`: terms are "
                        "dropped by a test on their text, whatever the number of times they occur (`- t + t + t` loses all three, the derivative is `+ t`), while the right-hand side "
                        "keeps all its terms", expected="entries are only accumulated (`+=` of a term) and wrapped by the thermal prefactor", found=ast.unparse(n)[:100])
    ctx.ok("R13", "entries are not rewritten by a term filter", (FILE, m.func.lineno), f"{n13} helper calls that re-assign Jacobian entries inspected")


def _drops_pieces(fn):
    """(line, test text) when `fn` splits (a value derived from) a parameter into pieces and returns a join over a filtered selection
    of them; None otherwise"""
    params = {a.arg for a in fn.args.args}
    pieces = set()
    changed = True
    while changed:
        changed = False
        for n in ast.walk(fn):
            tg, val = ([n.targets[0]], n.value) if isinstance(n, ast.Assign) and len(n.targets) == 1 else ([n.target], n.iter) if isinstance(n, (ast.For, ast.comprehension)) else ((), None)
            if val is None:
                continue
            from_split = any(isinstance(x, ast.Call) and isinstance(x.func, ast.Attribute) and x.func.attr in ("split", "rsplit", "splitlines", "partition", "findall", "finditer")
                             and (any(isinstance(y, ast.Name) and y.id in params for y in ast.walk(x)))
                             for x in ast.walk(val))
            if from_split or any(isinstance(x, ast.Name) and x.id in pieces for x in ast.walk(val)):
                for t in tg:
                    for x in ast.walk(t):
                        if isinstance(x, ast.Name) and x.id not in pieces:
                            pieces.add(x.id)
                            changed = True
    if not pieces:
        return None
    filtered = {}
    for n in ast.walk(fn):
        if isinstance(n, (ast.ListComp, ast.GeneratorExp)) and any(g.ifs for g in n.generators) and any(isinstance(x, ast.Name) and x.id in pieces for g in n.generators for x in ast.walk(g.iter)):
            test = next(i for g in n.generators for i in g.ifs)
            filtered[id(n)] = (n.lineno, ast.unparse(test))
    if not filtered:
        return None
    names = {}
    for n in ast.walk(fn):
        if isinstance(n, ast.Assign) and len(n.targets) == 1 and isinstance(n.targets[0], ast.Name) and id(n.value) in filtered:
            names[n.targets[0].id] = filtered[id(n.value)]
    for r in ast.walk(fn):
        if isinstance(r, ast.Return) and r.value is not None:
            for x in ast.walk(r.value):
                if isinstance(x, ast.Call) and isinstance(x.func, ast.Attribute) and x.func.attr == "join":
                    for y in ast.walk(x):
                        if id(y) in filtered:
                            return filtered[id(y)]
                        if isinstance(y, ast.Name) and y.id in names:
                            return names[y.id]
    return None


def _r14_same_state(ctx):
    """R14.  Fex and Jac evaluate the generated expressions on the SAME state: in each back-end the statements that fill the array the
    pasted expressions index (`y` / `y_cur`) agree between the function printing `ode.fex` and the function printing the Jacobian.
    A transformed copy (clamped, floored, scaled) on one side only makes the Jacobian the derivative of another function than the
    one the solver integrates."""
    from .. import cwriters as W
    pairs = ((W.FEX, "Fex", W.JAC, "Jac"), (W.FEX, "FexKernel", W.JAC, "JacKernel"), (W.ODE, "Fex::operator()", W.ODE, "Jac::operator()"))
    writes = {}
    for rel in (W.FEX, W.JAC, W.ODE):
        for mth, fname, arr, nf, raw, decl in W.static_writes(ctx.tree, rel, {"y", "y_cur"}):
            if not decl:
                writes.setdefault((rel, fname, mth), set()).add((nf, raw))
    n = 0
    for frel, ffn, jrel, jfn in pairs:
        for mth in W.METHODS[frel]:
            a = {nf: raw for nf, raw in writes.get((frel, ffn, mth), ())}
            b = {nf: raw for nf, raw in writes.get((jrel, jfn, mth), ())}
            n += 1
            key = f"{ffn}/{jfn}:{mth}:same state"
            diff = [(nf, raw, ffn) for nf, raw in a.items() if nf not in b] + [(nf, raw, jfn) for nf, raw in b.items() if nf not in a]
            if not diff:
                ctx.ok("R14", key, (frel, 0), f"{ffn} and {jfn} fill the array the expressions read with the same statements ({len(a)})")
                continue
            nf, raw, side = diff[0]
            rhs_ = nf.split("=", 1)[1]
            plain = re.fullmatch(r"[A-Za-z_]\w*(\[[^\]]*\])?", rhs_) is not None        # a plain copy of an element / a scalar
            (ctx.unrec if plain else ctx.bad)(
                "R14", key, (frel if side == ffn else jrel, 0),
                f"`{raw}` in {side} fills the array the generated expressions index, and the sibling function has no such statement: {ffn} and {jfn} evaluate the expressions on different "
                "states, so the Jacobian is not the derivative of the right-hand side wherever the added statement changes a value",
                **({} if plain else dict(expected="the same binding of the abundance array on both sides", found=raw)))
    ctx.floor("R14", "Fex/Jac sibling pairs", n, 7)


def _csr_consumer(m, first) -> bool:
    """is the first reader of the Jacobian table (odemodel.write_read_order) the construction of the Jacobian object or an append to
    one of the lists recognised as CSR arrays?"""
    if "Jacobian(" in first[2]:
        return True
    from .c03 import csr_roles
    counter, roles, measured = csr_roles(m)
    names = {f.target for v in roles.values() for f in v} | ({counter} if counter else set())
    return any(f"`{n}`" in first[2] for n in names)


def const_table(v):
    """N copies of one value as a list -- `[c] * a * b`, `a * [c]`, `[c] * (a * b)`, `[c for _ in range(a) (for _ in range(b))]`,
    `list(repeat(c, a))` -- -> (c, [a, b, ..]) (N is the product), else None"""
    v = simp(v)
    if v[0] == "list" and len(v[1]) == 1 and v[1][0][0] != "star":
        return v[1][0], []
    if v[0] == "binop" and v[1] == "Mult":
        for a, b in ((v[2], v[3]), (v[3], v[2])):
            t = const_table(a)
            if t is not None and const_table(b) is None:
                return t[0], t[1] + [b]
        return None
    if v[0] == "comp" and v[1] == "list" and v[3] and not any(g[2] for g in v[3]):
        from ..valueflow import walk as _walk
        dims = []
        for tg, it, ifs in v[3]:
            it = simp(it)
            if not (it[0] == "call" and it[1] == ("global", "range") and len(it[2]) == 1 and not it[3]):
                return None
            dims.append(it[2][0])
        if any(isinstance(x, tuple) and x and x[0] == "bv" for x in _walk(v[2])):
            return None
        return v[2], dims
    if v[0] == "call" and v[1] == ("global", "list") and len(v[2]) == 1 and not v[3]:
        r = v[2][0]
        if (r[0] == "call" and r[1] == ("global", "repeat") and len(r[2]) == 2 and not r[3]) or \
                (r[0] == "meth" and r[1] == ("global", "itertools") and r[2] == "repeat" and len(r[3]) == 2 and not r[4]):
            a = r[2] if r[0] == "call" else r[3]
            return a[0], [a[1]]
    return None


def _pair(ctx, m, kind, rs, js):
    star = [p for p in js.problems if p[1] == "star-of-str"]
    for sev, code, msg in star:
        ctx.bad("R2", f"{site_key(js)}:star-of-str", where(js), msg, expected="*<list of factors>", found=js.text)
    if not star:
        ctx.ok("R2", f"{site_key(js)}:unpacking", where(js), "every `*x` inside the joined factor list unpacks a list value")
    # filters / guards shared with the RHS site are C01's business, not a derivative mismatch
    ok = report_problems(ctx, "R1", js, allow=("star-of-str", "row-domain"))
    if not ok or star:
        return
    good = True
    if js.sign != rs.sign:
        ctx.bad("R1", f"{site_key(js)}:sign", where(js), f"Jacobian term has sign {js.sign:+d}, RHS term {rs.sign:+d}",
                expected=f"{rs.sign:+d}", found=js.text)
        good = False
    from ..odemodel import not_understood
    if js.coeff != rs.coeff:
        # two values that were followed to the end and differ are different coefficients; one with a part that was not followed
        # (a helper's result, a list filled elsewhere) may be the same text spelled another way
        unk = (js.coeff is not None and not_understood(js.coeff)) or (rs.coeff is not None and not_understood(rs.coeff))
        (ctx.unrec if unk else ctx.bad)("R1", f"{site_key(js)}:coeff", where(js), "Jacobian term carries a different coefficient than the RHS term"
                                        + (" (one of the two is built from a value that was not followed)" if unk else ""),
                                        **({} if unk else dict(expected=show(rs.coeff), found=show(js.coeff))))
        good = False
    if rs.seq and js.seq:
        same = norm_bv((js.seq["bv"], js.seq["body"], js.seq["base"], js.seq["ifs"])) == \
            norm_bv((rs.seq["bv"], rs.seq["body"], rs.seq["base"], rs.seq["ifs"]))
        if not same:
            unk = any(not_understood(x[k_]) for x in (js.seq, rs.seq) for k_ in ("body", "base"))
            (ctx.unrec if unk else ctx.bad)("R1", f"{site_key(js)}:factors", where(js), "Jacobian product is built from a different factor list than the RHS term"
                                            + (" (one of the two is built from a value that was not followed)" if unk else ""),
                                            **({} if unk else dict(expected=show(rs.seq["base"]), found=show(js.seq["base"]))))
            good = False
        if js.seq["minus"] is None:
            good = False
    else:
        good = False
    if kind in ("loss", "gain"):
        if js.rowloop is not None and js.rowloop == js.colloop:
            ctx.bad("R1", f"{site_key(js)}:loops", where(js), "row and column are driven by the same loop variable")
            good = False
        if good and len(js.fact.loops) != 3:
            # (the same nest as the RHS term plus the column loop, under a common outer loop, is another spelling of the enumeration)
            (ctx.bad if len(rs.fact.loops) == 2 else ctx.unrec)("R1", f"{site_key(js)}:loops", where(js), f"expected reaction x row x column loops, found {len(js.fact.loops)} loops"
                                                              + ("" if len(rs.fact.loops) == 2 else f" (the RHS term sits in {len(rs.fact.loops)})"))
            good = False
    elif kind in ("heat", "cool"):
        if js.row != ("tgas",):
            ctx.bad("R1", f"{site_key(js)}:row", where(js), "thermal Jacobian term must be stored in row n_spec", found=str(js.row))
            good = False
        if good and len(js.fact.loops) != 2:
            (ctx.bad if len(rs.fact.loops) == 1 else ctx.unrec)("R1", f"{site_key(js)}:loops", where(js), f"expected process x column loops, found {len(js.fact.loops)}"
                                                              + ("" if len(rs.fact.loops) == 1 else f" (the RHS term sits in {len(rs.fact.loops)})"))
            good = False
    else:
        if js.row != rs.row:
            ctx.bad("R1", f"{site_key(js)}:row", where(js), "modifier Jacobian row differs from the modifier RHS row",
                    expected=show(rs.row), found=show(js.row))
            good = False
    if good:
        ctx.ok("R1", site_key(js), where(js),
               f"d/dy_col of {rs.text!r}: col over the factor list with multiplicity, term {js.text!r} with the column's factor removed from a fresh copy")


NROW = ("attr", ("attr", ("name", "ode"), "jac"), "nrow")
JRHS = ("attr", ("attr", ("name", "ode"), "jac"), "rhs")
_CSR_FIELDS = ("ode.jac.vals", "ode.jac.cols", "ode.jac.rows")


def _own_items(items, stack=()):
    """items of one loop body with their enclosing if-frames; nested loops are yielded but not entered"""
    for x in items:
        yield x, stack
        if x[0] == "if":
            yield from _own_items(x[2], stack + (("if+", x[1]),))
            yield from _own_items(x[3], stack + (("if-", x[1]),))


def _subterms(e):
    if isinstance(e, tuple):
        yield e
        for y in e:
            yield from _subterms(y)


def _paths_in(e):
    out = set()

    def rec(x):
        if isinstance(x, tuple):
            p = J.path(x) if x and x[0] in ("name", "attr") else None
            if p is not None:
                out.add(p)
            for y in x:
                rec(y)
    rec(e)
    return out


def dense_layout(tree, rel, cfg, fname, callee):
    """How `fname` fills the dense matrix: the loops whose own body writes `callee([jmatrix,] ROW, COL) = VALUE;`, each as a record
       {loop, line, form, row, col, val, var, guards, ...} with the expressions in canonical form (jmodel.canon: `{% set %}` names and
       value macros expanded, `//` for `(/)|int`, `loop.index0` for `loop.index - 1`, `%` for `a - (a // n) * n`), where form is
         "flat"    one loop over ode.jac.rhs itself: the entry at position p = loop.index0 belongs to (p // nrow, p % nrow)
         "rows"    a loop over `ode.jac.rhs | batch(ode.jac.nrow)` (the rows) around a loop over the row: (outer index0, inner index0);
                   in the record the outer loop's `loop` is spelled `loop^`
         "csr"     a loop over the stored CSR entries (ode.jac.vals / cols)
         "cut"     a loop over a filtered / sliced ode.jac.rhs (positions shift)
         "other"   anything else"""
    import re
    items = J.canon_items(J.propagate_sets(J.flatten(tree, rel, cfg)))
    sk = Skel(items)
    infn = {id(it) for it, off in sk.items_in(fname)}
    pat = re.compile(re.escape(callee) + r"\s*\(\s*(?:jmatrix\s*,\s*)?\x00(\d+)\x00\s*,\s*\x00(\d+)\x00\s*\)\s*=\s*\x00(\d+)\x00\s*;")
    recs = []
    for it, st in J.walk_items(items):
        if it[0] != "for" or id(it) not in infn:
            continue
        own = [(x, g) for x, g in _own_items(it[3]) if x[0] in ("text", "out")]
        txt = "".join(x[1] if x[0] == "text" else f"\x00{i}\x00" for i, (x, g) in enumerate(own))
        mm = pat.search(txt)
        if not mm:
            continue
        (rowe, _), (cole, _), (vale, vg) = (own[int(g)] for g in mm.groups())
        rowe, cole, vale = rowe[1], cole[1], vale[1]
        rec = {"loop": it, "line": it[5], "var": it[1], "row": rowe, "col": cole, "val": vale, "guards": list(vg), "form": "other", "body_text": txt}
        parents = [f for f in st if f[0] == "for"]
        base, fs = J.unfilter(it[2])
        if it[2] == JRHS and it[7] is None:
            rec["form"] = "flat"
        elif base == JRHS or (base[0] == "item" and base[1] == JRHS):
            names = [f[0] for f in fs]
            rec["form"] = "flat" if it[7] is None and base == JRHS and all(n == "list" for n in names) else \
                "cut" if it[7] is not None or base != JRHS or any(n in ("select", "reject", "selectattr", "rejectattr", "slice", "batch", "unique", "sort", "reverse") for n in names) else "other"
        elif it[2][0] == "name" and parents and parents[-1][1] == it[2] and it[7] is None:
            P = parents[-1]
            pb, pfs = J.unfilter(P[2])
            if pb == JRHS and P[7] is None and [f[0] for f in pfs] == ["batch"] and len(pfs[0][1]) == 1 and not pfs[0][2]:
                rec["form"] = "rows"
                rec["batch"] = pfs[0][1][0]
                rec["outer"] = P
                # names bound in the rows loop (before the inner loop) stand for expressions of THAT loop: its `loop` is written loop^
                env = {}
                for x, g in _own_items(P[3]):
                    if x is it:
                        break
                    if x[0] == "set" and x[1][0] == "name" and not g:
                        env[x[1][1]] = J.subst_names(x[2], {"loop": ("name", "loop^")})
                    elif x[0] == "set":
                        for n_ in J.names_of(x[1]):
                            env.pop(n_, None)
                for k_ in ("row", "col", "val"):
                    rec[k_] = J.canon(J.subst_names(rec[k_], env))
                # if-frames of the rows loop around the inner loop are conditions on whole rows
                rec["outer_guards"] = [f for f in st[st.index(P) + 1:] if f[0] in ("if+", "if-")]
        elif _paths_in(it[2]) & set(_CSR_FIELDS):
            rec["form"] = "csr"
        recs.append(rec)
    return recs


def _row_cursor(rec):
    """The row expression of a CSR walk is a namespace attribute `ns.a` that the loop body only ever advances by `{% set ns.a = ns.a + 1 %}`
    inside `{% if %}` arms (Jinja has no while): -> (ns.a, number of such advances, line) or None."""
    r = rec["row"]
    if not (r[0] == "attr" and r[1][0] == "name"):
        return None
    sets = []
    for x, st in J.walk_items(rec["loop"][3]):
        if x[0] == "set" and x[1] == r:
            if any(f[0] == "for" for f in st) or not any(f[0] in ("if+", "if-") for f in st):
                return None
            v = J.canon(x[2])
            if v not in (("bin", "+", r, ("const", 1)), ("bin", "+", ("const", 1), r)):
                return None
            sets.append(x)
    return (r, len(sets), sets[0][3]) if sets else None


def _r4_templates(ctx, rule_decode="R4", rule_omit="R6", sent=None):
    """dense / odeint decode of the flattened Jacobian table (C02.R4 + R6; adopted as C03.R3 + R2).  `sent`: dict that receives the
    sentinel literal each template compares with."""
    n = 0
    idx0 = ("attr", ("name", "loop"), "index0")
    out0 = ("attr", ("name", "loop^"), "index0")
    for label, rel, cfg, fname, callee in (("cvode/dense", DENSE, {"general.method": "dense"}, "Jac", "IJth"),
                                           ("odeint", ODEINT, {}, "Jac::operator()", "j")):
        ctx.saw(rel)
        recs = dense_layout(ctx.tree, rel, cfg, fname, callee)
        key = f"{label}:{fname}:for ode.jac.rhs"
        if len(recs) != 1:
            # several loops filling the matrix (by blocks, by kind of entry): how they share the table is not understood
            (ctx.unrec if recs else ctx.missing)(rule_decode, key, (rel, 0), f"{fname} has {len(recs)} loops writing `{callee}(.., row, col) = value;`, expected one")
            continue
        rec = recs[0]
        n += 1
        it, var, line = rec["loop"], rec["var"], rec["line"]

        def positional(e):
            """the (row / column) expression is arithmetic over understood quantities only: the loop position, fields of ode.jac, lengths of
            the network's lists"""
            return all(p_ in ("loop", "loop.index0", "loop.index", "loop^", "loop^.index0", "loop^.index") or p_.split(".")[0] in ("ode", "network") for p_ in _paths_in(e)) and \
                not any(isinstance(x, tuple) and x and x[0] in ("call", "filter", "test", "item") and not (x[0] == "filter" and x[1] in ("int", "length", "max", "min", "abs")) for x in _subterms(e))
        if rec["form"] == "cut":
            # positions in a filtered / sliced view are not positions in the table: wrong when (row, col) are computed from them
            (ctx.bad if positional(rec["row"]) and positional(rec["col"]) else ctx.unrec)(
                rule_decode, key, (rel, line), f"loop over ode.jac.rhs is filtered/sliced: {J.show(it[2])}")
            continue
        if rec["form"] == "csr":
            cur = _row_cursor(rec)
            if cur is not None:
                ctx.bad(rule_decode, f"{label}:row-cursor", (rel, cur[2]),
                        f"the dense matrix is filled by walking the stored CSR entries ({J.show(it[2])}) with the row kept in `{J.show(cur[0])}`, which an "
                        f"`{{% if %}}` advances by at most {cur[1]} per entry: after two or more consecutive empty rows (species in no reaction) the cursor lags "
                        "behind and entries are assigned to the wrong row",
                        expected="row = position // ode.jac.nrow over ode.jac.rhs (or a cursor advanced past EVERY exhausted row)", found=f"{J.show(cur[0])} += 1 under if")
            else:
                ctx.unrec(rule_decode, key, (rel, line), f"the dense matrix is filled from the CSR arrays ({J.show(it[2])}); the row reconstruction is not understood")
            continue
        if rec["form"] == "other":
            ctx.unrec(rule_decode, key, (rel, line), f"the loop writing `{callee}(..)` iterates {J.show(it[2])}: not ode.jac.rhs in a form that is understood")
            continue
        rowe, cole, vale = rec["row"], rec["col"], rec["val"]
        if rec["form"] == "flat":
            want_row, want_col = ("bin", "//", idx0, NROW), ("bin", "%", idx0, NROW)
            texts = ("row = (loop.index0 / ode.jac.nrow) | int", "col = loop.index0 % ode.jac.nrow")
        else:
            # rows of ode.jac.nrow consecutive entries: entry c of row r is ode.jac.rhs[r * nrow + c]
            if J.canon(rec["batch"]) == NROW or positional(J.canon(rec["batch"])):
                ctx.check(J.canon(rec["batch"]) == NROW, rule_decode, f"{label}:row-length", (rel, line), "the table is cut into rows of ode.jac.nrow entries",
                          expected="batch(ode.jac.nrow)", found=J.show(rec["batch"]))
            else:
                ctx.unrec(rule_decode, f"{label}:row-length", (rel, line), f"the row length `{J.show(rec['batch'])[:80]}` the table is cut by is not read as a field of ode.jac / a length of the network's lists")
            want_row, want_col = out0, idx0
            texts = ("row = position of the row in ode.jac.rhs | batch(nrow)", "col = position of the entry in its row")
        # wrong: another arithmetic expression of the loop position and nrow; anything else (a macro, a filter, a table) is not understood
        for what, got, want_, txt_ in (("row", rowe, want_row, texts[0]), ("col", cole, want_col, texts[1])):
            if got == want_ or positional(got):
                ctx.check(got == want_, rule_decode, f"{label}:{what}-decode", (rel, line), txt_, expected=J.show(want_), found=J.show(got))
            else:
                ctx.unrec(rule_decode, f"{label}:{what}-decode", (rel, line), f"the {what} expression `{J.show(got)[:100]}` is not arithmetic over the loop position and ode.jac.nrow")
        base, fs = J.unfilter(vale)
        if base == var and all(f[0] == "stmwrap" for f in fs):
            ctx.ok(rule_decode, f"{label}:value", (rel, line), "the assigned value is the loop's own entry through whitespace-only filters")
        elif base != var and (J.path(base) or "").startswith("ode.jac."):
            ctx.bad(rule_decode, f"{label}:value", (rel, line), "the assigned value is the loop's own entry through whitespace-only filters", found=J.show(vale))
        else:
            ctx.unrec(rule_decode, f"{label}:value", (rel, line), f"the assigned value `{J.show(vale)[:100]}` is not the loop's own entry through whitespace-only filters")
        # R6 (template side): omitted iff == sentinel, however the test is spelled (`!=`, `==` with the arms swapped, `not`, `is ne`)
        guards = [J.canon_test(g[1], g[0] == "if+") for g in rec["guards"]] + [J.canon_test(g[1], g[0] == "if+") for g in rec.get("outer_guards", [])]
        okey = f"{label}:omit-iff-sentinel"
        lit = None
        if len(guards) == 1 and guards[0][0][0] == "cmp" and guards[0][0][1] == var and len(guards[0][0][2]) == 1 and guards[0][0][2][0][0] == "eq" \
                and guards[0][0][2][0][1][0] == "const":
            lit = guards[0][0][2][0][1][1]
            if sent is not None:
                sent[(f"{label.split('/')[-1]} template", rel, line)] = lit
            ctx.check(lit == "0.0" and guards[0][1] is False, rule_omit, okey, (rel, line), "an entry is skipped iff it equals the sentinel '0.0'",
                      expected='{% if r != "0.0" %}', found=("" if guards[0][1] is False else "assigned only if ") + J.show(guards[0][0]))
        elif not guards:
            ctx.ok(rule_omit, okey, (rel, line), "every entry is assigned (none is omitted)")
        else:
            ctx.unrec(rule_omit, okey, (rel, line), "the condition under which an entry is assigned is not understood: " + "; ".join(J.show(g[0]) for g in guards))
    ctx.floor(rule_decode, "dense-layout templates", n, 2)


# -------------------------------------------------------------------- R5 dataclass calls

RENDER_KEEP = ("_prepare_ode_content", "_prepare_renorm_content", "_render", "_prepare_contents")


def render_functions(pkg):
    """The two `render` methods that build a NetworkInfo (TemplateLoader.render, EnzoPatch.render), each with the helpers it was split
    into put back (pymodel.Package.expanded): `info = self._collect_network_info(network)` is still the NetworkInfo(...) call it
    returns.  -> [(file, class, method, FunctionDef)]"""
    out = []
    for file, cls, meth, keep in ((FILE, "TemplateLoader", "render", RENDER_KEEP), ("naunet/patches.py", "EnzoPatch", "render", ("_render", "_render_derived_field"))):
        if cls not in pkg.classes or pkg.classes[cls].methods.get(meth) is None:
            continue
        try:
            fn = pkg.expanded(cls, meth, keep=keep)
        except RecursionError:
            fn = pkg.classes[cls].methods[meth]
        out.append((file, cls, meth, fn))
    return out


def dataclass_fields(pkg, name):
    ci = pkg.cls(name)
    return [s.target.id for s in ci.node.body if isinstance(s, ast.AnnAssign) and isinstance(s.target, ast.Name)]


def _bind_args(fields, call_ir):
    """call IR -> {field: arg IR}"""
    out = {}
    for f, a in zip(fields, call_ir[2]):
        out[f] = a
    for k, v in call_ir[3]:
        out[k] = v
    return out


def _r5(ctx, m):
    pkg = package(ctx.tree)
    fl = m.flow
    # --- roles of the CSR accumulators, from what is appended to them (the recogniser of C03.R1)
    from .c03 import csr_roles, _len_of_acc, _evaluated_after
    counter, croles, measured = csr_roles(m)
    roles = {k: {f.target for f in v} for k, v in croles.items()}
    scan_end = max([f.seq for v in croles.values() for f in v if f.loops] or [0])
    jcall = None
    ocall = None

    def ctor(v, name):
        """IR of `X.name(...)` / `name(...)` -> ("call", _, args, kws) view or None."""
        if v and v[0] == "meth" and v[2] == name:
            return ("call", None, v[3], v[4])
        if v and v[0] == "call" and ((v[1][0] == "attr" and v[1][2] == name) or v[1] == ("global", name)):
            return v
        return None
    for name, lst in fl.assigns.items():
        for v, loops, guards, line, seq in lst:
            if ctor(v, "Jacobian"):
                jcall = (ctor(v, "Jacobian"), line, seq)
    for f in fl.facts:
        if f.kind == "return" and ctor(f.value, "ODEContent"):
            ocall = (ctor(f.value, "ODEContent"), f.line)
            for a in list(ocall[0][2]) + [x for _, x in ocall[0][3]]:
                if ctor(a, "Jacobian"):
                    jcall = (ctor(a, "Jacobian"), f.line, f.seq)
    if jcall is None:
        ctx.missing("R5", "Jacobian(...)", (FILE, m.func.lineno), "construction of TemplateLoader.Jacobian not found")
    elif any(a_[0] == "star" for a_ in jcall[0][2]) or any(k_ in ("**", None) for k_, _ in jcall[0][3]):
        ctx.unrec("R5", "Jacobian(*..)", (FILE, jcall[1]), "Jacobian is constructed with unpacked arguments: which value reaches which field is not decided")
    else:
        args = _bind_args(dataclass_fields(pkg, "TemplateLoader.Jacobian"), jcall[0])
        want = {
            "nrow": (lambda a: m.is_n_eqns(a), "n_eqns"),
            # the number of stored entries: the counter incremented next to the appends, or the length of the value / column
            # list taken after the scan
            "nnz": ((lambda a: a[0] == "carried" and a[1] == counter) if counter is not None else
                    (lambda a: _len_of_acc(a) is not None and _len_of_acc(a) == measured and {measured} in (roles.get("vals"), roles.get("cols"))
                     and _evaluated_after(fl, a, jcall[2], scan_end)),
                    f"the non-zero counter `{counter}`" if counter is not None else f"len({measured}) after the scan"),
            "rows": (lambda a: a[0] == "acc" and {a[1]} == roles.get("rows"), f"the row-pointer list {sorted(roles.get('rows', []))}"),
            "cols": (lambda a: a[0] == "acc" and {a[1]} == roles.get("cols"), f"the column-index list {sorted(roles.get('cols', []))}"),
            "vals": (lambda a: a[0] == "acc" and {a[1]} == roles.get("vals"), f"the value list {sorted(roles.get('vals', []))}"),
            "rhs": (lambda a: a == m.JAC, "jacrhs"),
        }
        for fld, (pred, desc) in want.items():
            a = args.get(fld)
            sa_ = simp(a) if a is not None else None
            good = a is not None and bool(pred(sa_))
            # positive evidence of a mix-up: the field is missing, receives what belongs to ANOTHER field, or a count taken before the
            # scan; a value whose provenance is not understood is "cannot decide"
            other = [g for g, (p2, _) in want.items() if g != fld and a is not None and bool(p2(sa_))]
            early = fld == "nnz" and a is not None and ((sa_[0] == "call" and sa_[1] == ("global", "len")) or sa_ == ("const", 0))
            if fld in ("nnz", "rows", "cols", "vals") and not good and a is not None and (counter is None and measured is None or not all(k in roles for k in ("rows", "cols", "vals"))):
                # the CSR lists are not built by the scan this rule knows: which value plays which role is C03.R1's "cannot analyse"
                ctx.unrec("R5", f"Jacobian.{fld}", (FILE, jcall[1]), f"field `{fld}` receives `{show(sa_)[:100]}`; the CSR construction is not recognised, so its role is not decided")
                continue
            if good or a is None or other or early or sa_[0] in ("acc", "const", "list"):
                ctx.check(good, "R5", f"Jacobian.{fld}", (FILE, jcall[1]),
                          f"field `{fld}` receives {desc}", expected=desc, found=show(sa_)[:100] if a is not None else "missing")
            else:
                ctx.unrec("R5", f"Jacobian.{fld}", (FILE, jcall[1]), f"field `{fld}` receives `{show(sa_)[:100]}`: not traced to {desc}")
    if ocall is None:
        ctx.missing("R5", "ODEContent(...)", (FILE, m.func.lineno), "return ODEContent(...) not found")
    elif any(a_[0] == "star" for a_ in ocall[0][2]) or any(k_ in ("**", None) for k_, _ in ocall[0][3]):
        ctx.unrec("R5", "ODEContent(*..)", (FILE, ocall[1]), "ODEContent is constructed with unpacked arguments: which value reaches which field is not decided")
    else:
        args = _bind_args(dataclass_fields(pkg, "TemplateLoader.ODEContent"), ocall[0])

        def assign_rates(sym, src):
            def pred(a):
                if a[0] == "acc":
                    inits = [f.value for f in fl.facts if f.kind == "init" and f.target == a[1]]
                    a = simp(inits[0]) if len(inits) == 1 else a
                return a[0] == "meth" and a[2] == "_assign_rates" and len(a[3]) >= 2 and a[3][0] == ("const", sym) and a[3][1] == src
            return pred
        want = {
            "rateeqns": (assign_rates("k", m.REAC), "_assign_rates('k', reactions, grains)"),
            "hrateeqns": (assign_rates("kh", m.HEAT), "_assign_rates('kh', heating)"),
            "crateeqns": (assign_rates("kc", m.COOL), "_assign_rates('kc', cooling)"),
            "fex": (lambda a: a[0] == "comp" and a[3][0][1][0] == "call" and a[3][0][1][1] == ("global", "zip"), "the zipped lhs/rhs statements"),
            "jac": (lambda a: bool(ctor(a, "Jacobian")), "the Jacobian object"),
        }
        for fld, (pred, desc) in want.items():
            a = args.get(fld)
            sa_ = simp(a) if a is not None else None
            good = a is not None and bool(pred(sa_))
            # wrong: the field is missing or receives what belongs to ANOTHER field; a value of unknown provenance is "cannot decide"
            other = [g for g, (p2, _) in want.items() if g != fld and a is not None and bool(p2(sa_))]
            if good or a is None or other:
                ctx.check(good, "R5", f"ODEContent.{fld}", (FILE, ocall[1]),
                          f"field `{fld}` receives {desc}", expected=desc, found=show(sa_)[:100] if a is not None else "missing")
            else:
                ctx.unrec("R5", f"ODEContent.{fld}", (FILE, ocall[1]), f"field `{fld}` receives `{show(sa_)[:100]}`: not traced to {desc}")
    # --- RenormContent: by role -- `factor` holds one entry per species, `matrix` one per (element, element) pair, whichever way the
    #     lists are filled (nested loops, itertools.product, comprehensions, helper methods put back by pymodel.expanded)
    fn = pkg.expanded("TemplateLoader", "_prepare_renorm_content")
    ctx.saw(FILE, "TemplateLoader._prepare_renorm_content")
    rf = Flow(fn, FILE)
    rparams = [a_.arg for a_ in fn.args.args if a_.arg != "self"]
    rni = ("param", rparams[0]) if rparams else None
    SPECS, ELEMS = ("attr", rni, "species"), ("attr", rni, "elements")

    def domains(it):
        """the base sequences one iteration of `it` stands for: [S] for a position-preserving view of S (enumerate, zip of views of
        S, comprehension over S), [A, B] for product(A, B); None = not understood"""
        from ..valueflow import seq_base
        it = simp(it)
        if it[0] == "call" and it[1] in (("global", "enumerate"), ("global", "list"), ("global", "tuple"), ("global", "tqdm")) and it[2]:
            return domains(it[2][0])
        if it[0] == "call" and it[1] == ("global", "zip") and it[2] and not it[3]:
            ds = [domains(x) for x in it[2]]
            return ds[0] if all(d is not None and d == ds[0] for d in ds) else None
        if it[0] == "call" and it[1] in (("global", "product"), ("attr", ("global", "itertools"), "product")) and it[2] and \
                (not it[3] or (len(it[3]) == 1 and it[3][0][0] == "repeat" and it[3][0][1][0] == "const" and type(it[3][0][1][1]) is int and 1 <= it[3][0][1][1] <= 4)):
            out = []
            for x in it[2]:
                d = domains(x)
                if d is None:
                    return None
                out += d
            return out * (it[3][0][1][1] if it[3] else 1)      # product(A, repeat=2) is product(A, A)
        if it[0] == "call" and it[1] == ("global", "range") and len(it[2]) == 1 and not it[3]:
            # the positions of a sequence stand for its elements: range(len(S))
            n_ = simp(it[2][0])
            if n_[0] == "call" and n_[1] == ("global", "len") and len(n_[2]) == 1 and not n_[3]:
                return domains(n_[2][0])
            return None
        b = seq_base(it)
        return [b] if b is not None else None

    def entry_domain(a):
        if a[0] == "acc":
            apps = [f for f in rf.facts if f.kind == "append" and f.target == a[1]]
            # (that exactly one entry is appended per iteration is C16.R1's subject; here the loops tell which list this is)
            if not apps or len({tuple(l.id for l in f_.loops) for f_ in apps}) != 1:
                return None
            out = []
            for lp in apps[0].loops:
                d = domains(lp.iter)
                if d is None:
                    return None
                out += d
            return out
        if a[0] == "comp" and a[1] == "list":
            out = []
            for tg, it, ifs in a[3]:
                d = domains(it)
                if d is None or ifs:
                    return None
                out += d
            return out
        return None
    for f in rf.facts:
        if f.kind == "return" and ctor(f.value, "RenormContent"):
            args = _bind_args(dataclass_fields(pkg, "TemplateLoader.RenormContent"), ctor(f.value, "RenormContent"))
            for fld, want, desc in (("factor", [SPECS], "one entry per species"), ("matrix", [ELEMS, ELEMS], "one entry per (element, element) pair")):
                a = args.get(fld)
                a = simp(a) if a is not None else None
                dom = entry_domain(a) if a is not None else None
                key = f"RenormContent.{fld}"
                if a is None:
                    ctx.bad("R5", key, (FILE, f.line), f"field `{fld}` is not passed", found="missing")
                elif dom is None:
                    ctx.unrec("R5", key, (FILE, f.line), f"how the list passed as `{fld}` is filled is not understood: {show(a)[:100]}")
                else:
                    ctx.check(dom == want, "R5", key, (FILE, f.line), f"field `{fld}` receives the list with {desc}",
                              expected=" x ".join(show(w) for w in want), found=" x ".join(show(w) for w in dom) or "a single value")
    # --- NetworkInfo (2 sites)
    fields = dataclass_fields(pkg, "NetworkInfo")
    n = 0
    for file, cls, meth, fn in render_functions(pkg):
        ctx.saw(file, f"{cls}.{meth}")
        from ..pymodel import constructions
        for c in constructions(pkg, fn, "NetworkInfo"):
            if True:
                n += 1
                if any(isinstance(a, ast.Starred) for a in c.args) or any(k.arg is None for k in c.keywords):
                    ctx.unrec("R5", f"{cls}.{meth}:NetworkInfo(*..)", (file, c.lineno), "NetworkInfo is called with unpacked arguments: which value reaches which field is not decided")
                    continue
                bound = dict(zip(fields, c.args))
                bound.update({k.arg: k.value for k in c.keywords})
                # a local bound once to an expression stands for that expression (`species = network.species` .. NetworkInfo(.., species, ..))
                once = {}
                for st in ast.walk(fn):
                    if isinstance(st, ast.Assign) and len(st.targets) == 1 and isinstance(st.targets[0], ast.Name):
                        once.setdefault(st.targets[0].id, []).append(st.value)
                for fld in fields:
                    a = bound.get(fld)
                    if isinstance(a, ast.Name) and len(once.get(a.id, [])) == 1:
                        a = once[a.id][0]
                    src = ast.unparse(a) if a is not None else "missing"
                    ok = a is not None and (src == f"network.{fld}" or src.startswith(f"network.{fld} or "))
                    if fld == "reactions" and src == "network.reaction_list":
                        ok = True      # the same reactions; whether the dummy fill-in is counted is C03.R4 (sizes)
                    key = f"{cls}.{meth}:NetworkInfo.{fld}"
                    other = [g for g in fields if g != fld and (src == f"network.{g}" or src.startswith(f"network.{g} or "))]
                    if ok or a is None or other:
                        # positive evidence of a mix-up: the field is missing, or it receives ANOTHER field's sequence
                        ctx.check(ok, "R5", key, (file, c.lineno), f"field `{fld}` receives network.{fld}", expected=f"network.{fld}", found=src[:80])
                    else:
                        ctx.unrec("R5", key, (file, c.lineno), f"field `{fld}` receives `{src[:80]}`: not read as an attribute of the network")
    ctx.floor("R5", "NetworkInfo(...) call sites", n, 2)


T = FILE
MUTANTS = [
    {'name': 'thermal-wrap-in-a-guard-clause-helper-drops-gamma', 'edits': [{'file': 'naunet/templateloader.py', 'old': '    def _prepare_ode_content(\n', 'new': '    @staticmethod\n    def _wrap_thermal(rhs, jacrhs, n_spec, n_eqns, has_thermal):\n        if not has_thermal:\n            return\n        rhs[n_spec] = f"(gamma - 1.0) * ( {rhs[n_spec]} ) / kerg / npar"\n        for si in range(n_spec):\n            pos = n_spec * n_eqns + si\n            if jacrhs[pos] != "0.0":\n                jacrhs[pos] = f"( {jacrhs[pos]} ) / kerg / npar"\n\n    def _prepare_ode_content(\n'}, {'file': 'naunet/templateloader.py', 'old': '            rhs[n_spec] = f"(gamma - 1.0) * ( {rhs[n_spec]} ) / kerg / npar"\n            for si in range(n_spec):\n                jacrhs[n_spec * n_eqns + si] = (\n                    "0.0"\n                    if jacrhs[n_spec * n_eqns + si] == "0.0"\n                    else f"(gamma - 1.0) * ( {jacrhs[n_spec * n_eqns + si]} ) / kerg / npar"\n                )\n', 'new': '            self._wrap_thermal(rhs, jacrhs, n_spec, n_eqns, has_thermal)\n'}], 'rules': ['R3']},
    {'name': 'heat-derivative-terms-from-a-list-helper-that-removes-nothing', 'edits': [{'file': 'naunet/templateloader.py', 'old': '    def _prepare_ode_content(\n', 'new': '    @staticmethod\n    def _derivative_terms(prefix, rspecidx, rsym, y):\n        terms = []\n        for ri in rspecidx:\n            rest = rsym.copy()\n            terms.append((ri, "*".join([prefix, *rest])))\n        return terms\n\n    def _prepare_ode_content(\n'}, {'file': 'naunet/templateloader.py', 'old': '            for ri in rspecidx:\n                rsymcopy = rsym.copy()\n                rsymcopy.remove(y[ri])\n                term = f" + {\'*\'.join([f\'{hrate_sym}[{hidx}]\', *rsymcopy])}"\n                # only fill the last row of jacobian\n                jacrhs[n_spec * n_eqns + ri] += term\n', 'new': '            for ri, dterm in self._derivative_terms(f"{hrate_sym}[{hidx}]", rspecidx, rsym, y):\n                jacrhs[n_spec * n_eqns + ri] += f" + {dterm}"\n'}], 'rules': ['R1']},
    {"name": "jacobian-table-handed-out-from-a-module-level-memo", "edits": [
        {"file": T, "old": "\nclass TemplateLoader:\n", "new": "\n_JAC_TABLES = {}\n\n\nclass TemplateLoader:\n"},
        {"file": T, "old": "    def _prepare_ode_content(\n", "new": "    def _empty_table(self, n):\n        table = _JAC_TABLES.get(n)\n        if table is None:\n            table = [\"0.0\"] * n * n\n            _JAC_TABLES[n] = table\n        return table\n\n    def _prepare_ode_content(\n"},
        {"file": T, "old": '        jacrhs = ["0.0"] * n_eqns * n_eqns\n', "new": '        jacrhs = self._empty_table(n_eqns)\n'}], "rules": ["R12"]},
    {"name": "cancelling-terms-removed-by-membership", "edits": [
        {"file": T, "old": "    def _prepare_ode_content(\n", "new": "    @staticmethod\n    def _tidy(entry):\n        head, *toks = entry.split(\" \")\n        pairs = list(zip(toks[0::2], toks[1::2]))\n        minus = [t for s, t in pairs if s == \"-\"]\n        plus = [t for s, t in pairs if s == \"+\"]\n        return \" \".join([head, *[f\"{s} {t}\" for s, t in pairs if t not in (plus if s == \"-\" else minus)]])\n\n    def _prepare_ode_content(\n"},
        {"file": T, "old": "        # add the modifying term to fex and jac\n", "new": "        jacrhs = [self._tidy(e) for e in jacrhs]\n        # add the modifying term to fex and jac\n"}], "rules": ["R13"]},
    {"name": "fex-evaluates-on-floored-abundances", "file": "naunet/templates/cvode/src/naunet_fex.cpp.j2",
     "old": "    realtype *y            = N_VGetArrayPointer(u);\n", "new": "    realtype *yraw         = N_VGetArrayPointer(u);\n    realtype y[NEQUATIONS];\n    for (int i = 0; i < NEQUATIONS; i++) {\n        y[i] = yraw[i] < 0.0 ? 0.0 : yraw[i];\n    }\n", "rules": ["R14"]},
    {"name": "jacobian-rows-created-by-list-multiplication", "edits": [
        {"file": T, "old": "from pathlib import Path\n", "new": "from itertools import chain\nfrom pathlib import Path\n"},
        {"file": T, "old": '        jacrhs = ["0.0"] * n_eqns * n_eqns\n', "new": '        jacrows = [["0.0"] * n_eqns] * n_eqns\n'},
        {"file": T, "old": "jacrhs[specidx * n_eqns + ri] += term", "new": "jacrows[specidx][ri] += term", "count": 2},
        {"file": T, "old": "jacrhs[sidx * n_eqns + didx] += term", "new": "jacrows[sidx][didx] += term"},
        {"file": T, "old": "jacrhs[n_spec * n_eqns + ri] += term", "new": "jacrows[n_spec][ri] += term", "count": 2},
        {"file": T, "old": '            for si in range(n_spec):\n                jacrhs[n_spec * n_eqns + si] = (\n                    "0.0"\n                    if jacrhs[n_spec * n_eqns + si] == "0.0"\n                    else f"(gamma - 1.0) * ( {jacrhs[n_spec * n_eqns + si]} ) / kerg / npar"\n                )\n',
         "new": '            thermalrow = jacrows[n_spec]\n            for si in range(n_spec):\n                if thermalrow[si] != "0.0":\n                    thermalrow[si] = f"(gamma - 1.0) * ( {thermalrow[si]} ) / kerg / npar"\n'},
        {"file": T, "old": '        fex = [f"{l} = {r};" for l, r in zip(lhs, rhs)]\n', "new": '        jacrhs = list(chain.from_iterable(jacrows))\n        fex = [f"{l} = {r};" for l, r in zip(lhs, rhs)]\n'}], "rules": ["R4"]},
    {"name": "dict-keyed-jacobian-modifier-term-transposed", "edits": [
        {"file": T, "old": '        jacrhs = ["0.0"] * n_eqns * n_eqns\n', "new": '        jacterms = {}\n'},
        {"file": T, "old": "jacrhs[specidx * n_eqns + ri] += term", "new": 'jacterms[(specidx, ri)] = jacterms.get((specidx, ri), "0.0") + term', "count": 2},
        {"file": T, "old": "jacrhs[sidx * n_eqns + didx] += term", "new": 'jacterms[(didx, sidx)] = jacterms.get((didx, sidx), "0.0") + term'},
        {"file": T, "old": "jacrhs[n_spec * n_eqns + ri] += term", "new": 'jacterms[(n_spec, ri)] = jacterms.get((n_spec, ri), "0.0") + term', "count": 2},
        {"file": T, "old": '            for si in range(n_spec):\n                jacrhs[n_spec * n_eqns + si] = (\n                    "0.0"\n                    if jacrhs[n_spec * n_eqns + si] == "0.0"\n                    else f"(gamma - 1.0) * ( {jacrhs[n_spec * n_eqns + si]} ) / kerg / npar"\n                )\n',
         "new": '            for si in range(n_spec):\n                if (n_spec, si) in jacterms:\n                    jacterms[(n_spec, si)] = f"(gamma - 1.0) * ( {jacterms[(n_spec, si)]} ) / kerg / npar"\n'},
        {"file": T, "old": '        fex = [f"{l} = {r};" for l, r in zip(lhs, rhs)]\n', "new": '        jacrhs = [jacterms.get((row, col), "0.0") for row in range(n_eqns) for col in range(n_eqns)]\n        fex = [f"{l} = {r};" for l, r in zip(lhs, rhs)]\n'}], "rules": ["R1"]},
    {"name": "thermal-wrap-slice-walk-stores-one-column-off", "file": T,
     "old": '            for si in range(n_spec):\n                jacrhs[n_spec * n_eqns + si] = (\n                    "0.0"\n                    if jacrhs[n_spec * n_eqns + si] == "0.0"\n                    else f"(gamma - 1.0) * ( {jacrhs[n_spec * n_eqns + si]} ) / kerg / npar"\n                )\n',
     "new": '            tstart = n_spec * n_eqns\n            for si, entry in enumerate(jacrhs[tstart : tstart + n_spec]):\n                if entry != "0.0":\n                    jacrhs[tstart + si + 1] = f"(gamma - 1.0) * ( {entry} ) / kerg / npar"\n', "rules": ["R3"]},
    {'name': 'dense-filled-from-csr-with-row-cursor-advanced-by-if', 'file': DENSE, 'old': '    {% for r in ode.jac.rhs -%}\n    {% set neqns = ode.jac.nrow -%}\n    {% if r != "0.0" -%}\n    IJth(jmatrix, {{ (loop.index0/neqns) | int }}, {{ loop.index0%neqns }}) = {{ r | stmwrap(80, 24)}};\n    {% endif -%}\n    {% endfor %}\n', 'new': '    {% set cur = namespace(row=0) -%}\n    {% for col, val in zip(ode.jac.cols, ode.jac.vals) -%}\n    {% if loop.index0 >= ode.jac.rows[cur.row + 1] -%}\n    {% set cur.row = cur.row + 1 -%}\n    {% endif -%}\n    IJth(jmatrix, {{ cur.row }}, {{ col }}) = {{ val | stmwrap(80, 24)}};\n    {% endfor %}\n', 'rules': ['R4']},
    {'name': 'odeint-rows-by-batch-transposed', 'file': ODEINT, 'old': '    {% for r in ode.jac.rhs -%}\n    {% set neqns = ode.jac.nrow -%}\n    {% if r != "0.0" -%}\n    j({{ (loop.index0/neqns) | int }}, {{ loop.index0%neqns }}) = {{ r | stmwrap(80, 24)}};\n    {% endif -%}\n    {% endfor %}\n', 'new': '    {% for rowterms in ode.jac.rhs | batch(ode.jac.nrow) -%}\n    {% set irow = loop.index0 -%}\n    {% for r in rowterms -%}\n    {% if r != "0.0" -%}\n    j({{ loop.index0 }}, {{ irow }}) = {{ r | stmwrap(80, 24)}};\n    {% endif -%}\n    {% endfor -%}\n    {% endfor %}\n', 'rules': ['R4']},
    {'name': 'dense-decode-from-loop-index', 'file': DENSE, 'old': 'IJth(jmatrix, {{ (loop.index0/neqns) | int }}, {{ loop.index0%neqns }})', 'new': 'IJth(jmatrix, {{ (loop.index/neqns) | int }}, {{ loop.index%neqns }})', 'rules': ['R4']},
    {'name': 'memo-dict-read-with-the-row-key', 'file': T, 'old': '            for specidx in rspecidx:\n                # df/dx, remove the dependency for current reactant\n                for ri in rspecidx:\n                    rsymcopy = rsym.copy()\n                    rsymcopy.remove(y[ri])\n                    term = f" - {\'*\'.join([f\'{rate_sym}[{rl}]\', *rsymcopy])}"\n                    jacrhs[specidx * n_eqns + ri] += term\n            for specidx in pspecidx:\n                for ri in rspecidx:\n                    rsymcopy = rsym.copy()\n                    rsymcopy.remove(y[ri])\n                    term = f" + {\'*\'.join([f\'{rate_sym}[{rl}]\', *rsymcopy])}"\n                    jacrhs[specidx * n_eqns + ri] += term\n', 'new': '            dflux = {}\n            for ri in rspecidx:\n                if ri not in dflux:\n                    rsymcopy = rsym.copy()\n                    rsymcopy.remove(y[ri])\n                    dflux[ri] = "*".join([f"{rate_sym}[{rl}]", *rsymcopy])\n            for specidx in rspecidx:\n                rowstart = specidx * n_eqns\n                for ri in rspecidx:\n                    jacrhs[rowstart + ri] += " - " + dflux[ri]\n            for specidx in pspecidx:\n                rowstart = specidx * n_eqns\n                for ri in rspecidx:\n                    jacrhs[rowstart + ri] += " + " + dflux[specidx]\n', 'rules': ['R1']},
    {'name': 'signed-chain-gain-rows-taken-from-reactants', 'edits': [{'file': T, 'old': 'from pathlib import Path\n', 'new': 'from itertools import chain, repeat\nfrom pathlib import Path\n'}, {'file': T, 'old': '            for specidx in rspecidx:\n                # df/dx, remove the dependency for current reactant\n                for ri in rspecidx:\n                    rsymcopy = rsym.copy()\n                    rsymcopy.remove(y[ri])\n                    term = f" - {\'*\'.join([f\'{rate_sym}[{rl}]\', *rsymcopy])}"\n                    jacrhs[specidx * n_eqns + ri] += term\n            for specidx in pspecidx:\n                for ri in rspecidx:\n                    rsymcopy = rsym.copy()\n                    rsymcopy.remove(y[ri])\n                    term = f" + {\'*\'.join([f\'{rate_sym}[{rl}]\', *rsymcopy])}"\n                    jacrhs[specidx * n_eqns + ri] += term\n', 'new': '            changes = list(chain(zip(repeat(" - "), rspecidx), zip(repeat(" + "), rspecidx)))\n            for sign, specidx in changes:\n                for ri in rspecidx:\n                    rsymcopy = rsym.copy()\n                    rsymcopy.remove(y[ri])\n                    jacrhs[specidx * n_eqns + ri] += sign + "*".join([f"{rate_sym}[{rl}]", *rsymcopy])\n'}], 'rules': ['R1']},
    {"name": "helper-function-removes-from-the-shared-factor-list", "edits": [
        {"file": T, "old": '    def _prepare_ode_content(\n', "new": '    @staticmethod\n    def _minus_one(symbols, sym):\n        rest = symbols\n        rest.remove(sym)\n        return rest\n\n    def _prepare_ode_content(\n'},
        {"file": T, "old": '            for specidx in rspecidx:\n                # df/dx, remove the dependency for current reactant\n                for ri in rspecidx:\n                    rsymcopy = rsym.copy()\n                    rsymcopy.remove(y[ri])\n                    term = f" - {\'*\'.join([f\'{rate_sym}[{rl}]\', *rsymcopy])}"\n                    jacrhs[specidx * n_eqns + ri] += term\n            for specidx in pspecidx:\n                for ri in rspecidx:\n                    rsymcopy = rsym.copy()\n                    rsymcopy.remove(y[ri])\n                    term = f" + {\'*\'.join([f\'{rate_sym}[{rl}]\', *rsymcopy])}"\n                    jacrhs[specidx * n_eqns + ri] += term\n',
         "new": '            dprods = ["*".join([f"{rate_sym}[{rl}]", *self._minus_one(rsym, y[ri])]) for ri in rspecidx]\n            for sign, affected in (("-", rspecidx), ("+", pspecidx)):\n                for specidx in affected:\n                    for ri, dprod in zip(rspecidx, dprods):\n                        jacrhs[specidx * n_eqns + ri] += f" {sign} {dprod}"\n'}], "rules": ["R1"]},
    {"name": 'nnz-length-taken-before-scan', "file": T, "old": '        nnz = 0\n\n        for row in range(n_eqns):\n            spjacrptr.append(nnz)\n            for col in range(n_eqns):\n                elem = jacrhs[row * n_eqns + col]\n                if elem != "0.0":\n                    spjaccval.append(col)\n                    spjacdata.append(f"{elem}")\n                    nnz += 1\n        spjacrptr.append(nnz)\n',
     "new": '        nnz = len(spjacdata)\n        for row in range(n_eqns):\n            spjacrptr.append(len(spjacdata))\n            for col, elem in enumerate(jacrhs[row * n_eqns : (row + 1) * n_eqns]):\n                if elem == "0.0":\n                    continue\n                spjaccval.append(col)\n                spjacdata.append(elem)\n        spjacrptr.append(len(spjacdata))\n', "rules": ['R5']},
    {"name": "sparse-matrix-declared-csc", "file": "naunet/templates/cvode/src/naunet.cpp.j2", "old": "SUNSparseMatrix(NEQUATIONS, NEQUATIONS, NNZ, CSR_MAT, cv_sunctx_)", "new": "SUNSparseMatrix(NEQUATIONS, NEQUATIONS, NNZ, CSC_MAT, cv_sunctx_)", "count": 2, "rules": ["R9"]},
    {"name": "macros-gas-first", "file": "naunet/templates/base/cpp/include/naunet_macros.h.j2", "old": "{% for spec in network.species %}\n#define IDX_{{ spec.alias }} {{ loop.index0 }}", "new": "{% for spec in network.species | sort(attribute='is_surface') %}\n#define IDX_{{ spec.alias }} {{ loop.index0 }}", "rules": ["R8"]},
    {"name": "cusparse-kernel-drops-system-offset", "file": "naunet/templates/cvode/src/naunet_jac.cpp.j2", "old": "data[jistart + ", "new": "data[", "rules": ["R7"]},
    {"name": "odeint-jac-clips-abundances", "file": "naunet/templates/odeint/src/naunet_ode.cpp.j2", "old": "        y[i] = abund[i];\n    }\n\n    {% set components = network.reactions + network.grains + network.heating + network.cooling -%}\n    {% for key, _ in components | collect_variable_items(\"params\") -%}", "new": "        y[i] = fmax(abund[i], 0.0);\n    }\n\n    {% set components = network.reactions + network.grains + network.heating + network.cooling -%}\n    {% for key, _ in components | collect_variable_items(\"params\") -%}", "count": 2, "rules": ["R7"]},
    {"name": "remove-wrong-index", "file": T, "old": "for ri in rspecidx:\n                    rsymcopy = rsym.copy()\n                    rsymcopy.remove(y[ri])\n                    term = f\" - ",
     "new": "for ri in rspecidx:\n                    rsymcopy = rsym.copy()\n                    rsymcopy.remove(y[specidx])\n                    term = f\" - ", "rules": ["R1"]},
    {"name": "col-loop-set", "file": T, "old": "            for specidx in pspecidx:\n                for ri in rspecidx:", "new": "            for specidx in pspecidx:\n                for ri in set(rspecidx):", "rules": ["R1"]},
    {"name": "copy-hoisted", "file": T, "old": "            for specidx in pspecidx:\n                for ri in rspecidx:\n                    rsymcopy = rsym.copy()\n",
     "new": "            for specidx in pspecidx:\n                rsymcopy = rsym.copy()\n                for ri in rspecidx:\n", "rules": ["R1"]},
    {"name": "no-copy", "file": T, "old": "                for ri in rspecidx:\n                    rsymcopy = rsym.copy()\n                    rsymcopy.remove(y[ri])\n                    term = f\" + ",
     "new": "                for ri in rspecidx:\n                    rsymcopy = rsym\n                    rsymcopy.remove(y[ri])\n                    term = f\" + ", "rules": ["R1"]},
    {"name": "transposed-store", "file": T, "old": "                    term = f\" - {'*'.join([f'{rate_sym}[{rl}]', *rsymcopy])}\"\n                    jacrhs[specidx * n_eqns + ri] += term",
     "new": "                    term = f\" - {'*'.join([f'{rate_sym}[{rl}]', *rsymcopy])}\"\n                    jacrhs[ri * n_eqns + specidx] += term", "rules": ["R1"]},
    {"name": "jac-sign-only", "file": T, "old": "term = f\" + {'*'.join([f'{rate_sym}[{rl}]', *rsymcopy])}\"", "new": "term = f\" - {'*'.join([f'{rate_sym}[{rl}]', *rsymcopy])}\"", "rules": ["R1"]},
    {"name": "odeint-decode-swapped", "file": ODEINT, "old": "j({{ (loop.index0/neqns) | int }}, {{ loop.index0%neqns }})", "new": "j({{ loop.index0%neqns }}, {{ (loop.index0/neqns) | int }})", "rules": ["R4"]},
    {"name": "jacobian-args-swapped", "file": T, "old": "self.Jacobian(n_eqns, nnz, spjacrptr, spjaccval, spjacdata, jacrhs)", "new": "self.Jacobian(n_eqns, nnz, spjacrptr, spjacdata, spjaccval, jacrhs)", "rules": ["R5"]},
    {"name": "odeint-neqns-species", "file": ODEINT, "old": "{% set neqns = ode.jac.nrow -%}", "new": "{% set neqns = network.species | length -%}", "rules": ["R4"]},
    {"name": "dense-sentinel", "file": DENSE, "old": '{% if r != "0.0" -%}', "new": '{% if r != "0" -%}', "rules": ["R6"]},
    {"name": "jac-wrap-dropped-gamma", "file": T, "old": 'else f"(gamma - 1.0) * ( {jacrhs[n_spec * n_eqns + si]} ) / kerg / npar"', "new": 'else f"( {jacrhs[n_spec * n_eqns + si]} ) / kerg / npar"', "rules": ["R3"]},
    {"name": "heat-jac-row", "file": T, "old": "jacrhs[n_spec * n_eqns + ri] += term\n\n        # prepare cooling", "new": "jacrhs[ri * n_eqns + n_spec] += term\n\n        # prepare cooling", "rules": ["R1"]},
    {"name": "netinfo-swapped", "file": T, "old": "            network.heating,\n            network.cooling,\n            network.grains,", "new": "            network.cooling,\n            network.heating,\n            network.grains,", "rules": ["R5"]},
    {"name": "modifier-star-of-joined-str", "file": T, "old": "*depsymcopy])}", "new": "*depsymcopy_mul])}", "rules": ["R2"]},
    {"name": "modifier-remove-wrong", "file": T, "old": "depsymcopy.remove(y[didx])", "new": "depsymcopy.remove(y[sidx])", "rules": ["R1"]},
    {"name": "skip-catalyst-jac", "file": T, "old": "            for specidx in pspecidx:\n                for ri in rspecidx:\n                    rsymcopy = rsym.copy()", "new": "            for specidx in pspecidx:\n                if specidx in rspecidx:\n                    continue\n                for ri in rspecidx:\n                    rsymcopy = rsym.copy()", "rules": ["R1"]},
]
BENIGN = [
    {'name': 'heat-guard-clause-before-column-loop', 'file': 'naunet/templateloader.py', 'old': '            for ri in rspecidx:\n                rsymcopy = rsym.copy()\n                rsymcopy.remove(y[ri])\n                term = f" + {\'*\'.join([f\'{hrate_sym}[{hidx}]\', *rsymcopy])}"\n                # only fill the last row of jacobian\n                jacrhs[n_spec * n_eqns + ri] += term\n', 'new': '            if not rspecidx:\n                continue\n            for ri in rspecidx:\n                rsymcopy = rsym.copy()\n                rsymcopy.remove(y[ri])\n                term = f" + {\'*\'.join([f\'{hrate_sym}[{hidx}]\', *rsymcopy])}"\n                # only fill the last row of jacobian\n                jacrhs[n_spec * n_eqns + ri] += term\n'},
    {'name': 'wrap-thermal-block-guard-clause-helper', 'edits': [{'file': 'naunet/templateloader.py', 'old': '    def _prepare_ode_content(\n', 'new': '    @staticmethod\n    def _wrap_thermal(rhs, jacrhs, n_spec, n_eqns, has_thermal):\n        if not has_thermal:\n            return\n        rhs[n_spec] = f"(gamma - 1.0) * ( {rhs[n_spec]} ) / kerg / npar"\n        for si in range(n_spec):\n            pos = n_spec * n_eqns + si\n            if jacrhs[pos] != "0.0":\n                jacrhs[pos] = f"(gamma - 1.0) * ( {jacrhs[pos]} ) / kerg / npar"\n\n    def _prepare_ode_content(\n'}, {'file': 'naunet/templateloader.py', 'old': '            rhs[n_spec] = f"(gamma - 1.0) * ( {rhs[n_spec]} ) / kerg / npar"\n            for si in range(n_spec):\n                jacrhs[n_spec * n_eqns + si] = (\n                    "0.0"\n                    if jacrhs[n_spec * n_eqns + si] == "0.0"\n                    else f"(gamma - 1.0) * ( {jacrhs[n_spec * n_eqns + si]} ) / kerg / npar"\n                )\n', 'new': '            self._wrap_thermal(rhs, jacrhs, n_spec, n_eqns, has_thermal)\n'}]},
    {'name': 'heat-jac-terms-from-list-helper', 'edits': [{'file': 'naunet/templateloader.py', 'old': '    def _prepare_ode_content(\n', 'new': '    @staticmethod\n    def _derivative_terms(prefix, rspecidx, rsym, y):\n        terms = []\n        for ri in rspecidx:\n            rest = rsym.copy()\n            rest.remove(y[ri])\n            terms.append((ri, "*".join([prefix, *rest])))\n        return terms\n\n    def _prepare_ode_content(\n'}, {'file': 'naunet/templateloader.py', 'old': '            for ri in rspecidx:\n                rsymcopy = rsym.copy()\n                rsymcopy.remove(y[ri])\n                term = f" + {\'*\'.join([f\'{hrate_sym}[{hidx}]\', *rsymcopy])}"\n                # only fill the last row of jacobian\n                jacrhs[n_spec * n_eqns + ri] += term\n', 'new': '            for ri, dterm in self._derivative_terms(f"{hrate_sym}[{hidx}]", rspecidx, rsym, y):\n                jacrhs[n_spec * n_eqns + ri] += f" + {dterm}"\n'}]},
    {'name': 'n-eqns-conditional-expression', 'file': 'naunet/templateloader.py', 'old': '        n_eqns = max(n_spec + has_thermal, 1)\n', 'new': '        n_eqns = n_spec + 1 if has_thermal else n_spec\n        n_eqns = max(n_eqns, 1)\n'},
    {'name': 'netinfo-module-function', 'edits': [{'file': 'naunet/templateloader.py', 'old': '\nclass TemplateLoader:\n', 'new': '\ndef _network_info(net):\n    dummy = [Reaction(reaction_type=ReactionType.DUMMY)]\n    return NetworkInfo(net.elements, net.species, net.reactions or dummy, net.heating, net.cooling, net.grains, net.shielding)\n\n\nclass TemplateLoader:\n'}, {'file': 'naunet/templateloader.py', 'old': '        info = NetworkInfo(\n            network.elements,\n            network.species,\n            network.reactions or [Reaction(reaction_type=ReactionType.DUMMY)],\n            network.heating,\n            network.cooling,\n            network.grains,\n            network.shielding,\n        )\n', 'new': '        info = _network_info(network)\n'}]},
    {'name': 'csr-extracted-into-helper-returning-tuple', 'edits': [{'file': 'naunet/templateloader.py', 'old': '    def _prepare_ode_content(\n', 'new': '    @staticmethod\n    def _to_csr(entries, n):\n        rptr, cval, data = [], [], []\n        count = 0\n        for row in range(n):\n            rptr.append(count)\n            for col in range(n):\n                elem = entries[row * n + col]\n                if elem != "0.0":\n                    cval.append(col)\n                    data.append(f"{elem}")\n                    count += 1\n        rptr.append(count)\n        return count, rptr, cval, data\n\n    def _prepare_ode_content(\n'}, {'file': 'naunet/templateloader.py', 'old': '        spjacrptr = []\n        spjaccval = []\n        spjacdata = []\n\n        nnz = 0\n\n        for row in range(n_eqns):\n            spjacrptr.append(nnz)\n            for col in range(n_eqns):\n                elem = jacrhs[row * n_eqns + col]\n                if elem != "0.0":\n                    spjaccval.append(col)\n                    spjacdata.append(f"{elem}")\n                    nnz += 1\n        spjacrptr.append(nnz)\n', 'new': '        nnz, spjacrptr, spjaccval, spjacdata = self._to_csr(jacrhs, n_eqns)\n'}]},
    {"name": "jacobian-kept-as-a-list-of-rows-flattened-once", "edits": [
        {"file": T, "old": "from pathlib import Path\n", "new": "from itertools import chain\nfrom pathlib import Path\n"},
        {"file": T, "old": '        jacrhs = ["0.0"] * n_eqns * n_eqns\n', "new": '        jacrows = [["0.0"] * n_eqns for _ in range(n_eqns)]\n'},
        {"file": T, "old": "jacrhs[specidx * n_eqns + ri] += term", "new": "jacrows[specidx][ri] += term", "count": 2},
        {"file": T, "old": "jacrhs[sidx * n_eqns + didx] += term", "new": "jacrows[sidx][didx] += term"},
        {"file": T, "old": "jacrhs[n_spec * n_eqns + ri] += term", "new": "jacrows[n_spec][ri] += term", "count": 2},
        {"file": T, "old": '            for si in range(n_spec):\n                jacrhs[n_spec * n_eqns + si] = (\n                    "0.0"\n                    if jacrhs[n_spec * n_eqns + si] == "0.0"\n                    else f"(gamma - 1.0) * ( {jacrhs[n_spec * n_eqns + si]} ) / kerg / npar"\n                )\n',
         "new": '            thermalrow = jacrows[n_spec]\n            for si in range(n_spec):\n                if thermalrow[si] != "0.0":\n                    thermalrow[si] = f"(gamma - 1.0) * ( {thermalrow[si]} ) / kerg / npar"\n'},
        {"file": T, "old": '        fex = [f"{l} = {r};" for l, r in zip(lhs, rhs)]\n', "new": '        jacrhs = list(chain.from_iterable(jacrows))\n        fex = [f"{l} = {r};" for l, r in zip(lhs, rhs)]\n'}]},
    {"name": "jacobian-terms-kept-in-a-dict-keyed-by-row-and-column", "edits": [
        {"file": T, "old": '        jacrhs = ["0.0"] * n_eqns * n_eqns\n', "new": '        jacterms = {}\n'},
        {"file": T, "old": "jacrhs[specidx * n_eqns + ri] += term", "new": 'jacterms[(specidx, ri)] = jacterms.get((specidx, ri), "0.0") + term', "count": 2},
        {"file": T, "old": "jacrhs[sidx * n_eqns + didx] += term", "new": 'jacterms[(sidx, didx)] = jacterms.get((sidx, didx), "0.0") + term'},
        {"file": T, "old": "jacrhs[n_spec * n_eqns + ri] += term", "new": 'jacterms[(n_spec, ri)] = jacterms.get((n_spec, ri), "0.0") + term', "count": 2},
        {"file": T, "old": '            for si in range(n_spec):\n                jacrhs[n_spec * n_eqns + si] = (\n                    "0.0"\n                    if jacrhs[n_spec * n_eqns + si] == "0.0"\n                    else f"(gamma - 1.0) * ( {jacrhs[n_spec * n_eqns + si]} ) / kerg / npar"\n                )\n',
         "new": '            for si in range(n_spec):\n                if (n_spec, si) in jacterms:\n                    jacterms[(n_spec, si)] = f"(gamma - 1.0) * ( {jacterms[(n_spec, si)]} ) / kerg / npar"\n'},
        {"file": T, "old": '        fex = [f"{l} = {r};" for l, r in zip(lhs, rhs)]\n', "new": '        jacrhs = [jacterms.get((row, col), "0.0") for row in range(n_eqns) for col in range(n_eqns)]\n        fex = [f"{l} = {r};" for l, r in zip(lhs, rhs)]\n'}]},
    {"name": "thermal-wrap-walks-the-row-slice-with-enumerate", "file": T,
     "old": '            for si in range(n_spec):\n                jacrhs[n_spec * n_eqns + si] = (\n                    "0.0"\n                    if jacrhs[n_spec * n_eqns + si] == "0.0"\n                    else f"(gamma - 1.0) * ( {jacrhs[n_spec * n_eqns + si]} ) / kerg / npar"\n                )\n',
     "new": '            tstart = n_spec * n_eqns\n            for si, entry in enumerate(jacrhs[tstart : tstart + n_spec]):\n                if entry != "0.0":\n                    jacrhs[tstart + si] = f"(gamma - 1.0) * ( {entry} ) / kerg / npar"\n'},
    {"name": "dense-decode-in-one-tuple-set", "file": DENSE, "old": "IJth(jmatrix, {{ (loop.index0/neqns) | int }}, {{ loop.index0%neqns }})",
     "new": "{% set irow, icol = loop.index0 // neqns, loop.index0 % neqns -%}IJth(jmatrix, {{ irow }}, {{ icol }})"},
    {"name": "sentinel-as-named-class-and-module-constant", "edits": [
        {"file": T, "old": "    @dataclass\n    class GeneralInfo:\n", "new": "    _ZERO = \"0.0\"\n\n    @dataclass\n    class GeneralInfo:\n"},
        {"file": T, "old": "\nclass TemplateLoader:\n", "new": "\n_NO_TERM = \"0.0\"\n\n\nclass TemplateLoader:\n"},
        {"file": T, "old": "        jacrhs = [\"0.0\"] * n_eqns * n_eqns", "new": "        jacrhs = [self._ZERO] * n_eqns * n_eqns"},
        {"file": T, "old": "                    \"0.0\"\n                    if jacrhs[n_spec * n_eqns + si] == \"0.0\"", "new": "                    _NO_TERM\n                    if jacrhs[n_spec * n_eqns + si] == TemplateLoader._ZERO"},
        {"file": T, "old": "                if elem != \"0.0\":", "new": "                if elem != self._ZERO:"},
        {"file": T, "old": "pattern = [0 if j == \"0.0\" else 1 for j in jacrhs]", "new": "pattern = [0 if j == _NO_TERM else 1 for j in jacrhs]"}]},
    {'name': 'dense-decode-index-minus-one-floordiv-remainder-by-subtraction', 'file': DENSE, 'old': '    {% for r in ode.jac.rhs -%}\n    {% set neqns = ode.jac.nrow -%}\n    {% if r != "0.0" -%}\n    IJth(jmatrix, {{ (loop.index0/neqns) | int }}, {{ loop.index0%neqns }}) = {{ r | stmwrap(80, 24)}};\n    {% endif -%}\n    {% endfor %}\n', 'new': '    {% set neqns = ode.jac.nrow -%}\n    {% for r in ode.jac.rhs -%}\n    {% if r != "0.0" -%}\n    {% set flat = loop.index - 1 -%}\n    IJth(jmatrix, {{ flat // neqns }}, {{ flat - neqns * (flat // neqns) }}) = {{ r | stmwrap(80, 24)}};\n    {% endif -%}\n    {% endfor %}\n'},
    {'name': 'odeint-sentinel-test-swapped-arms', 'file': ODEINT, 'old': '    {% for r in ode.jac.rhs -%}\n    {% set neqns = ode.jac.nrow -%}\n    {% if r != "0.0" -%}\n    j({{ (loop.index0/neqns) | int }}, {{ loop.index0%neqns }}) = {{ r | stmwrap(80, 24)}};\n    {% endif -%}\n    {% endfor %}\n', 'new': '    {% for r in ode.jac.rhs -%}\n    {% set neqns = ode.jac.nrow -%}\n    {% if r == "0.0" -%}\n    {% else -%}\n    j({{ (loop.index0/neqns) | int }}, {{ loop.index0%neqns }}) = {{ r | stmwrap(80, 24)}};\n    {% endif -%}\n    {% endfor %}\n'},
    {'name': 'odeint-rows-by-batch', 'file': ODEINT, 'old': '    {% for r in ode.jac.rhs -%}\n    {% set neqns = ode.jac.nrow -%}\n    {% if r != "0.0" -%}\n    j({{ (loop.index0/neqns) | int }}, {{ loop.index0%neqns }}) = {{ r | stmwrap(80, 24)}};\n    {% endif -%}\n    {% endfor %}\n', 'new': '    {% for rowterms in ode.jac.rhs | batch(ode.jac.nrow) -%}\n    {% set irow = loop.index0 -%}\n    {% for r in rowterms -%}\n    {% if r != "0.0" -%}\n    j({{ irow }}, {{ loop.index0 }}) = {{ r | stmwrap(80, 24)}};\n    {% endif -%}\n    {% endfor -%}\n    {% endfor %}\n'},
    {'name': 'derivative-terms-in-a-memo-dict-keyed-by-reactant', 'file': T, 'old': '            for specidx in rspecidx:\n                # df/dx, remove the dependency for current reactant\n                for ri in rspecidx:\n                    rsymcopy = rsym.copy()\n                    rsymcopy.remove(y[ri])\n                    term = f" - {\'*\'.join([f\'{rate_sym}[{rl}]\', *rsymcopy])}"\n                    jacrhs[specidx * n_eqns + ri] += term\n            for specidx in pspecidx:\n                for ri in rspecidx:\n                    rsymcopy = rsym.copy()\n                    rsymcopy.remove(y[ri])\n                    term = f" + {\'*\'.join([f\'{rate_sym}[{rl}]\', *rsymcopy])}"\n                    jacrhs[specidx * n_eqns + ri] += term\n', 'new': '            dflux = {}\n            for ri in rspecidx:\n                if ri not in dflux:\n                    rsymcopy = rsym.copy()\n                    rsymcopy.remove(y[ri])\n                    dflux[ri] = "*".join([f"{rate_sym}[{rl}]", *rsymcopy])\n            for specidx in rspecidx:\n                rowstart = specidx * n_eqns\n                for ri in rspecidx:\n                    jacrhs[rowstart + ri] += " - " + dflux[ri]\n            for specidx in pspecidx:\n                rowstart = specidx * n_eqns\n                for ri in rspecidx:\n                    jacrhs[rowstart + ri] += " + " + dflux[ri]\n'},
    {'name': 'loss-and-gain-rows-walked-as-one-signed-chain', 'edits': [{'file': T, 'old': 'from pathlib import Path\n', 'new': 'from itertools import chain, repeat\nfrom pathlib import Path\n'}, {'file': T, 'old': '            for specidx in rspecidx:\n                # df/dx, remove the dependency for current reactant\n                for ri in rspecidx:\n                    rsymcopy = rsym.copy()\n                    rsymcopy.remove(y[ri])\n                    term = f" - {\'*\'.join([f\'{rate_sym}[{rl}]\', *rsymcopy])}"\n                    jacrhs[specidx * n_eqns + ri] += term\n            for specidx in pspecidx:\n                for ri in rspecidx:\n                    rsymcopy = rsym.copy()\n                    rsymcopy.remove(y[ri])\n                    term = f" + {\'*\'.join([f\'{rate_sym}[{rl}]\', *rsymcopy])}"\n                    jacrhs[specidx * n_eqns + ri] += term\n', 'new': '            changes = list(chain(zip(repeat(" - "), rspecidx), zip(repeat(" + "), pspecidx)))\n            for sign, specidx in changes:\n                for ri in rspecidx:\n                    rsymcopy = rsym.copy()\n                    rsymcopy.remove(y[ri])\n                    jacrhs[specidx * n_eqns + ri] += sign + "*".join([f"{rate_sym}[{rl}]", *rsymcopy])\n'}]},
    {"name": "derivative-terms-precomputed-per-reactant", "file": T, "old": '            for specidx in rspecidx:\n                # df/dx, remove the dependency for current reactant\n                for ri in rspecidx:\n                    rsymcopy = rsym.copy()\n                    rsymcopy.remove(y[ri])\n                    term = f" - {\'*\'.join([f\'{rate_sym}[{rl}]\', *rsymcopy])}"\n                    jacrhs[specidx * n_eqns + ri] += term\n            for specidx in pspecidx:\n                for ri in rspecidx:\n                    rsymcopy = rsym.copy()\n                    rsymcopy.remove(y[ri])\n                    term = f" + {\'*\'.join([f\'{rate_sym}[{rl}]\', *rsymcopy])}"\n                    jacrhs[specidx * n_eqns + ri] += term\n',
     "new": '            dterms = []\n            for ri in rspecidx:\n                rsymcopy = rsym.copy()\n                rsymcopy.remove(y[ri])\n                dterms.append((ri, "*".join([f"{rate_sym}[{rl}]", *rsymcopy])))\n            for specidx in rspecidx:\n                for ri, dterm in dterms:\n                    jacrhs[specidx * n_eqns + ri] += f" - {dterm}"\n            for specidx in pspecidx:\n                for ri, dterm in dterms:\n                    jacrhs[specidx * n_eqns + ri] += f" + {dterm}"\n'},
    {"name": "derivative-terms-by-helper-function-and-zip", "edits": [
        {"file": T, "old": '    def _prepare_ode_content(\n', "new": '    @staticmethod\n    def _minus_one(symbols, sym):\n        rest = symbols.copy()\n        rest.remove(sym)\n        return rest\n\n    def _prepare_ode_content(\n'},
        {"file": T, "old": '            for specidx in rspecidx:\n                # df/dx, remove the dependency for current reactant\n                for ri in rspecidx:\n                    rsymcopy = rsym.copy()\n                    rsymcopy.remove(y[ri])\n                    term = f" - {\'*\'.join([f\'{rate_sym}[{rl}]\', *rsymcopy])}"\n                    jacrhs[specidx * n_eqns + ri] += term\n            for specidx in pspecidx:\n                for ri in rspecidx:\n                    rsymcopy = rsym.copy()\n                    rsymcopy.remove(y[ri])\n                    term = f" + {\'*\'.join([f\'{rate_sym}[{rl}]\', *rsymcopy])}"\n                    jacrhs[specidx * n_eqns + ri] += term\n',
         "new": '            dprods = ["*".join([f"{rate_sym}[{rl}]", *self._minus_one(rsym, y[ri])]) for ri in rspecidx]\n            for sign, affected in (("-", rspecidx), ("+", pspecidx)):\n                for specidx in affected:\n                    for ri, dprod in zip(rspecidx, dprods):\n                        jacrhs[specidx * n_eqns + ri] += f" {sign} {dprod}"\n'}]},
    {"name": "modifier-term-by-list-concatenation", "file": T, "old": "term = f\" + {'*'.join([f'({fact})', *depsymcopy])}\"", "new": "term = \" + \" + \"*\".join([f\"({fact})\"] + depsymcopy)"},
    {"name": "csr-rowslice-enumerate-count-by-len", "file": T, "old": '        nnz = 0\n\n        for row in range(n_eqns):\n            spjacrptr.append(nnz)\n            for col in range(n_eqns):\n                elem = jacrhs[row * n_eqns + col]\n                if elem != "0.0":\n                    spjaccval.append(col)\n                    spjacdata.append(f"{elem}")\n                    nnz += 1\n        spjacrptr.append(nnz)\n',
     "new": '        for row in range(n_eqns):\n            spjacrptr.append(len(spjacdata))\n            for col, elem in enumerate(jacrhs[row * n_eqns + 0 : (row + 1) * n_eqns]):\n                if elem == "0.0":\n                    continue\n                spjaccval.append(col)\n                spjacdata.append(elem)\n        nnz = len(spjacdata)\n        spjacrptr.append(nnz)\n'},
    {"name": "arrays-renamed", "edits": [
        {"file": T, "old": "jacrhs", "new": "jacent", "count": 13},
        {"file": T, "old": "rhs[", "new": "derivs[", "count": 9},
        {"file": T, "old": "        rhs = [\"0.0\"] * n_eqns", "new": "        derivs = [\"0.0\"] * n_eqns"},
        {"file": T, "old": "zip(lhs, rhs)", "new": "zip(lhs, derivs)"}]},
    {"name": "modifier-copy-by-list", "file": T, "old": "depsymcopy = depsym.copy()", "new": "depsymcopy = list(depsym)"},
    {"name": "list-instead-of-copy", "file": T, "old": "rsymcopy = rsym.copy()", "new": "rsymcopy = list(rsym)", "count": 4},
    {"name": "odeint-decode-in-set-variables", "file": ODEINT, "old": "j({{ (loop.index0/neqns) | int }}, {{ loop.index0%neqns }})",
     "new": "{% set irow = loop.index0 // neqns -%}{% set icol = loop.index0 % neqns -%}j({{ irow }}, {{ icol }})"},
    {"name": "index-commuted", "file": T, "old": "jacrhs[specidx * n_eqns + ri] += term", "new": "jacrhs[ri + n_eqns * specidx] += term", "count": 2},
]
