"""C18 -- write/read of the native exchange format and export/re-render agree."""
from __future__ import annotations

import ast
import re

from .. import calg
from ..pymodel import package
from ..ratemodel import model as ratemodel, SELF
from ..valueflow import Flow, acc_as_comp, as_dict_map, as_map, flatten_fstr, lower, match, peval, truthy, V, show, simp, subst, walk
from .c05 import REF, arms_for, variant_text, COEFF, _about_law
from .c10 import tables, grain_methods, GRAIN_CLASSES, delegated_types
from .c11 import name_hole

EXPLANATION = (
    "R1 the field sequence written by Reaction.__format__('naunet') (idx, 3 reactants, 5 products, alpha, beta, gamma, tmin, tmax, type, source) "
    "equals, position by position, the destructuring of Reaction._parse_string, and the fill counts 3/5 equal the reader's slice bounds; R2 every "
    "written field is recovered by an inverse: numbers through int/float, species through strip() with a width-only (never truncating) format, "
    "padded string fields are stripped by the reader (a trailing field would otherwise keep its padding and the line terminator); R3 the type code "
    "written is total for the reader: every value a per-format IntEnum alias can hold is a ReactionType value; R4 Network.write emits exactly one "
    "terminated record per reaction; R5 sibling laws: for every format class and database code, the native class either refuses the exported type "
    "or its template is algebraically the law the format class uses (symbols unified through the registry names), including grain-delegated types; "
    "R6 export wiring: Network.export writes reactions.naunet in format 'naunet' on every path that continues to the configuration and sources, NetworkConfiguration records exactly that file/format and exports "
    "binding energies / yields of every surface species, and 'naunet' maps to the class whose __format__ wrote the file; R10 BaseConfiguration.content writes each "
    "of those tables (binding_energy, photon_yield, rate_modifier, ode_modifier, files, formats) whole -- the attribute, a copy, or an unfiltered key-by-key re-spelling; "
    "R11 a format class whose law lives in state the exchange format cannot store (KROME's explicit rate text) exports only type codes the native class refuses; "
    "R12 (shared with C07.R1) every record the writer emits reaches the parser on read-back: the line pre-processing hook of the base class is the identity, only KROME filters "
    "(comment / directive lines), KROME keeps every data line -- including one that names a `#` surface species -- and the reader hands the pre-processed line to the parser.")
ASSUMPTIONS = [
    "equality 'to printed precision' of particular numbers is a property of Python's float formatting, not decided",
    "blank-line handling of the reader is C07.R1 (its pre-processing obligations are adopted as R12)",
]
ENGINES = ["pymodel", "valueflow", "calg", "ratemodel"]

RFILE = "naunet/reactions/reaction.py"
NET = "naunet/network.py"
CONF = "naunet/configuration.py"
WRITER_FIELDS = ["idxfromfile", "REACTANTS", "PRODUCTS", "alpha", "beta", "gamma", "temp_min", "temp_max", "reaction_type", "source"]
TAIL = ["alpha", "beta", "gamma", "temp_min", "temp_max", "reaction_type", "source"]      # the columns after the starred species middle
NUMERIC = {"idxfromfile": "int", "alpha": "float", "beta": "float", "gamma": "float", "temp_min": "float", "temp_max": "float"}


def check(ctx):
    rm = ratemodel(ctx.tree)
    pkg = package(ctx.tree)
    w = _writer(ctx, rm, pkg)
    r = _reader(ctx, pkg)
    if w and r:
        _r1_r2(ctx, w, r)
    _r3(ctx, rm, pkg)
    _r4(ctx, pkg)
    _r5(ctx, rm, pkg)
    _r6(ctx, pkg)
    _explicit_law_refused(ctx, rm, pkg)
    # the exported configuration carries the network's modifier tables whole (shared with C13.R7): a modifier dropped on the way into
    # naunet_config.toml makes the re-rendered project compute the unmodified law
    _content_tables_whole(ctx, pkg, rm)
    from .c13 import _r7 as modifier_tables_whole
    ctx.absorb(modifier_tables_whole, "R9", only=lambda o: o.outcome != "MISSING")
    # a record that was written must reach the parser when the file is read back: the pre-processing hooks drop / rewrite no data line
    # (shared with C07.R1; a native record whose index column is the default -1, a KROME record naming `#CO`)
    from .c07 import _r1 as line_reader
    ctx.absorb(lambda sub: line_reader(sub, package(sub.tree)), "R12",
               only=lambda o: ("preprocessing" in o.key) and o.outcome != "MISSING")


def _writer(ctx, rm, pkg):
    fn = pkg.method("Reaction", "__format__")
    ctx.saw(RFILE, "Reaction.__format__")
    vs = [v for v in rm.variants("Reaction", "__format__")
          if v.kind == "text" and any(c == ("cmp", ("Eq",), (("param", "form"), ("const", "naunet"))) and p for c, p in v.conds)]
    if len(vs) != 1:
        ctx.unrec("R1", "writer", (RFILE, fn.lineno), f"expected one 'naunet' arm in Reaction.__format__, found {len(vs)}")
        return None
    v = vs[0]
    _, _, fl = rm.flow("Reaction", "__format__")
    toks = v.text.split(",")
    fields = []
    for t in toks:
        t = t.strip()
        if t in v.holes:
            h = v.holes[t]
            fields.append(("scalar", h))
        elif t in v.seqs:
            sep, seq = v.seqs[t]
            seq = simp(seq)
            if seq[0] == "acc":
                inits = [f for f in fl.facts if f.kind == "init" and f.target == seq[1] and
                         any(c == ("cmp", ("Eq",), (("param", "form"), ("const", "naunet"))) and p for c, p in f.guards)]
                seq = simp(inits[-1].value) if inits else seq
            fields.append(("seq", sep, seq))
        else:
            fields.append(("literal", t))
    fill = pkg.functions.get(("naunet/utilities.py", "_fill_list"))
    return {"variant": v, "fields": fields, "fn": fn, "flow": fl, "fill_params": [a.arg for a in fill.args.args] if fill is not None and len(fill.args.args) == 3 else None}


def _reader(ctx, pkg):
    pkg.method("Reaction", "_parse_string")
    ctx.saw(RFILE, "Reaction._parse_string")
    # the reader with the procedures it may have been split into put back (the species builder stays the primitive it is)
    fn = pkg.expanded("Reaction", "_parse_string", keep=("_create_species",))
    # (record types of the module -- `Rec(a, b).f`, `Rec.from_line(s)` -- are read through to the values they hold)
    rm = ratemodel(pkg.tree)
    fl = Flow(fn, RFILE, consts=rm.module_consts(RFILE), func_resolver=rm.func_resolver(RFILE, {"_fill_list", "_create_species"}))
    stores = {}
    for f in fl.facts:
        if f.kind == "attrstore" and f.extra.get("obj") == SELF:
            stores[f.target] = f
    return {"fn": fn, "flow": fl, "stores": stores, "opaque": _opaque_self_calls(fn, ("_create_species",)), "dynamic": _dynamic_stores(fn)}


def _dynamic_stores(fn):
    """places where a function stores attributes by a name it computes (setattr(x, name, v), x.__dict__ / vars(x) updated): what they
    assign is not visible, so "never assigned" is not a conclusion"""
    out = []
    for c in ast.walk(fn):
        if isinstance(c, ast.Call) and isinstance(c.func, ast.Name) and c.func.id in ("setattr", "vars"):
            out.append(ast.unparse(c)[:60])
        elif isinstance(c, ast.Attribute) and c.attr == "__dict__":
            out.append(ast.unparse(c)[:60])
    return out


def _opaque_self_calls(fn, known=()):
    """names of the private methods still CALLED through self/cls in an expanded function (helpers that could not be put back):
    what they assign is not visible, so "never assigned" is not a conclusion"""
    return sorted({c.func.attr for c in ast.walk(fn) if isinstance(c, ast.Call) and isinstance(c.func, ast.Attribute) and isinstance(c.func.value, ast.Name)
                   and c.func.value.id in ("self", "cls") and c.func.attr.startswith("_") and not c.func.attr.startswith("__") and c.func.attr not in known})


def _split_src(v, total=None):
    """value derived from one field of `<line>.split(',')` -> (line IR, k, wrappers outermost first); the field may be reached through a
    destructuring, a subscript of the split list or of a slice of it (_field_index)"""
    wraps = []
    x = v
    while True:
        if x[0] == "call" and len(x[2]) == 1 and x[1][0] in ("global", "attr"):
            wraps.append(x[1][1] if x[1][0] == "global" else x[1][2])
            x = x[2][0]
            continue
        if x[0] == "meth" and x[2] in ("strip", "rstrip", "lstrip") and not x[3]:
            wraps.append(x[2])
            x = x[1]
            continue
        break
    fi = _field_index(x, total)
    if fi is not None:
        return fi[0][1], fi[1], wraps
    return None, None, wraps


def _field_range(x, total=None):
    """x: a contiguous run of the fields of `<line>.split(",")` -> (the split IR, lo, hi) in absolute field positions (hi None: open or
    counted from the end while the record length `total` is not given), or None.  The starred middle of a destructuring starts at
    its position and leaves out the targets after it; slices compose; negative bounds count from the end of the run."""
    if x[0] == "meth" and x[2] == "split" and x[3] == (("const", ","),):
        return (x, 0, total)
    if x[0] == "item" and isinstance(x[2], tuple) and x[2] and x[2][0] == "star":
        inner = _field_range(x[1], total)
        if inner is None:
            return None
        i, n = x[2][1], x[2][2]
        return (inner[0], inner[1] + i, None if inner[2] is None else inner[2] - (n - i - 1))
    if x[0] == "sub" and x[2][0] == "slice" and x[2][3] == ("const", None):
        inner = _field_range(x[1], total)
        if inner is None:
            return None

        def bound(b_, default):
            """absolute position of a slice bound inside the run, or "?" """
            if b_ == ("const", None):
                return default
            k = b_[1] if b_[0] == "const" and type(b_[1]) is int else -b_[2][1] if b_[0] == "unop" and b_[1] == "USub" and b_[2][0] == "const" and type(b_[2][1]) is int else None
            if k is None:
                return "?"
            if k >= 0:
                return inner[1] + k if inner[2] is None else min(inner[1] + k, inner[2])
            return "?" if inner[2] is None else max(inner[2] + k, inner[1])
        lo_abs, hi_abs = bound(x[2][1], inner[1]), bound(x[2][2], inner[2])
        if lo_abs == "?":
            return None
        return (inner[0], lo_abs, None if hi_abs == "?" else hi_abs)
    return None


def _field_index(x, total=None):
    """x: ONE field of the split record -> (the split IR, absolute position; negative = from the end when the length is unknown), or None"""
    if x[0] == "item" and isinstance(x[2], int):
        run, k = x[1], x[2]
    elif x[0] == "sub" and x[2][0] == "const" and type(x[2][1]) is int:
        run, k = x[1], x[2][1]
    elif x[0] == "sub" and x[2][0] == "unop" and x[2][1] == "USub" and x[2][2][0] == "const" and type(x[2][2][1]) is int:
        run, k = x[1], -x[2][2][1]
    else:
        return None
    fr = _field_range(run, total)
    if fr is None:
        return None
    if k >= 0:
        return (fr[0], fr[1] + k)
    if fr[2] is not None:
        return (fr[0], fr[2] + k)
    return (fr[0], k) if fr[1] == 0 and run[0] == "meth" else None


def _r1_r2(ctx, w, r):
    fields = w["fields"]
    W = (RFILE, w["fn"].lineno)
    R = (RFILE, r["fn"].lineno)
    # writer field identities
    got = []
    fills = {}
    for f in fields:
        if f[0] == "scalar":
            h = f[1]
            x = h[1] if h[0] == "fmt" else h
            got.append(x[2] if x[0] == "attr" and x[1] == SELF else show(x))
        elif f[0] == "seq":
            seq = f[2]
            b = match(("call", ("global", "_fill_list"), (V("l"), V("n"), V("d")), ()), seq)
            if b is None and seq[0] == "call" and seq[1] == ("global", "_fill_list") and seq[3] and w.get("fill_params"):
                # keyword arguments: bound to the helper's parameters by name
                names = w["fill_params"]
                given = dict(zip(names, seq[2]))
                given.update({k_: v_ for k_, v_ in seq[3] if k_ in names and k_ not in given})
                if len(given) == 3 and len(seq[2]) + len(seq[3]) == 3:
                    b = dict(zip("lnd", (given[p_] for p_ in names)))
            if b and b["n"][0] == "const":
                m = as_map(b["l"])
                src = None
                if m:
                    bv, body, base, ifs = m
                    # base: sorted(self.reactants) ; names: x.name
                    names = [x for x in walk(base) if isinstance(x, tuple) and len(x) == 3 and x[0] == "attr" and x[1] == SELF and x[2] in ("reactants", "products")]
                    src = names[0][2].upper() if names else None
                    fills[src] = (b["n"][1], body, bv, b["d"], f[1])
                got.append(src or show(seq)[:40])
            else:
                got.append(show(seq)[:40])
        else:
            got.append(f"literal:{f[1]}")
    # a column is understood when it is an attribute (chain) of the reaction, one of the two filled species lists or literal text
    strange = [g for g in got if not (g in ("REACTANTS", "PRODUCTS") or g.startswith("literal:") or re.fullmatch(r"(self\.)?[A-Za-z_]\w*(\.[A-Za-z_]\w*)*", g))]
    if got != WRITER_FIELDS and strange:
        ctx.unrec("R1", "writer:field-order", W, f"column(s) of the written record are not understood: {strange[:3]} (record read as {got})")
        return
    ctx.check(got == WRITER_FIELDS, "R1", "writer:field-order", W, "the record is idx, reactants, products, alpha, beta, gamma, tmin, tmax, type, source",
              expected=str(WRITER_FIELDS), found=str(got))
    if got != WRITER_FIELDS:
        return
    nre, npr = fills["REACTANTS"][0], fills["PRODUCTS"][0]
    total = 8 + nre + npr
    # reader positions
    st = r["stores"]
    line = None
    pos = {}
    for attr in ("idxfromfile", "alpha", "beta", "gamma", "temp_min", "temp_max", "reaction_type", "source"):
        f = st.get(attr)
        if f is None:
            if r.get("opaque") or r.get("dynamic"):
                ctx.unrec("R1", f"reader:{attr}", R, f"no assignment of self.{attr} is visible in the reader, but it " + (f"calls helpers that are not understood: {r['opaque'][:3]}" if r.get("opaque") else
                          f"stores attributes by computed name: {r['dynamic'][:2]}"))
            else:
                ctx.bad("R1", f"reader:{attr}", R, f"the reader never assigns self.{attr}")
            continue
        ln, k, wraps = _split_src(simp(f.value), total)
        if ln is None:
            # not one field through converters.  Which fields of the record does the value depend on?  A value computed from ANOTHER column
            # (or from several) is visibly not the inverse of the writer; a value in which no field can be seen is not understood.
            want_k = 0 if attr == "idxfromfile" else TAIL.index(attr) - len(TAIL)
            ks = {x[2] for x in walk(simp(f.value)) if isinstance(x, tuple) and len(x) == 3 and x[0] == "item" and isinstance(x[2], int)
                  and x[1][0] == "meth" and x[1][2] == "split" and x[1][3] == (("const", ","),)}
            if ks and ks != {want_k}:
                ctx.bad("R1", f"reader:{attr}", (RFILE, f.line), f"self.{attr} is not read back from the one field the writer puts {attr} into: it is computed from field(s) {sorted(ks)} of the record",
                        expected=f"field {want_k} through its converter", found=show(simp(f.value))[:100])
            else:
                ctx.unrec("R1", f"reader:{attr}", (RFILE, f.line), f"cannot trace self.{attr} to a field of the comma-split record: {show(simp(f.value))[:100]}")
            continue
        line = ln
        pos[attr] = (k, wraps, f)
    # expected positions (from the end, because of the starred middle)
    tail = TAIL
    for i, attr in enumerate(tail):
        if attr in pos:
            k = pos[attr][0]
            want = i - len(tail)
            ok = k == want or k == total + want
            ctx.check(ok, "R1", f"reader:{attr}:position", (RFILE, pos[attr][2].line),
                      f"self.{attr} is read from the field the writer puts {attr} into", expected=f"field {want}", found=f"field {k}")
    if "idxfromfile" in pos:
        ctx.check(pos["idxfromfile"][0] == 0, "R1", "reader:idxfromfile:position", (RFILE, pos["idxfromfile"][2].line), "the index is the first field", found=str(pos["idxfromfile"][0]))
    # species slices
    for attr, lo, hi in (("reactants", 0, nre), ("products", nre, nre + npr)):
        f = st.get(attr)
        ok = False
        found = ""
        stripped = False
        understood = False        # the value is a map over a slice of the starred middle of the split record
        if f is not None:
            v = simp(f.value)
            if v[0] == "acc":
                # the list was built by an explicit append loop: the comprehension it is equal to
                v = acc_as_comp(r["flow"], v[1]) or v
            m = as_map(v) if v[0] == "comp" else None
            if m:
                bv, body, base, ifs = m
                found = show(base)[:100]
                # which fields of the record, in absolute positions -- however the run is cut out (a slice of the starred middle, a slice of
                # the split list itself, a slice of a slice)
                fr = _field_range(base, total)
                if fr is not None and fr[2] is not None:
                    understood = True
                    ok = (fr[1], fr[2]) == (1 + lo, 1 + hi)
                    found = f"fields[{fr[1]}:{fr[2]}] of the record"
                stripped = any(isinstance(x, tuple) and len(x) >= 3 and x[0] == "meth" and x[2] == "strip" and x[1] == bv for x in walk(body))
        if f is not None and not understood:
            ctx.unrec("R1", f"reader:{attr}:slice", (RFILE, f.line), f"cannot see which fields self.{attr} is built from: {show(simp(f.value))[:100]}")
            continue
        ctx.check(ok, "R1", f"reader:{attr}:slice", (RFILE, f.line if f else r["fn"].lineno),
                  f"{attr} are read from the {hi - lo} fields the writer fills for them", expected=f"fields[{lo}:{hi}] after the index", found=found)
        if f is not None and not stripped and m and any(isinstance(x, tuple) and x and ((x[0] == "call" and x[1] != ("global", "str")) or
                                                         (x[0] == "meth" and x[2] not in ("_create_species", "strip", "lstrip", "rstrip"))) for x in walk(m[1])):
            ctx.unrec("R2", f"reader:{attr}:strip", (RFILE, f.line), f"the species names pass through a call that is not understood before they are parsed: {show(m[1])[:80]}")
        else:
            ctx.check(stripped, "R2", f"reader:{attr}:strip", (RFILE, f.line if f else r["fn"].lineno), f"padded species names are stripped before they are parsed")
    # R2 inverses
    KNOWN_CONV = {"int", "float", "str", "strip", "rstrip", "lstrip", "ReactionType", "BasicType"}

    def strange(wraps):
        """converters on the way from the field to the attribute that this rule does not know (a helper of the package ..)"""
        return [w_ for w_ in wraps if w_ not in KNOWN_CONV]
    for attr, conv in NUMERIC.items():
        if attr in pos:
            wraps = pos[attr][1]
            if conv not in wraps and strange(wraps):
                ctx.unrec("R2", f"reader:{attr}:{conv}()", (RFILE, pos[attr][2].line), f"the text of {attr} passes through {strange(wraps)}, which is not understood")
                continue
            ctx.check(conv in wraps, "R2", f"reader:{attr}:{conv}()", (RFILE, pos[attr][2].line), f"the text of {attr} is converted back with {conv}()", found=str(wraps))
    if "reaction_type" in pos:
        wraps = pos["reaction_type"][1]
        core = [w_ for w_ in wraps if w_ not in ("strip", "rstrip", "lstrip")]
        if core[:2] != ["ReactionType", "int"] and strange(wraps):
            ctx.unrec("R2", "reader:reaction_type:ReactionType(int())", (RFILE, pos["reaction_type"][2].line), f"the type code passes through {strange(wraps)}, which is not understood")
        else:
            ctx.check(core[:2] == ["ReactionType", "int"], "R2", "reader:reaction_type:ReactionType(int())", (RFILE, pos["reaction_type"][2].line),
                      "the type code is converted back with ReactionType(int(..))", found=str(wraps))
    if "source" in pos and "strip" not in pos["source"][1] and strange(pos["source"][1]):
        ctx.unrec("R2", "reader:source:strip", (RFILE, pos["source"][2].line), f"the source tag passes through {strange(pos['source'][1])}, which is not understood")
    elif "source" in pos:
        wraps = pos["source"][1]
        # the whole line may have been stripped before splitting
        pre = line is not None and line[0] == "meth" and line[2] in ("strip", "rstrip")
        ok = "strip" in wraps or ("rstrip" in wraps and False)
        ctx.check(ok, "R2", "reader:source:strip", (RFILE, pos["source"][2].line),
                  "the source tag is stripped" if ok else
                  "the source tag is written right-aligned in 8 columns as the LAST field and read back verbatim: it keeps its padding "
                  + ("" if pre else "and the line terminator ") + "('    kida\\n'); the next write emits the newline inside the record and the next read fails",
                  expected="self.source = source.strip()", found=show(simp(pos["source"][2].value))[:80])
    # writer format specs: width only, never a precision for strings (truncation)
    for src, (n, body, bv, dummy, sep) in fills.items():
        specs = [x[2] for x in walk(body) if isinstance(x, tuple) and len(x) == 4 and x[0] == "fmt" and isinstance(x[2], str)]
        bad = [s for s in specs if "." in s]
        ctx.check(not bad and sep == ",", "R2", f"writer:{src.lower()}:format", W, "species names are padded, never truncated" if not bad else
                  f"format spec {bad} truncates species names longer than its precision: the name read back is a different species", found=str(specs))
        # the written name must be the species' own name
        nm = [x for x in walk(body) if isinstance(x, tuple) and len(x) == 4 and x[0] == "fmt"]
        if nm and nm[0][1] in (bv, ("attr", bv, "name")):
            ctx.ok("R2", f"writer:{src.lower()}:name", W, "the written token is the species name itself")
        elif nm and nm[0][1][0] == "attr" and nm[0][1][1] == bv:
            ctx.bad("R2", f"writer:{src.lower()}:name", W, f"the written token is the species' `{nm[0][1][2]}`, not its name: the reader builds the species from this text", found=show(body)[:80])
        else:
            ctx.unrec("R2", f"writer:{src.lower()}:name", W, f"cannot see which text of the species is written: {show(body)[:80]}")
    for f in fields:
        if f[0] == "scalar" and f[1][0] == "fmt":
            x, spec = f[1][1], f[1][2]
            attr = x[2] if x[0] == "attr" else None
            if attr == "source" and spec is not None and not isinstance(spec, str):
                ctx.unrec("R2", "writer:source:format", W, "the format of the source tag is not a literal spec")
            elif attr == "source":
                ctx.check(spec is None or "." not in spec, "R2", "writer:source:format", W, "the source tag is padded, never truncated", found=str(spec))
            if attr in ("alpha", "beta", "gamma"):
                if not isinstance(spec, str):
                    ctx.unrec("R2", f"writer:{attr}:format", W, f"the format of {attr} is not a literal spec: {show(spec)[:60] if isinstance(spec, tuple) else spec!r}")
                else:
                    ctx.check(spec.endswith("e"), "R2", f"writer:{attr}:format", W, "coefficients are written in exponent notation (no loss of small magnitudes)", found=str(spec))


def _r3(ctx, rm, pkg):
    basic = set(rm.basic_types().values())
    n = 0
    for cls in ("KIDAReaction", "UMISTReaction", "LEEDSReaction", "UCLCHEMReaction", "KROMEReaction"):
        if f"{cls}.ReactionType" not in pkg.classes:
            continue
        ci = pkg.cls(cls)
        for name, val in rm.enum_members(cls).items():
            n += 1
            ctx.check(val in basic, "R3", f"{cls}.ReactionType.{name}", (ci.file, 0), f"value {val} is a naunet ReactionType value (readable by ReactionType(int(..)))",
                      found=str(val))
    ctx.floor("R3", "per-format enum members", n, 40)


def _r4(ctx, pkg):
    pkg.method("Network", "write")
    ctx.saw(NET, "Network.write")
    # (the writer with the helpers it may have been split into put back: a generator of the pieces merged into the loop that writes them)
    fn = pkg.expanded("Network", "write")
    fl = Flow(fn, NET)
    writes = [f for f in fl.facts if f.kind == "call" and f.target == "write"]
    rec = [f for f in writes if f.loops and any(isinstance(x, tuple) and len(x) == 4 and x[0] == "fmt" and x[1][0] == "elem" for x in walk(simp(f.value)))]
    ok = len(rec) == 1 and len(rec[0].loops) == 1 and simp(rec[0].loops[0].iter) == ("attr", SELF, "reaction_list") and not rec[0].guards
    RL = ("attr", SELF, "reaction_list")
    # what is walked is understood when it is the reaction list itself or a visible selection / re-ordering of it
    it0 = simp(rec[0].loops[0].iter) if len(rec) == 1 and len(rec[0].loops) == 1 else None
    seen_iter = it0 is not None and (it0 == RL or ((it0[0] in ("sub", "comp") or (it0[0] == "call" and it0[1][0] == "global" and it0[1][1] in ("sorted", "reversed", "filter", "set")))
                                                   and any(x == RL for x in walk(it0))))
    if rec and len(rec) == 1 and not ok and not (seen_iter and len(rec[0].loops) == 1):
        ctx.unrec("R4", "Network.write:one-record-per-reaction", (NET, fn.lineno), "cannot see that the loop writing the records walks self.reaction_list: "
                  + "; ".join(show(simp(lp_.iter))[:60] for lp_ in rec[0].loops))
    elif not rec or (len(rec) > 1 and all(f.guards for f in rec)):
        # no write of a formatted loop element found / one write per branch: the way records are written is not understood
        ctx.unrec("R4", "Network.write:one-record-per-reaction", (NET, fn.lineno), f"cannot find the single write of the formatted reaction inside the loop over the reactions ({len(rec)} candidates)")
    else:
        ctx.check(ok, "R4", "Network.write:one-record-per-reaction", (NET, fn.lineno), "every reaction of reaction_list is written once, in order, unconditionally",
                  found="; ".join(show(f.value)[:60] for f in rec))
    # the terminator, by VALUE: with the format known not to be "krome" (the format name is the parameter that reaches the record's format
    # spec), what the loop body writes per reaction -- all its writes in order, conditions on the format decided, whatever locals /
    # conditional expressions / helpers the text passes through -- is the formatted reaction followed by exactly one newline
    K = (NET, fn.lineno)
    if not rec:
        return
    fparams = {y for x in walk(simp(rec[0].value)) if isinstance(x, tuple) and len(x) == 4 and x[0] == "fmt" and x[1][0] == "elem" and isinstance(x[2], tuple)
               for y in walk(x[2]) if isinstance(y, tuple) and len(y) == 2 and y[0] == "param" and y[1] != "self"}
    if len(fparams) != 1:
        ctx.unrec("R4", "Network.write:terminator", K, f"cannot see which parameter names the format of the records ({sorted(p_[1] for p_ in fparams)})")
        return
    NK = {("cmp", ("Eq",), (next(iter(fparams)), ("const", "krome"))): False}
    sure, maybe = [], []
    for f in writes:
        if not f.loops or len(f.value[3]) != 1:
            continue
        residual = []
        dead = False
        for c, pol in f.guards:
            t = truthy(simp(peval(simp(c), NK, True)))
            if t is None:
                residual.append((c, pol))
            elif t != pol:
                dead = True
        if dead:
            continue
        val = simp(peval(simp(f.value[3][0]), NK))
        (maybe if residual else sure).append((f, val, residual))
    text = flatten_fstr(("fstr", tuple(p_ for _f, val, _r in sure for p_ in (val[1] if val[0] == "fstr" else (val,) if val[0] == "const" and isinstance(val[1], str) else (("fmt", val, None, -1),)))))
    parts = list(text[1]) if text[0] == "fstr" else [text]
    recpart = [p_ for p_ in parts if p_[0] == "fmt" and p_[1][0] == "elem"]
    after = parts[parts.index(recpart[0]) + 1:] if len(recpart) == 1 else None
    cond_nl = [(f, r) for f, val, r in maybe if any(isinstance(x, tuple) and len(x) == 2 and x[0] == "const" and isinstance(x[1], str) and "\n" in x[1] for x in walk(val))]
    if cond_nl:
        f, r = cond_nl[0]
        ctx.bad("R4", "Network.write:terminator", K, "the line terminator of a non-KROME record is written only under a further condition: records for which it does not hold run into the next one",
                expected="exactly one newline after every record", found=f"{show(f.value)[:40]} guards {[(show(g)[:30], p_) for g, p_ in r]}")
    elif after is None or maybe or any(p_[0] != "const" for p_ in after) or parts.index(recpart[0]) != 0:
        ctx.unrec("R4", "Network.write:terminator", K, "what the loop writes per reaction in a non-KROME format is not understood as the formatted reaction followed by literal text: "
                  + show(text)[:120] + (f" (+ {len(maybe)} conditional write(s))" if maybe else ""))
    else:
        tail = "".join(p_[1] for p_ in after)
        ctx.check(tail == "\n", "R4", "Network.write:terminator", K, "each record of a non-KROME format is terminated by exactly one newline",
                  expected=repr("\n"), found=repr(tail))


def _unify_env(regs, F):
    """symbol text of F -> symbol text of the native class for the same registry name."""
    nat = {s.name: s.text for s in regs["Reaction"]}
    env = {}
    for s in regs[F]:
        if s.name in nat and s.text != nat[s.name]:
            env[s.text] = nat[s.name]
    return env


def _r5(ctx, rm, pkg):
    regs = tables(rm)
    natv = rm.variants("Reaction")
    n = 0
    for F in ("KIDAReaction", "UMISTReaction", "LEEDSReaction", "UCLCHEMReaction"):
        dvar, table_attr, refs = REF[F]
        table = rm.code_table(F, table_attr)
        fv = rm.variants(F)
        env_f = _unify_env(regs, F)
        codes = list(table.keys()) + ([None] if F == "UCLCHEMReaction" else [])
        for code in codes:
            tval = rm.enum_members(F).get("UCLCHEM_MA") if code is None else table[code][1]
            dval = tval if dvar == "reaction_type" else code
            if tval is None:
                continue
            farms = arms_for(rm, F, fv, dvar, dval)
            narms = arms_for(rm, "Reaction", natv, "reaction_type", tval)
            key = f"{F}[{code!r}] -> native type {tval}"
            fk = {a.kind for a, _ in farms}
            nk = {a.kind for a, _ in narms}
            where = (farms[0][0].file, farms[0][0].line) if farms else (pkg.cls(F).file, 0)
            n += 1
            if fk == {"raise"}:
                ctx.ok("R5", key, where, "the format class refuses this code, so it is never exported")
                continue
            if nk == {"raise"}:
                ctx.ok("R5", key, where, "the native class refuses the exported type with an error")
                continue
            if fk == {"delegate"} and nk == {"delegate"}:
                _grain_sibling(ctx, rm, regs, F, tval, key, where)
                continue
            # arms kept only because a dispatch condition could not be evaluated for this code say nothing about the code
            open_ = sorted({show(c)[:70] for arms in (farms, narms) for _, extra in arms for c, _p in extra if not _about_law(c)})
            if open_ and (len(fk) != 1 or len(nk) != 1):
                ctx.unrec("R5", key, where, f"cannot decide which arm this code takes: condition(s) {open_} are not understood (format class {sorted(fk)}, native class {sorted(nk)})")
                continue
            if fk == {"text"} and nk == {"delegate"}:
                ctx.bad("R5", key, where, "the format class computes this type itself while the native class hands it to the grain model")
                continue
            if fk != {"text"} or nk != {"text"}:
                ctx.bad("R5", key, where, f"format class yields {sorted(fk)}, native class yields {sorted(nk)} for the same type code")
                continue
            # compare every format variant with the native variant under the same coefficient assumptions
            for v, extra in farms:
                txt, names = variant_text(v)
                if any(x is None for x in names.values()) or v.seqs:
                    ctx.unrec("R5", key, (v.file, v.line), "unrecognised hole / joined sequence in the format-class template")
                    continue
                zero = {COEFF[c]: not val for c, val in v.assume.items() if c in COEFF}
                env0 = {k: 0.0 for k, z in zero.items() if z}
                cands = []
                nopen = False           # a hole of the native template that is not understood (neither a coefficient nor the first reactant)
                for nv, _ in narms:
                    ntxt, nnames = variant_text(nv)
                    nopen = nopen or any(x is None for x in nnames.values()) or bool(nv.seqs)
                    nz = {COEFF[c]: not val for c, val in nv.assume.items() if c in COEFF}
                    if all(zero.get(k, False) == z for k, z in nz.items()):
                        cands.append(ntxt)
                if not cands:
                    cands = [variant_text(narms[0][0])[0]]
                if nopen:
                    ctx.unrec("R5", key, (v.file, v.line), f"unrecognised hole in the native template for type {tval}: {cands[0][:80]}")
                    continue
                try:
                    a = calg.canon_str(txt, {**env_f, **env0})
                    ok = any(a.equiv(calg.canon_str(c, env0)) for c in cands)
                except calg.CParseError as ex:
                    ctx.unrec("R5", key, (v.file, v.line), f"cannot parse: {ex}")
                    continue
                sub = "shielded" if "GetShieldingFactor" in txt else ""
                ctx.check(ok, "R5", key + (f":{sub}" if sub else ""), (v.file, v.line),
                          "exported and re-rendered, this reaction gets the same law" if ok else
                          f"a {F} reaction with code {code!r} is exported with type {tval}; re-rendered through the native class it silently gets a different rate law",
                          expected=txt, found=cands[0])
    ctx.floor("R5", "(format, code) pairs", n, 40)


def _grain_builder(rm, tval):
    """(name of the rate_* builder Grain.rateexpr hands reaction type `tval` to, None) -- decided by EVALUATING the grain's dispatch for
    that value, however it is spelled; (None, "refused") when every arm reachable for the value raises; (None, <what is not understood>)
    otherwise."""
    arms = arms_for(rm, "Grain", rm.variants("Grain"), "reaction_type", tval)
    # (the grain's own `if rate is NotImplemented: raise` is about what the builder returns, not about which builder is taken)
    about_result = lambda c: any(x == ("global", "NotImplemented") for x in walk(c))
    live = [(a, extra) for a, extra in arms if not any(about_result(c) and p_ for c, p_ in extra)]
    und = sorted({show(c)[:70] for _, extra in live for c, _p in extra if not _about_law(c) and not about_result(c)})
    kinds = {a.kind for a, _ in live}
    names = {a.raw[2] for a, _ in live if a.kind == "delegate" and a.raw is not None and a.raw[0] == "meth" and a.raw[1] == SELF}
    if kinds == {"delegate"} and len(names) == 1:
        return next(iter(names)), None
    if live and kinds == {"raise"} and not und:
        return None, "refused"
    return None, (f"condition(s) {und[:3]} are not understood" if und else f"the dispatch yields {sorted(kinds)} / builders {sorted(names)}")


def _grain_sibling(ctx, rm, regs, F, tval, key, where):
    """Grain-delegated type: the symbols the grain templates read from the reaction must resolve identically."""
    mname, why = _grain_builder(rm, tval)
    if mname is None and why == "refused":
        ctx.bad("R5", key, where, f"type {tval} is delegated to the grain but Grain.rateexpr does not dispatch on it")
        return
    if mname is None:
        ctx.unrec("R5", key, where, f"cannot decide which rate builder Grain.rateexpr hands type {tval} to: {why}")
        return
    fsym = {s.name: s.text for s in regs[F]}
    nsym = {s.name: s.text for s in regs["Reaction"]}
    diffs = set()
    refused = set()
    for G in GRAIN_CLASSES:
        for v in rm.variants(G, mname):
            if v.kind != "text":
                continue
            for h, ir in v.holes.items():
                nm, _ = name_hole(ir)
                if nm and nm.startswith("R_"):
                    N = nm[2:]
                    if N not in nsym:
                        refused.add(N)
                    elif N in fsym and fsym[N] != nsym[N]:
                        # a renamed symbol for the same quantity is harmless; a quantity the format class keeps
                        # distinct but the native class folds into another one is a different law
                        for M, msym in nsym.items():
                            if M != N and msym == nsym[N] and M in fsym and fsym[M] != fsym[N]:
                                diffs.add((N, fsym[N], nsym[N]))
    if diffs:
        d = sorted(diffs)[0]
        ctx.bad("R5", key, where,
                f"grain rate `{mname}` reads `{d[0]}`, which is `{d[1]}` for {F} but `{d[2]}` for the native class: the re-rendered project evaluates the "
                f"law at a different physical quantity without any error", expected=d[1], found=d[2])
    else:
        ctx.ok("R5", key, where, "grain-delegated: the symbols read from the reaction are the same" + (f" (or refused: {sorted(refused)} not registered natively)" if refused else ""))


def _possible_names(rm, pkg, F, owner, meth, name_ir, depth=0):
    """The set of literal strings an attribute-name expression can evaluate to, or None when that cannot be told: a literal; an entry of a
    class-level table of literals (`self._columns[key]`, `.get(key)`); a conditional of those; a parameter of the method that EVERY call site
    in the class's module -- direct calls and functools.partial(..) bindings -- gives a literal."""
    v = simp(subst(simp(name_ir), rm.class_consts(F)))
    if v[0] == "const" and isinstance(v[1], str):
        return {v[1]}
    if v[0] in ("phi", "ifexp") and len(v) == 4:
        a, b = _possible_names(rm, pkg, F, owner, meth, v[2], depth), _possible_names(rm, pkg, F, owner, meth, v[3], depth)
        return None if a is None or b is None else a | b
    table = v[1] if v[0] == "sub" else v[1] if v[0] == "meth" and v[2] == "get" and len(v[3]) == 1 else None
    if table is not None and table[0] == "dict" and table[1] and all(val[0] == "const" and isinstance(val[1], str) for _k, val in table[1]):
        return {val[1] for _k, val in table[1]}
    if table is not None and table[0] == "attr" and table[1] in (SELF, ("param", "cls")):
        # a class-level table of names (read directly: RateModel.class_displays gives up on every table of a class that uses setattr).  It
        # is the display it is bound to when no method assigns it and the names it holds do not include its own
        tname = table[2]
        _c, node = pkg.resolve_attr(F, tname)
        assigned = any(isinstance(a_, ast.Attribute) and a_.attr == tname and isinstance(a_.ctx, (ast.Store, ast.Del))
                       for c_ in pkg.mro(F) if c_ in pkg.classes for m_ in pkg.classes[c_].methods.values() for a_ in ast.walk(m_))
        if isinstance(node, ast.Dict) and node.values and not assigned and all(isinstance(x, ast.Constant) and isinstance(x.value, str) for x in node.values):
            names = {x.value for x in node.values}
            return names if tname not in names else None
    if v[0] == "param" and depth == 0:
        params = [a.arg for a in meth.args.args]
        if v[1] not in params:
            return None
        pos = params.index(v[1]) - 1          # (position among the arguments of a call through self / cls)
        mod = pkg.modules.get(pkg.classes[owner].file)
        found = set()
        for c in ast.walk(mod) if mod is not None else ():
            if not isinstance(c, ast.Call):
                continue
            fname = ast.unparse(c.func)
            args, shift = None, 0
            if fname in (f"self.{meth.name}", f"cls.{meth.name}"):
                args = c.args
            elif fname in ("partial", "functools.partial") and c.args and ast.unparse(c.args[0]) in (meth.name, f"self.{meth.name}", f"cls.{meth.name}", f"{owner}.{meth.name}"):
                args, shift = c.args[1:], (1 if ast.unparse(c.args[0]) in (meth.name, f"{owner}.{meth.name}") else 0)     # (the plain function still takes self)
            if args is None:
                continue
            kw = next((k.value for k in c.keywords if k.arg == v[1]), None)
            given = kw if kw is not None else (args[pos + shift] if 0 <= pos + shift < len(args) else None)
            if given is None and fname.endswith("partial"):
                continue                      # (this partial leaves the parameter open: whoever calls it is not visible)
            if not (isinstance(given, ast.Constant) and isinstance(given.value, str)):
                return None
            found.add(given.value)
        return found or None
    return None


def _explicit_law_refused(ctx, rm, pkg):
    """R11: a format class whose rate law is NOT a function of what the exchange format stores (type code, alpha, beta, gamma, window) -- its
    rateexpr reads state of its own that Reaction.__format__('naunet') does not write, like KROME's explicit rate text -- must export a type
    code the native class REFUSES: every value it gives `reaction_type` (its own assignments, a reaction_type= handed to the base constructor,
    else the base default) makes Reaction.rateexpr raise.  Otherwise the exported project re-renders without an error and computes the
    native law of that code from coefficients the class never set (all rates 0.0)."""
    natv = rm.variants("Reaction")
    n = 0
    for F in sorted(pkg.subclasses("Reaction")):
        ci = pkg.classes.get(F)
        if F in REF or "." in F or ci is None or not ci.file.startswith("naunet/reactions/"):
            continue
        dc, fn = pkg.resolve(F, "rateexpr")
        if fn is None or dc == "Reaction":
            continue
        own_methods = [m_ for c_ in pkg.mro(F) if c_ in pkg.classes and c_ != "Reaction" and "Reaction" in pkg.mro(c_) for m_ in pkg.classes[c_].methods.values()]
        own_state = {t.attr for m_ in own_methods for a_ in ast.walk(m_) if isinstance(a_, (ast.Assign, ast.AnnAssign, ast.AugAssign))
                     for t in (a_.targets if isinstance(a_, ast.Assign) else [a_.target]) if isinstance(t, ast.Attribute) and isinstance(t.value, ast.Name) and t.value.id == "self"}
        reads = {a_.attr for a_ in ast.walk(fn) if isinstance(a_, ast.Attribute) and isinstance(a_.ctx, ast.Load) and isinstance(a_.value, ast.Name) and a_.value.id == "self"}
        carried = sorted((reads & own_state) - set(WRITER_FIELDS) - {"reactants", "products"})
        if not carried:
            continue
        n += 1
        where = (ci.file, fn.lineno)
        key = f"{F}: law carried by {'/'.join(carried)}, exported type code"
        # the values the class gives reaction_type
        vals, opaque = [], []
        for c_ in pkg.mro(F):
            if c_ not in pkg.classes or c_ == "Reaction" or "Reaction" not in pkg.mro(c_):
                continue
            file_ = pkg.classes[c_].file
            for mname, m_ in pkg.classes[c_].methods.items():
                if not any(isinstance(a_, ast.Attribute) and a_.attr == "reaction_type" and isinstance(a_.ctx, ast.Store) for a_ in ast.walk(m_)) \
                        and not any(isinstance(a_, ast.keyword) and a_.arg == "reaction_type" for a_ in ast.walk(m_)) \
                        and not any(isinstance(a_, ast.Call) and isinstance(a_.func, ast.Name) and a_.func.id == "setattr" for a_ in ast.walk(m_)):
                    continue
                fl = Flow(m_, file_, consts=rm.module_consts(file_), resolver=lambda name, c_=c_: pkg.resolve(c_, name)[1] if name.startswith("_") and not name.startswith("__") else None)
                for f in fl.facts:
                    if f.kind == "attrstore" and f.target == "reaction_type" and f.extra.get("obj") == SELF:
                        vals.append((simp(f.value), (file_, f.line)))
                    elif f.kind == "call" and f.value is not None and f.value[0] == "meth" and f.value[2] == "__init__":
                        vals += [(simp(v_), (file_, f.line)) for k_, v_ in f.value[4] if k_ == "reaction_type"]
                    elif f.kind == "call" and f.value is not None and f.value[0] == "call" and f.value[1] == ("global", "setattr"):
                        # an attribute stored by computed name: which names can it be?  (a class-level table of names, a parameter every
                        # caller binds to a literal ..)  Not understood only when `reaction_type` cannot be excluded
                        sargs = f.value[2]
                        names_ = _possible_names(rm, pkg, F, c_, m_, sargs[1]) if len(sargs) == 3 and sargs[0] == SELF else None
                        if names_ is None:
                            opaque.append(f"{c_}.{mname}: {show(f.value)[:60]}")
                        elif "reaction_type" in names_:
                            vals.append((simp(sargs[2]), (file_, f.line)))
        if not vals:
            # nothing of its own: the base constructor's default
            init = pkg.method("Reaction", "__init__")
            a = init.args
            dflt = dict(zip([x.arg for x in a.args][len(a.args) - len(a.defaults):], a.defaults)).get("reaction_type")
            if dflt is not None:
                vals.append((simp(Flow(ast.parse("def _():\n    pass").body[0], RFILE).ev(dflt)), (RFILE, init.lineno)))
        if opaque or not vals:
            ctx.unrec("R11", key, where, f"cannot see which type code {F} exports: " + (opaque[0] if opaque else "no assignment of reaction_type and no default in Reaction.__init__"))
            continue
        bad, und = [], []
        for v_, w_ in vals:
            leaves = []

            def split(x):
                if x[0] in ("phi", "ifexp") and len(x) == 4:
                    split(x[2]), split(x[3])
                else:
                    leaves.append(x)
            split(v_)
            for leaf in leaves:
                tval = rm.enum_of_ir(F, leaf)
                if tval is None:
                    und.append(show(leaf)[:60])
                    continue
                narms = arms_for(rm, "Reaction", natv, "reaction_type", tval)
                nk = {a_.kind for a_, _ in narms}
                open_ = [show(c)[:60] for _, extra in narms for c, _p in extra if not _about_law(c)]
                if nk == {"raise"} or not narms:
                    continue
                if open_ and "raise" in nk:
                    und.append(f"native dispatch for type {tval}: {open_[0]}")
                else:
                    bad.append((show(leaf), tval, w_, sorted(nk)))
        if bad:
            leaf, tval, w_, nk = bad[0]
            ctx.bad("R11", key, w_, f"{F} computes its rate from {'/'.join(carried)}, which the native exchange format cannot store, but gives the reaction the type {leaf} ({tval}), which the "
                    f"native class accepts ({nk}): the exported project re-renders WITHOUT an error and evaluates the native law of type {tval} with the coefficients {F} never set",
                    expected="a type code Reaction.rateexpr refuses (ReactionType.UNKNOWN)", found=leaf)
        elif und:
            ctx.unrec("R11", key, where, f"cannot resolve the type code {F} exports: {und[0]}")
        else:
            ctx.ok("R11", key, where, f"every type code {F} exports ({', '.join(sorted({show(v_)[:40] for v_, _ in vals}))}) is refused by the native class")
    ctx.floor("R11", "format classes whose law the exchange format cannot carry", n, 1)


NET_EDITS = {"remove_reaction", "add_reaction", "add_reaction_from_file", "_add_reaction", "reindex"}


def render_reads_only(ctx, pkg, rule):
    """`naunet render` renders the network the configuration describes: between Network(...) and the rendering it neither removes nor
    adds nor renumbers reactions nor re-assigns the network's tables (rule shared by C13, C18, C20).  Re-indexing is the
    renderer's own, guarded, step (C13.R3)."""
    h = pkg.method("RenderCommand", "handle")
    ctx.saw("naunet/console/commands/render.py", "RenderCommand.handle")
    RENDER_ = "naunet/console/commands/render.py"
    nets = {t.id for n in ast.walk(h) if isinstance(n, ast.Assign) and isinstance(n.value, ast.Call) and ast.unparse(n.value.func) == "Network" for t in n.targets if isinstance(t, ast.Name)}
    if not nets:
        ctx.missing(rule, "RenderCommand.handle:Network(..)", (RENDER_, h.lineno), "the command no longer builds a Network")
        return
    hits = []
    for n in ast.walk(h):
        if isinstance(n, ast.Call) and isinstance(n.func, ast.Attribute) and isinstance(n.func.value, ast.Name) and n.func.value.id in nets and n.func.attr in NET_EDITS:
            hits.append((n.lineno, ast.unparse(n)[:80]))
        if isinstance(n, (ast.Assign, ast.AugAssign)):
            for t in (n.targets if isinstance(n, ast.Assign) else [n.target]):
                b = t
                while isinstance(b, ast.Subscript):
                    b = b.value
                if isinstance(b, ast.Attribute) and isinstance(b.value, ast.Name) and b.value.id in nets:
                    hits.append((n.lineno, ast.unparse(n)[:80]))
    for ln, txt in hits:
        ctx.bad(rule, f"RenderCommand.handle edits the network:{re.sub(r'[^A-Za-z_.]+', ' ', txt)[:50]}", (RENDER_, ln),
                f"`{txt}`: the command changes the network it has just built from naunet_config.toml before rendering it -- the sources no longer describe the configured network "
                "(reactions.naunet, Network.export and the API rendering keep the unedited one; indices that rate modifiers refer to move)",
                expected="render the network as read", found=txt)
    if not hits:
        ctx.ok(rule, "RenderCommand.handle renders the network as read", (RENDER_, h.lineno), f"no edit of {sorted(nets)} between Network(..) and the rendering")


EXPORTED_TABLES = {"binding_energy": "_bindingenergy", "photon_yield": "_photonyield", "rate_modifier": "_ratemodifier", "ode_modifier": "_odemodifier",
                   "files": "_filenames", "formats": "_formats"}


def _content_tables_whole(ctx, pkg, rm):
    """R10: the tables the configuration object holds reach naunet_config.toml WHOLE: what `content` stores under binding_energy / photon_yield /
    rate_modifier / ode_modifier / files / formats is the stored attribute itself, a copy, or a key-by-key re-spelling ({str(k): v for k, v in
    T.items()}) without a filter -- an entry dropped here (a yield / modifier of 0 by a truthiness test) silently gets the default law back on re-render.
    One-expression helper functions of the module are read as the expression they return."""
    ci = pkg.cls("BaseConfiguration")
    fn = ci.methods.get("content")
    if fn is None:
        ctx.missing("R10", "BaseConfiguration.content", (CONF, ci.node.lineno), "the configuration writer vanished")
        return
    ctx.saw(CONF, "BaseConfiguration.content")
    # the writer with the procedures it may have been split into put back (self._fill_x(content["x"]) is the run of stores it performs)
    fn = pkg.expanded("BaseConfiguration", "content")
    fl = Flow(fn, CONF, consts=rm.module_consts(CONF), resolver=lambda name: pkg.resolve("BaseConfiguration", name)[1] if name.startswith("_") and not name.startswith("__") else None)

    def through_helpers(v, depth=0):
        """f(T) with f a one-return function of this module -> its returned expression with the parameter bound"""
        if depth < 3 and v[0] == "call" and v[1][0] == "global" and (CONF, v[1][1]) in pkg.functions and not v[3]:
            callee = pkg.functions[(CONF, v[1][1])]
            params = [a.arg for a in callee.args.args]
            sub = Flow(callee, CONF, consts=rm.module_consts(CONF))
            rets = [f for f in sub.facts if f.kind == "return"]
            other = [f for f in sub.facts if f.kind not in ("return", "init")]
            if len(rets) == 1 and not rets[0].guards and not other and len(params) == len(v[2]):
                from ..valueflow import subst
                return through_helpers(simp(subst(simp(rets[0].value), {("param", p_): a for p_, a in zip(params, v[2])})), depth + 1)
        return v
    n = 0
    for f in fl.facts:
        if f.kind != "store" or f.index is None or f.index[0] != "const" or f.index[1] not in EXPORTED_TABLES:
            continue
        key, attr = f.index[1], EXPORTED_TABLES[f.index[1]]
        n += 1
        T = ("attr", SELF, attr)
        v = v0 = through_helpers(simp(f.value))
        while v[0] == "copy" or (v[0] == "call" and v[1] in (("global", "dict"), ("global", "list")) and len(v[2]) == 1 and not v[3]):
            v = v[1] if v[0] == "copy" else v[2][0]
        k = f"BaseConfiguration.content[{key!r}]"
        if v == T:
            ctx.ok("R10", k, (CONF, f.line), f"self.{attr} is written whole")
            continue
        # a table re-spelled entry by entry: {str(k): v for k, v in T.items()}, dict(zip(map(str, T), T.values())), {str(k): T[k] for k in T} ..
        dm = as_dict_map(v0)
        if dm is not None and dm[4] == T:
            K_, X_, kb, vb, _, ifs = dm
            if ifs:
                ctx.bad("R10", k, (CONF, f.line), f"entries of self.{attr} are filtered out on the way into naunet_config.toml ({'; '.join(show(c)[:50] for c in ifs)}): a value the filter "
                        "rejects (0, 0.0, '' ..) is a setting the user made, and the re-rendered project silently computes with the default instead",
                        expected=f"every entry of self.{attr}", found=show(v)[:120])
                continue
            if vb == X_ and any(x == K_ for x in walk(kb)) and not any(x == X_ for x in walk(kb)):
                ctx.ok("R10", k, (CONF, f.line), f"every entry of self.{attr} is written (keys re-spelled)")
                continue
        ctx.unrec("R10", k, (CONF, f.line), f"cannot see that self.{attr} reaches the configuration file whole: {show(v)[:120]}")
    ctx.floor("R10", "exported tables written by BaseConfiguration.content", n, 6, (CONF, fn.lineno))


def _refusal_propagates(ctx, pkg):
    """A refused type stays an ERROR of the rendering: no `try` around a rateexpr(..) call in the renderer swallows the exception and goes
    on with a substitute (every handler of such a try must end by raising).  Positive evidence only: a try statement that is there."""
    TL = "naunet/templateloader.py"
    ncalls = 0
    units = [(ci.name, mname, fn) for ci in pkg.classes.values() if ci.file == TL for mname, fn in ci.methods.items()] + \
        [("", name, fn) for (file, name), fn in pkg.functions.items() if file == TL]
    for cname, mname, fn in units:
        if True:
            calls = [c for c in ast.walk(fn) if isinstance(c, ast.Call) and isinstance(c.func, ast.Attribute) and c.func.attr == "rateexpr"]
            ncalls += len(calls)
            for t in ast.walk(fn):
                if not isinstance(t, ast.Try) or not any(c is x for st in t.body for x in ast.walk(st) for c in calls):
                    continue
                for h in t.handlers:
                    reraises = bool(h.body) and isinstance(h.body[-1], ast.Raise)
                    ctx.check(reraises, "R8", f"{cname}.{mname}:rateexpr refusal handled:{ast.unparse(h.type) if h.type else 'bare'}", (TL, h.lineno),
                              "the handler re-raises" if reraises else
                              "an exception raised by rateexpr(..) (a reaction type the class refuses) is caught and the rendering goes on with a substitute: "
                              "the exported type is neither given its law nor refused with an error", expected="no handler / re-raise", found=ast.unparse(h)[:120])
    ctx.floor("R8", "rateexpr call sites in the renderer", ncalls, 1, (TL, 0))


def _r6(ctx, pkg):
    render_reads_only(ctx, pkg, "R7")
    # "... or is refused with an error": the renderer hands rateexpr()'s refusal on -- the expressions it emits are exactly
    # reac.rateexpr(..) of every reaction, nothing catches and substitutes (shared with C06.R1)
    from .c06 import _r1 as assignment_rule
    ctx.absorb(assignment_rule, "R8")
    _refusal_propagates(ctx, pkg)
    pkg.method("Network", "export")
    ctx.saw(NET, "Network.export")
    # the exporter with the stages it may have been split into put back (`if not self._export_x(..): return` is the stage's decision
    # tree, procedures are their statements); Network.write stays the primitive the rule is about
    fn = pkg.expanded("Network", "export", keep=("write",))
    w = [c for c in ast.walk(fn) if isinstance(c, ast.Call) and ast.unparse(c.func) == "self.write"]
    # by VALUE: the arguments of that call as use-def expansion gives them -- the file is <export dir> joined with a literal name
    # (`dir / "name"`, dir.joinpath("name"), os.path.join(dir, "name"), Path(dir, "name"); through a local, a module constant or inline),
    # the format a literal (keyword or positional)
    rmod = ratemodel(ctx.tree)
    wfacts = [f for f in Flow(fn, NET, consts=rmod.module_consts(NET)).facts if f.kind == "call" and f.target == "write" and f.value[0] == "meth" and f.value[1] == SELF]
    fname = fmt = None
    shown = ""
    if len(w) == 1 and len(wfacts) == 1:
        args, kws = wfacts[0].value[3], dict(wfacts[0].value[4])
        wparams = [a_.arg for a_ in pkg.method("Network", "write").args.args][1:]
        given = dict(zip(wparams, args))
        given.update({k_: v_ for k_, v_ in kws.items() if k_ in wparams and k_ not in given})
        a0 = simp(given[wparams[0]]) if wparams and wparams[0] in given else None
        a1 = simp(given[wparams[1]]) if len(wparams) > 1 and wparams[1] in given else None
        shown = f"self.write({show(a0) if a0 else '?'}, {show(a1) if a1 else '?'})"
        if a0 is not None:
            last = None
            if a0[0] == "binop" and a0[1] == "Div":
                last = a0[3]
            elif a0[0] == "meth" and a0[2] == "joinpath" and a0[3] and not a0[4]:
                last = a0[3][-1]
            elif a0[0] == "call" and a0[1] in (("attr", ("attr", ("global", "os"), "path"), "join"), ("global", "Path"), ("global", "PurePath")) and len(a0[2]) >= 2 and not a0[3]:
                last = a0[2][-1]
            if last is not None and last[0] == "const" and isinstance(last[1], str):
                fname = last[1]
        if a1 is not None and a1[0] == "const" and isinstance(a1[1], str):
            fmt = a1[1]
    if fname is not None and fmt is not None:
        ctx.check(fname == "reactions.naunet" and fmt == "naunet", "R6", "Network.export:reaction-file", (NET, fn.lineno), "export writes path/'reactions.naunet' in the 'naunet' format",
                  expected="self.write(<dir> / 'reactions.naunet', 'naunet')", found=shown)
    else:
        ctx.unrec("R6", "Network.export:reaction-file", (NET, fn.lineno), f"cannot see which file / format Network.export writes the reactions to ({len(w)} self.write calls"
                  + (f": {shown}" if shown else "") + ")")
    # ... on EVERY path that goes on to write the configuration and the sources (must-pass-through): the exchange file and the
    # generated code describe the same network also when the project directory already exists
    if len(w) == 1:
        def terminates(stmts):
            return bool(stmts) and isinstance(stmts[-1], (ast.Return, ast.Raise))

        def dominating(stmts):
            """does the write execute on every path that falls out of `stmts`?  -> True / False / None (not in here)"""
            for st in stmts:
                if any(x is w[0] for x in ast.walk(st)):
                    if isinstance(st, ast.Expr) and st.value is w[0]:
                        return True
                    if isinstance(st, ast.If):
                        arms = [st.body, st.orelse]
                        res = [dominating(a) for a in arms]
                        for a, r in zip(arms, res):
                            if r is None and not terminates(a):
                                return False        # an arm without the write falls through
                            if r is False:
                                return False
                        return "?" if "?" in res else True
                    if isinstance(st, (ast.With, ast.Try)) and not getattr(st, "handlers", None):
                        return dominating(st.body)  # `with ..:` / try-finally: the body runs
                    return "?"                      # inside a loop / try-except / assignment: not understood
            return None
        dom = dominating(fn.body)
        if dom == "?":
            ctx.unrec("R6", "Network.export:reaction-file on every continuing path", (NET, w[0].lineno), "the write of reactions.naunet sits inside a statement whose paths are not understood")
            dom = None
        def in_order(node):
            yield node
            for ch in ast.iter_child_nodes(node):
                yield from in_order(ch)
        calls = [c for c in in_order(fn) if isinstance(c, ast.Call)]
        at = next(i for i, c in enumerate(calls) if c is w[0])
        later = [c for c in calls[at + 1:] if ast.unparse(c.func) == "NetworkConfiguration" or (isinstance(c.func, ast.Attribute) and c.func.attr in ("render", "write") and
                                                                                             ast.unparse(c.func) != "self.write")]
        if dom is True and len(later) < 2:
            ctx.unrec("R6", "Network.export:reaction-file on every continuing path", (NET, w[0].lineno), "cannot see the configuration / source rendering that follows the write of reactions.naunet "
                      f"({len(later)} of the NetworkConfiguration(..) / .render(..) / .write(..) calls found after it)")
        elif dom is not None:
            ctx.check(dom is True and len(later) >= 2, "R6", "Network.export:reaction-file on every continuing path", (NET, w[0].lineno),
                      "every path that reaches the configuration/source rendering has (re)written reactions.naunet" if dom else
                      "reactions.naunet is written only on some of the paths that go on to regenerate the configuration and sources: re-exporting into an existing project "
                      "leaves the OLD reaction file next to NEW sources", expected="self.write(reaction_file, 'naunet') unconditionally before the configuration is written",
                      found="write nested under a condition whose other arm continues")
    ci = pkg.cls("NetworkConfiguration")
    ctx.saw(CONF, "NetworkConfiguration.__init__")
    # (the constructor with the procedures it may have been split into put back)
    init = pkg.expanded("NetworkConfiguration", "__init__") if "__init__" in ci.methods else None
    if init is None:
        ctx.missing("R6", "NetworkConfiguration.__init__", (CONF, ci.node.lineno), "the exported configuration has no constructor of its own")
        return
    opaque_init = _opaque_self_calls(init)
    # by value: what is stored into the two attributes (a literal list, however it is spelled / named on the way)
    fl = Flow(init, CONF, consts=ratemodel(ctx.tree).module_consts(CONF))
    named = {}
    for f in fl.facts:
        if f.kind == "attrstore" and f.target in ("_filenames", "_formats") and f.extra.get("obj") == SELF:
            named[f.target] = simp(f.value)
    lits = {k: [e[1] for e in v[1]] if v[0] in ("list", "tuple") and all(e[0] == "const" for e in v[1]) else None for k, v in named.items()}
    if lits.get("_filenames") is None or lits.get("_formats") is None:
        ctx.unrec("R6", "NetworkConfiguration:file/format", (CONF, init.lineno), "cannot see the literal file / format lists the exported configuration records: "
                  + "; ".join(f"{k} = {show(v)[:60]}" for k, v in named.items()))
    else:
        ctx.check(lits["_filenames"] == ["reactions.naunet"] and lits["_formats"] == ["naunet"], "R6", "NetworkConfiguration:file/format", (CONF, init.lineno),
                  "the exported configuration names exactly the file and format Network.export wrote", expected="['reactions.naunet'] / ['naunet']",
                  found=f"{lits['_filenames']} / {lits['_formats']}")
    rc = pkg.cls("Reaction")
    fm = rc.attrs.get("format")
    try:
        fmv = ast.literal_eval(fm) if fm is not None else None
    except Exception:
        fmv = None
    if fmv is None:
        ctx.unrec("R6", "Reaction.format", (RFILE, rc.node.lineno), "Reaction.format is not a literal")
    else:
        ctx.check(fmv == "naunet", "R6", "Reaction.format", (RFILE, rc.node.lineno), "'naunet' maps (via supported_reaction_class) to the class whose __format__ wrote the file", found=repr(fmv))
    # binding energies / yields of every surface species travel with the export
    stv = {f.target: f for f in fl.facts if f.kind == "attrstore" and f.target in ("_bindingenergy", "_photonyield")}
    for nm, attr, tgt in (("binding", "eb", "_bindingenergy"), ("yields", "photon_yield", "_photonyield")):
        vals = [(stv[tgt].value, None, None, stv[tgt].line)] if tgt in stv else []
        ok = False
        found = ""
        if vals:
            v = simp(vals[-1][0])
            if v[0] == "copy":
                v = v[1]
            if v[0] == "acc":
                # the table was filled by a loop of element stores: the dict comprehension it is equal to
                v = acc_as_comp(fl, v[1]) or v
            found = show(v)[:120]
            # a dict comprehension over the species, however the species list reaches it (directly, through a local holding the
            # filtered list, through a generator): composed into ONE map  {key(s): value(s) for s in <base> if <filters>}
            m = as_map(("comp", "list", v[2], v[3])) if v[0] == "comp" and v[1] == "dict" else None
            shape = m is not None and m[2] == ("attr", ("param", "network"), "species")
            if shape:
                bv, body, base, ifs = m
                ok = tuple(ifs) == (("attr", bv, "is_surface"),) and body == ("tuple", (("attr", bv, "name"), ("attr", bv, attr)))
                # positive evidence = a filter / entry made of plain attribute tests of the species; a call in there is not understood
                plain = not any(isinstance(x, tuple) and x and x[0] in ("call", "meth", "sub", "unknown") for c_ in tuple(ifs) + (body,) for x in walk(c_))
                if not ok and not plain:
                    ctx.unrec("R6", f"NetworkConfiguration:{nm}", (CONF, vals[-1][3]), f"the exported {nm} table is built with calls that are not understood: {show(v)[:120]}")
                    continue
                found = "{" + f"{show(body[1][0])}: {show(body[1][1])}" + "} " + f"for {show(bv)} in {show(base)}" + "".join(f" if {show(c)}" for c in ifs) if body[0] == "tuple" and len(body[1]) == 2 else found
            if not shape:
                # not a table built per species (a helper's result, a merged dict ..): nothing visible is wrong
                ctx.unrec("R6", f"NetworkConfiguration:{nm}", (CONF, vals[-1][3]), f"the exported {nm} table is not understood as a table over the species: {found}")
                continue
        ctx.check(ok, "R6", f"NetworkConfiguration:{nm}", (CONF, vals[-1][3] if vals else init.lineno),
                  f"the exported table holds {attr} of every surface species of the network (values set through the API included)",
                  expected=f"{{s.name: s.{attr} for s in network.species if s.is_surface}}", found=found)
    for tgt, what in (("_bindingenergy", "binding energies"), ("_photonyield", "yields")):
        if tgt not in stv and (opaque_init or _dynamic_stores(init)):
            ctx.unrec("R6", f"NetworkConfiguration:{tgt}", (CONF, init.lineno), f"no assignment of self.{tgt} is visible, but the constructor calls helpers / stores by computed name: {(opaque_init or _dynamic_stores(init))[:3]}")
        else:
            ctx.check(tgt in stv, "R6", f"NetworkConfiguration:{tgt}", (CONF, init.lineno), f"the exported {what} are that table")


MUTANTS = [
    {"name": "renderer-swallows-refusal", "file": "naunet/templateloader.py", "old": "            rateexprs = [reac.rateexpr() for reac in reactions]", "new": "            rateexprs = []\n            for reac in reactions:\n                try:\n                    rateexprs.append(reac.rateexpr())\n                except RuntimeError:\n                    rateexprs.append('0.0')", "rules": ["R8"]},
    {"name": "render-drops-duplicates", "file": "naunet/console/commands/render.py", "old": '        patchname = self.option("patch")\n', "new": '        if dupidx:\n            net.remove_reaction(dupidx)\n        patchname = self.option("patch")\n', "rules": ["R7"]},
    {"name": "export-writes-only-new-file", "file": NET, "old": '        if os.path.exists(reaction_file) and not overwrite:\n            logger.warning("Reaction file exists! Stop exporting!")\n            return\n\n        self.write(reaction_file, "naunet")\n',
     "new": '        if not os.path.exists(reaction_file):\n            self.write(reaction_file, "naunet")\n\n        elif not overwrite:\n            logger.warning("Reaction file exists! Stop exporting!")\n            return\n', "rules": ["R6"]},
    {"name": "writer-beta-gamma-swapped", "file": RFILE, "old": '                    f"{self.beta:10.3e}",\n                    f"{self.gamma:10.3e}",\n                    f"{self.temp_min:9.2f}",', "new": '                    f"{self.gamma:10.3e}",\n                    f"{self.beta:10.3e}",\n                    f"{self.temp_min:9.2f}",', "rules": ["R1"]},
    {"name": "fill-count", "file": RFILE, "old": 'rnames = _fill_list([f"{x:>12}" for x in rnames], 3, dummy)', "new": 'rnames = _fill_list([f"{x:>12}" for x in rnames], 4, dummy)', "rules": ["R1"]},
    {"name": "type-name-written", "file": RFILE, "old": 'f"{self.reaction_type:>4}",', "new": 'f"{self.reaction_type.name:>4}",', "rules": ["R1"]},
    {"name": "reader-tmin-into-tmax", "file": RFILE, "old": "        self.temp_max = float(ut)\n        self.idxfromfile = int(idx)", "new": "        self.temp_max = float(lt)\n        self.idxfromfile = int(idx)", "rules": ["R1"]},
    {"name": "species-truncated", "file": RFILE, "old": 'rnames = _fill_list([f"{x:>12}" for x in rnames], 3, dummy)', "new": 'rnames = _fill_list([f"{x:>12.12}" for x in rnames], 3, dummy)', "rules": ["R2"]},
    {"name": "reader-no-strip-species", "file": RFILE, "old": "            self._create_species(r.strip())\n            for r in rps[0:3]\n            if self._create_species(r.strip())", "new": "            self._create_species(r)\n            for r in rps[0:3]\n            if self._create_species(r)", "rules": ["R2"]},
    {"name": "write-skips-terminator", "file": NET, "old": "                else:\n                    outf.write(f\"\\n\")", "new": "                elif reac.idxfromfile >= 0:\n                    outf.write(f\"\\n\")", "rules": ["R4"]},
    {"name": "export-other-format", "file": NET, "old": 'self.write(reaction_file, "naunet")', "new": 'self.write(reaction_file, "kida")', "rules": ["R6"]},
    {"name": "config-binding-user-only", "file": CONF, "old": "binding = {s.name: s.eb for s in network.species if s.is_surface}", "new": "binding = {s.name: s.eb for s in network.species if s.is_surface and s._binding_energy}", "rules": ["R6"]},
    {"name": "native-cr-law-changed", "file": RFILE, "old": 'rate = f"{a} * zeta"', "new": 'rate = f"{a} * zeta / 1.3e-17"', "rules": ["R5"]},
    {"name": "enum-off-table", "file": "naunet/reactions/umistreaction.py", "old": "UMIST_PH = BasicType.GAS_PHOTON  # Photoprocess", "new": "UMIST_PH = 105  # Photoprocess", "rules": ["R3"]},
]
MUTANTS.append({"name": "source-read-verbatim", "file": RFILE, "old": "        self.source = source.strip()\n", "new": "        self.source = source\n", "rules": ["R2"]})
BENIGN = [
    {"name": "export-write-in-else-of-stop", "file": NET, "old": '        if os.path.exists(reaction_file) and not overwrite:\n            logger.warning("Reaction file exists! Stop exporting!")\n            return\n\n        self.write(reaction_file, "naunet")\n',
     "new": '        if os.path.exists(reaction_file) and not overwrite:\n            logger.warning("Reaction file exists! Stop exporting!")\n            return\n        else:\n            self.write(reaction_file, "naunet")\n'},
    {"name": "reader-line-rstripped", "file": RFILE, "old": 'idx, *rps, a, b, c, lt, ut, rtype, source = react_string.split(",")', "new": 'idx, *rps, a, b, c, lt, ut, rtype, source = react_string.rstrip("\\n").split(",")'},
]

# ---- spellings accepted since the round-4 benign sets (each also as a seeded defect written in the new spelling) ----
_RD_OLD = ('        self.reactants = [\n            self._create_species(r.strip())\n            for r in rps[0:3]\n            if self._create_species(r.strip())\n        ]\n'
           '        self.products = [\n            self._create_species(p.strip())\n            for p in rps[3:8]\n            if self._create_species(p.strip())\n        ]\n')


def _rd_loop(strip, hi):
    return ('        def named(cols):\n            out = []\n            for col in cols:\n                nm = col' + strip + '\n                if self._create_species(nm):\n'
            '                    out.append(self._create_species(nm))\n            return out\n\n        self.reactants = named(rps[0:3])\n        self.products = named(rps[3:' + hi + '])\n')


_CF_OLD = ('        binding = {s.name: s.eb for s in network.species if s.is_surface}\n        yields = {s.name: s.photon_yield for s in network.species if s.is_surface}\n')


def _cf_loop(extra):
    return ('        binding = {}\n        yields = {}\n        for sp in network.species:\n            if not sp.is_surface' + extra + ':\n                continue\n'
            '            binding[sp.name] = sp.eb\n            yields[sp.name] = sp.photon_yield\n')


_WR_OLD = ('            verbose = ",".join(\n                [\n                    f"{self.idxfromfile:<5}",\n                    *rnames,\n                    *pnames,\n'
           '                    f"{self.alpha:10.3e}",\n                    f"{self.beta:10.3e}",\n                    f"{self.gamma:10.3e}",\n                    f"{self.temp_min:9.2f}",\n'
           '                    f"{self.temp_max:9.2f}",\n                    f"{self.reaction_type:>4}",\n                    f"{self.source:>8}",\n                ]\n            )\n\n        elif form == "kida":')
_WR_NEW = ('            tail = [format(getattr(self, nm), spec) for nm, spec in _TAIL]\n            verbose = format(self.idxfromfile, "<5") + "," + ",".join(rnames + pnames + tail)\n\n        elif form == "kida":')
_WR_CLS = 'class Reaction(Component):\n    """Class of chemical reactions"""\n'


def _wr_table(second, third):
    return ('_TAIL = (("alpha", "10.3e"), ("' + second + '", "10.3e"), ("' + third + '", "10.3e"), ("temp_min", "9.2f"), ("temp_max", "9.2f"),\n'
            '         ("reaction_type", ">4"), ("source", ">8"))\n\n\n') + _WR_CLS


BENIGN += [
    {"name": "reader-species-by-local-loop-helper", "file": RFILE, "old": _RD_OLD, "new": _rd_loop(".strip()", "8")},
    {"name": "config-tables-by-one-loop", "file": CONF, "old": _CF_OLD, "new": _cf_loop("")},
    {"name": "writer-trailing-columns-table-driven", "edits": [{"file": RFILE, "old": _WR_OLD, "new": _WR_NEW}, {"file": RFILE, "old": _WR_CLS, "new": _wr_table("beta", "gamma")}]},
]
MUTANTS += [
    {"name": "reader-loop-helper-no-strip", "file": RFILE, "old": _RD_OLD, "new": _rd_loop("", "8"), "rules": ["R2"]},
    {"name": "reader-loop-helper-short-slice", "file": RFILE, "old": _RD_OLD, "new": _rd_loop(".strip()", "7"), "rules": ["R1"]},
    {"name": "config-loop-user-values-only", "file": CONF, "old": _CF_OLD, "new": _cf_loop(" or not sp._binding_energy"), "rules": ["R6"]},
    {"name": "writer-table-beta-gamma-swapped", "edits": [{"file": RFILE, "old": _WR_OLD, "new": _WR_NEW}, {"file": RFILE, "old": _WR_CLS, "new": _wr_table("gamma", "beta")}], "rules": ["R1"]},
]
MUTANTS.append({"name": "reader-bound-from-two-fields", "file": RFILE, "old": "        self.temp_min = float(lt)\n        self.temp_max = float(ut)\n        self.idxfromfile = int(idx)",
                "new": "        self.temp_min = min(float(lt), float(ut))\n        self.temp_max = float(ut)\n        self.idxfromfile = int(idx)", "rules": ["R1"]})
MUTANTS.append({"name": "content-drops-falsy-modifiers", "file": CONF, "old": "            str(key): value for key, value in self._ratemodifier.items()\n",
                "new": "            str(key): value for key, value in self._ratemodifier.items() if value\n", "rules": ["R10"]})
BENIGN.append({"name": "content-tables-copied", "file": CONF, "old": '        chem_species["photon_yield"] = self._photonyield\n',
               "new": '        chem_species["photon_yield"] = dict(self._photonyield)\n'})

# ---- spellings accepted since the round-5 benign sets (each also as a seeded defect written in the new spelling) ----
_WR_TAIL_OLD = ('                    f"{self.alpha:10.3e}",\n                    f"{self.beta:10.3e}",\n                    f"{self.gamma:10.3e}",\n                    f"{self.temp_min:9.2f}",\n'
                '                    f"{self.temp_max:9.2f}",\n                    f"{self.reaction_type:>4}",\n                    f"{self.source:>8}",\n')
_CLS_FMT = '    format = "naunet"\n'


def _wr_layout(second, third):
    """the trailing columns formatted by a helper method from a class-level (attribute, spec) layout"""
    return [{"file": RFILE, "old": _WR_TAIL_OLD, "new": '                    *self._columns(self._TAIL_LAYOUT),\n'},
            {"file": RFILE, "old": _CLS_FMT, "new": _CLS_FMT + '\n    _TAIL_LAYOUT = (("alpha", "10.3e"), ("' + second + '", "10.3e"), ("' + third + '", "10.3e"), ("temp_min", "9.2f"), ("temp_max", "9.2f"),\n'
             '                    ("reaction_type", ">4"), ("source", ">8"))\n\n    def _columns(self, layout):\n        return [format(getattr(self, attr), spec) for attr, spec in layout]\n'}]


_RD_FLOATS_OLD = ('        self.alpha = float(a)\n        self.beta = float(b)\n        self.gamma = float(c)\n        self.temp_min = float(lt)\n        self.temp_max = float(ut)\n')


def _rd_setattr(names):
    return ('        columns = zip(' + names + ', (a, b, c, lt, ut))\n        for attrname, text in columns:\n            setattr(self, attrname, float(text))\n')


def _rd_sliced(strip, hi):
    """all species columns cleaned first, then cut into reactants / products"""
    return ('        names = [name' + strip + ' for name in rps]\n        rcols, pcols = names[0:3], names[3:' + hi + ']\n'
            '        self.reactants = [self._create_species(r) for r in rcols if self._create_species(r)]\n'
            '        self.products = [self._create_species(p) for p in pcols if self._create_species(p)]\n')


_NW_OLD = ('                if format == "krome":\n                    self._rateconverter.read(\n                        reac.rateexpr(grain_dict.get(reac.grain_group))\n                    )\n'
           '                    outf.write(f",{self._rateconverter:fortran}\\n")\n\n                else:\n                    outf.write(f"\\n")\n')
_NW_DEF = '    def write(self, filename: str | Path, format: str = "") -> None:\n'


def _nw_ending(nl):
    return [{"file": NET, "old": _NW_OLD, "new": '                ending = self._rate_column(reac, grain_dict) if format == "krome" else ""\n                outf.write(ending' + nl + ')\n'},
            {"file": NET, "old": _NW_DEF, "new": '    def _rate_column(self, reac, grain_dict):\n        self._rateconverter.read(reac.rateexpr(grain_dict.get(reac.grain_group)))\n'
             '        return f",{self._rateconverter:fortran}"\n\n' + _NW_DEF}]


_EX_OLD = ('        reaction_file = path / "reactions.naunet"\n        if os.path.exists(reaction_file) and not overwrite:\n            logger.warning("Reaction file exists! Stop exporting!")\n'
           '            return\n\n        self.write(reaction_file, "naunet")\n')
_EX_DEF = '    def export(\n        self,\n        name: str,\n'


def _ex_stage(body):
    return [{"file": NET, "old": _EX_OLD, "new": '        if not self._export_reactions(path, overwrite):\n            return\n'},
            {"file": NET, "old": _EX_DEF, "new": '    def _export_reactions(self, path, overwrite) -> bool:\n        reaction_file = path / "reactions.naunet"\n' + body + '\n' + _EX_DEF}]


_EX_GOOD = ('        if os.path.exists(reaction_file) and not overwrite:\n            logger.warning("Reaction file exists! Stop exporting!")\n            return False\n\n'
            '        self.write(reaction_file, "naunet")\n        return True\n')
_EX_BAD = ('        if os.path.exists(reaction_file):\n            if not overwrite:\n                logger.warning("Reaction file exists! Stop exporting!")\n                return False\n            return True\n\n'
           '        self.write(reaction_file, "naunet")\n        return True\n')
_CT_SPECIES_OLD = ('        chem_species = chemistry["species"]\n        chem_species["allowed"] = self._allowedspecies\n        chem_species["required"] = self._extraspecies\n'
                   '        chem_species["binding_energy"] = self._bindingenergy\n        chem_species["photon_yield"] = self._photonyield\n')
_CT_SPECIES_UPD = ('        chemistry["species"].update(\n            {\n                "allowed": self._allowedspecies,\n                "required": self._extraspecies,\n'
                   '                "binding_energy": self._bindingenergy,\n                "photon_yield": self._photonyield,\n            }\n        )\n')
_CT_DEF = '    @property\n    def content(self) -> str:\n'
_CT_PROC = ('    def _fill_species(self, table) -> None:\n        table["allowed"] = self._allowedspecies\n        table["required"] = self._extraspecies\n'
            '        table["binding_energy"] = self._bindingenergy\n        table["photon_yield"] = self._photonyield\n\n')
_CT_RM_OLD = '        chemistry["rate_modifier"] = {\n            str(key): value for key, value in self._ratemodifier.items()\n        }\n'


def _cf_local(extra):
    return ('        surface = [s for s in network.species if s.is_surface' + extra + ']\n        binding = {s.name: s.eb for s in surface}\n        yields = {s.name: s.photon_yield for s in surface}\n')


BENIGN += [
    {"name": "writer-tail-by-class-layout-helper", "edits": _wr_layout("beta", "gamma")},
    {"name": "reader-floats-by-zip-setattr", "file": RFILE, "old": _RD_FLOATS_OLD, "new": _rd_setattr('("alpha", "beta", "gamma", "temp_min", "temp_max")')},
    {"name": "reader-names-cleaned-then-sliced", "file": RFILE, "old": _RD_OLD, "new": _rd_sliced(".strip()", "8")},
    {"name": "write-ending-by-conditional-expression", "edits": _nw_ending(' + "\\n"')},
    {"name": "export-reaction-stage-helper", "edits": _ex_stage(_EX_GOOD)},
    {"name": "content-species-by-update-display", "file": CONF, "old": _CT_SPECIES_OLD, "new": _CT_SPECIES_UPD},
    {"name": "content-species-by-procedure", "edits": [{"file": CONF, "old": _CT_SPECIES_OLD, "new": '        self._fill_species(chemistry["species"])\n'}, {"file": CONF, "old": _CT_DEF, "new": _CT_PROC + _CT_DEF}]},
    {"name": "content-ratemodifier-zip-map", "file": CONF, "old": _CT_RM_OLD, "new": '        chemistry["rate_modifier"] = dict(zip(map(str, self._ratemodifier.keys()), self._ratemodifier.values()))\n'},
    {"name": "config-surface-list-in-local", "file": CONF, "old": _CF_OLD, "new": _cf_local("")},
]
MUTANTS += [
    {"name": "writer-class-layout-beta-gamma-swapped", "edits": _wr_layout("gamma", "beta"), "rules": ["R1"]},
    {"name": "reader-zip-setattr-names-swapped", "file": RFILE, "old": _RD_FLOATS_OLD, "new": _rd_setattr('("alpha", "gamma", "beta", "temp_min", "temp_max")'), "rules": ["R1"]},
    {"name": "reader-sliced-short", "file": RFILE, "old": _RD_OLD, "new": _rd_sliced(".strip()", "7"), "rules": ["R1"]},
    {"name": "reader-sliced-no-strip", "file": RFILE, "old": _RD_OLD, "new": _rd_sliced("", "8"), "rules": ["R2"]},
    {"name": "write-ending-without-newline", "edits": _nw_ending(""), "rules": ["R4"]},
    {"name": "export-stage-keeps-old-file", "edits": _ex_stage(_EX_BAD), "rules": ["R6"]},
    {"name": "content-ratemodifier-pairs-filtered", "file": CONF, "old": _CT_RM_OLD,
     "new": '        chemistry["rate_modifier"] = dict((str(key), value) for key, value in self._ratemodifier.items() if value)\n', "rules": ["R10"]},
    {"name": "config-surface-local-user-values-only", "file": CONF, "old": _CF_OLD, "new": _cf_local(" and s._binding_energy"), "rules": ["R6"]},
]

_RD_SPLIT_OLD = '        idx, *rps, a, b, c, lt, ut, rtype, source = react_string.split(",")\n'


def _rd_indexed(names):
    """the record cut by index arithmetic instead of a starred destructuring"""
    return ('        fields = react_string.split(",")\n        idx, rps, tail = fields[0], fields[1:-7], fields[-7:]\n        ' + names + ' = tail\n')


BENIGN.append({"name": "reader-fields-by-index-arithmetic", "file": RFILE, "old": _RD_SPLIT_OLD, "new": _rd_indexed("a, b, c, lt, ut, rtype, source")})
MUTANTS.append({"name": "reader-index-arithmetic-beta-gamma-swapped", "file": RFILE, "old": _RD_SPLIT_OLD, "new": _rd_indexed("a, c, b, lt, ut, rtype, source"), "rules": ["R1"]})

_FILL_OLD = 'rnames = _fill_list([f"{x:>12}" for x in rnames], 3, dummy)'
BENIGN.append({"name": "writer-fill-count-by-keyword", "file": RFILE, "old": _FILL_OLD, "new": 'rnames = _fill_list([f"{x:>12}" for x in rnames], dummy=dummy, nitem=3)'})
MUTANTS.append({"name": "writer-fill-count-by-keyword-wrong", "file": RFILE, "old": _FILL_OLD, "new": 'rnames = _fill_list([f"{x:>12}" for x in rnames], dummy=dummy, nitem=4)', "rules": ["R1"]})
BENIGN.append({"name": "writer-columns-by-percent-format", "file": RFILE, "old": '                    f"{self.alpha:10.3e}",\n                    f"{self.beta:10.3e}",\n',
               "new": '                    "%10.3e" % self.alpha,\n                    "%10.3e" % (self.beta,),\n'})
MUTANTS.append({"name": "writer-percent-format-fixed-point", "file": RFILE, "old": '                    f"{self.alpha:10.3e}",\n', "new": '                    "%10.3f" % self.alpha,\n', "rules": ["R2"]})

BENIGN.append({"name": "export-file-joined-inline", "file": NET, "old": '        self.write(reaction_file, "naunet")\n', "new": '        self.write(format="naunet", filename=path.joinpath("reactions.naunet"))\n'})
MUTANTS.append({"name": "export-inline-other-name", "file": NET, "old": '        self.write(reaction_file, "naunet")\n', "new": '        self.write(format="naunet", filename=path.joinpath("reaction.naunet"))\n', "rules": ["R6"]})

_RD_DEF = '    def _parse_string(self, react_string: str) -> None:\n'


def _rd_procedure(second, third):
    """the numeric columns converted by a helper procedure of the class"""
    return [{"file": RFILE, "old": _RD_FLOATS_OLD, "new": '        self._read_numbers(a, b, c, lt, ut)\n'},
            {"file": RFILE, "old": _RD_DEF, "new": '    def _read_numbers(self, alpha, beta, gamma, tmin, tmax) -> None:\n        self.alpha = float(alpha)\n        self.beta = float(' + second + ')\n'
             '        self.gamma = float(' + third + ')\n        self.temp_min = float(tmin)\n        self.temp_max = float(tmax)\n\n' + _RD_DEF}]


BENIGN.append({"name": "reader-numbers-by-procedure", "edits": _rd_procedure("beta", "gamma")})
MUTANTS.append({"name": "reader-procedure-beta-gamma-swapped", "edits": _rd_procedure("gamma", "beta"), "rules": ["R1"]})


def _rd_zip_fields(names):
    """the numeric columns paired with their attribute names by zipping a literal with a slice of the record"""
    return {"file": RFILE, "old": _RD_FLOATS_OLD, "new": '        fields = react_string.split(",")\n        for attrname, text in zip(' + names + ', fields[-7:-2]):\n            setattr(self, attrname, float(text))\n'}


def _rd_record_dict(key):
    """the tail of the record kept as a dict keyed by column name"""
    return {"file": RFILE, "old": '        self.beta = float(b)\n', "new": '        cols = dict(zip(("alpha", "beta", "gamma", "tmin", "tmax", "type", "source"), react_string.split(",")[-7:]))\n        self.beta = float(cols["' + key + '"])\n'}


BENIGN += [dict(_rd_zip_fields('("alpha", "beta", "gamma", "temp_min", "temp_max")'), name="reader-floats-zipped-with-record-slice"), dict(_rd_record_dict("beta"), name="reader-column-from-keyed-record")]
MUTANTS += [dict(_rd_zip_fields('("alpha", "beta", "gamma", "temp_max", "temp_min")'), name="reader-zipped-slice-bounds-swapped", rules=["R1"]),
            dict(_rd_record_dict("gamma"), name="reader-keyed-record-wrong-column", rules=["R1"])]

# ---- rules added for the round-6 seeds ----
KR = "naunet/reactions/kromereaction.py"
_KR_IMPORT = "from .reaction import Reaction\nfrom .converter import ExpressionConverter\n"
_KR_SUPER = "        super().__init__(react_string=react_string)\n\n        self.unregister(\"dust_temperature\")\n"


def _krome_type(member):
    return [{"file": KR, "old": _KR_IMPORT, "new": "from ..reactiontype import ReactionType\n" + _KR_IMPORT},
            {"file": KR, "old": _KR_SUPER, "new": "        super().__init__(react_string=react_string)\n        self.reaction_type = ReactionType." + member + "\n\n        self.unregister(\"dust_temperature\")\n"}]


MUTANTS.append({"name": "krome-reactions-tagged-twobody", "edits": _krome_type("GAS_TWOBODY"), "rules": ["R11"]})
MUTANTS.append({"name": "krome-type-handed-to-base-constructor", "edits": [{"file": KR, "old": _KR_IMPORT, "new": "from ..reactiontype import ReactionType\n" + _KR_IMPORT},
                {"file": KR, "old": "        super().__init__(react_string=react_string)\n\n        self.unregister(\"dust_temperature\")\n",
                 "new": "        super().__init__(react_string=react_string, reaction_type=ReactionType.GAS_COSMICRAY)\n\n        self.unregister(\"dust_temperature\")\n"}], "rules": ["R11"]})
BENIGN.append({"name": "krome-type-explicitly-unknown", "edits": _krome_type("UNKNOWN")})
