"""C20 -- project configuration round trip: key and name agreement between writer, schema, readers and producers."""
from __future__ import annotations

import ast
import copy
import re

from .. import jmodel as J
from ..pymodel import package
from ..core import norm_text

EXPLANATION = (
    "R1 every TOML key path read by RenderCommand.handle / ExtendCommand.handle exists in NAUNET_CONFIG_DEFAULT and is assigned by "
    "BaseConfiguration.content, and every assigned path is read or is a listed informational path; R2 every keyword InitCommand passes to "
    "BaseConfiguration is a parameter of it and vice versa, and every key the writer looks up in species_kwargs is a key init.py stores and a "
    "parameter of Species.__init__; R3 every examplemod.<attr> ExampleCommand reads is defined by all six example modules and every --option it "
    "composes is declared by InitCommand; R4 separators agree: the characters ExampleCommand joins an option's value with are the characters "
    "InitCommand splits it at, and the reader's int(key) has its writer-side str(key) (shared with C13.R2); R5 every solver key of init.py's "
    "solver/method table is a template directory, every cvode method it names has a `general.method == ..` branch, every example case suffix is in "
    "the table; R6 no lossy split of free text: a rate/ODE-modifier expression cut with split(sep) and then read by constant index keeps its tail "
    "(maxsplit, re-join, or an unpacking that raises); R7 each ODE-modifier entry gets fresh lists (no shared template object); R8 the render "
    "command installs Species' global tables (replacement, elements, pseudo-elements) before it constructs any Species; R9 every user setting "
    "BaseConfiguration.content writes is the stored field whole: the field itself, or a comprehension/helper that copies every entry (keys as "
    "strings) -- no filter drops entries on the way into the file; R12 every configured value the render command reads is handed to the API "
    "parameter it stands for (Network(..) keyword, Species class table, chemistrydata.update_*, TemplateLoader(..)); R13 the input stage "
    "BaseConfiguration.__init__ stores every setting it is handed whole (the argument, a copy, an empty default) -- no filter between the "
    "command and the writer; R7 also: the dependency list of an ODE-modifier term keeps repeated names (no set / dict.fromkeys in the option "
    "parser or its helpers).  Verdicts: a mismatch counts as a VIOLATION only when both sides were read completely; a table handed whole to "
    "a call that is not followed, a helper of another module, arguments passed on with * / ** answer UNRECOGNISED.")
ASSUMPTIONS = [
    "the general case of option values containing separator characters, quoting through cleo's string input, and equality of the rendered sources with the API path are not decided",
]
ENGINES = ["pymodel", "jmodel"]

CONF = "naunet/configuration.py"
INIT = "naunet/console/commands/init.py"
RENDER = "naunet/console/commands/render.py"
EXAMPLE = "naunet/console/commands/example.py"
EXTEND = "naunet/console/commands/extend.py"
INFORMATIONAL = {
    "general.creation_time": "time stamp, for the reader's eyes only",
    "general.description": "free text, not used by rendering",
    "chemistry.symbol.grain": None, "chemistry.symbol.surface": None, "chemistry.symbol.bulk": None,
}



# ------------------------------------------------------------------ locals by role (no rule below depends on what a local is called)

def _untuple(fn):
    """`a, b = x, y` written as the assignments it abbreviates (`a = x; b = y`), in place, wherever that is the same program: no later
    value of the display reads what an earlier target of it binds.  The rules below read one setting per statement."""
    def split(st):
        if not (isinstance(st, ast.Assign) and len(st.targets) == 1 and isinstance(st.targets[0], (ast.Tuple, ast.List)) and isinstance(st.value, (ast.Tuple, ast.List))):
            return None
        ts, vs = st.targets[0].elts, st.value.elts
        if len(ts) != len(vs) or len(ts) < 2 or any(isinstance(e, ast.Starred) for e in list(ts) + list(vs)):
            return None
        for i, t in enumerate(ts):
            if isinstance(t, ast.Name):
                if any(isinstance(x, ast.Name) and x.id == t.id for v in vs[i + 1:] for x in ast.walk(v)):
                    return None
            elif isinstance(t, (ast.Attribute, ast.Subscript)):
                txt = ast.unparse(t)
                if any(txt in ast.unparse(v) for v in vs[i + 1:]):
                    return None
            else:
                return None
        return [ast.copy_location(ast.Assign(targets=[t], value=v), st) for t, v in zip(ts, vs)]

    def rec(node):
        for fld in ("body", "orelse", "finalbody"):
            b = getattr(node, fld, None)
            if isinstance(b, list) and b and isinstance(b[0], ast.stmt):
                out = []
                for st in b:
                    if not isinstance(st, (ast.FunctionDef, ast.AsyncFunctionDef, ast.ClassDef)):
                        rec(st)
                    out += split(st) or [st]
                setattr(node, fld, out)
        for hd in getattr(node, "handlers", []) or []:
            rec(hd)
    rec(fn)
    ast.fix_missing_locations(fn)
    return fn


def _fold_cond_assigns(fn):
    """`if c: T = a` / `else: T = b` (one assignment to the same target on each side) written as `T = a if c else b`, in place"""
    def fold(st):
        if isinstance(st, ast.If) and len(st.body) == 1 and len(st.orelse) == 1:
            a, b = st.body[0], fold(st.orelse[0])
            a = fold(a)
            if isinstance(a, ast.Assign) and isinstance(b, ast.Assign) and len(a.targets) == 1 and len(b.targets) == 1 \
                    and isinstance(a.targets[0], (ast.Name, ast.Attribute)) and ast.dump(a.targets[0]) == ast.dump(b.targets[0]):
                return ast.copy_location(ast.Assign(targets=[a.targets[0]], value=ast.copy_location(ast.IfExp(test=st.test, body=a.value, orelse=b.value), st)), st)
        return st

    def rec(node):
        for fld in ("body", "orelse", "finalbody"):
            b = getattr(node, fld, None)
            if isinstance(b, list) and b and isinstance(b[0], ast.stmt):
                out = []
                for st in b:
                    st = fold(st)
                    if not isinstance(st, (ast.FunctionDef, ast.AsyncFunctionDef, ast.ClassDef)):
                        rec(st)
                    out.append(st)
                setattr(node, fld, out)
        for hd in getattr(node, "handlers", []) or []:
            rec(hd)
    rec(fn)
    ast.fix_missing_locations(fn)
    return fn


def _inline_once_temps(fn):
    """`v = E` directly followed by `T = v` / `return v`, v a local that occurs nowhere else in the function: `T = E` / `return E`,
    in place (the value hoisted into a local just before its only use)"""
    count = {}
    for x in ast.walk(fn):
        if isinstance(x, ast.Name):
            count[x.id] = count.get(x.id, 0) + 1
    params = {a.arg for a in ast.walk(fn.args) if isinstance(a, ast.arg)}

    def rec(node):
        for fld in ("body", "orelse", "finalbody"):
            b = getattr(node, fld, None)
            if isinstance(b, list) and b and isinstance(b[0], ast.stmt):
                out = []
                for st in b:
                    if not isinstance(st, (ast.FunctionDef, ast.AsyncFunctionDef, ast.ClassDef)):
                        rec(st)
                    prev = out[-1] if out else None
                    if isinstance(prev, ast.Assign) and len(prev.targets) == 1 and isinstance(prev.targets[0], ast.Name) and count.get(prev.targets[0].id) == 2 \
                            and prev.targets[0].id not in params and isinstance(st, (ast.Assign, ast.Return)) and isinstance(st.value, ast.Name) and st.value.id == prev.targets[0].id:
                        st.value = prev.value
                        out[-1] = st
                        continue
                    # .. or into the local a loop runs over / a branch tests (evaluated once, first)
                    if isinstance(prev, ast.Assign) and len(prev.targets) == 1 and isinstance(prev.targets[0], ast.Name) and count.get(prev.targets[0].id) == 2 \
                            and prev.targets[0].id not in params:
                        if isinstance(st, ast.For) and isinstance(st.iter, ast.Name) and st.iter.id == prev.targets[0].id:
                            st.iter = prev.value
                            out[-1] = st
                            continue
                        if isinstance(st, ast.If) and isinstance(st.test, ast.Name) and st.test.id == prev.targets[0].id:
                            st.test = prev.value
                            out[-1] = st
                            continue
                    out.append(st)
                setattr(node, fld, out)
        for hd in getattr(node, "handlers", []) or []:
            rec(hd)
    rec(fn)
    return fn


def _straighten_in_place(fn):
    # (a value hoisted inside a branch goes back first, so that the branch is the one store the fold reads; the fold may leave
    # `v = a if c else b; T = v` behind, which goes back in turn)
    return _inline_once_temps(_fold_cond_assigns(_inline_once_temps(_join_dict_stores(_inline_once_temps(_untuple(fn))))))


def straighten(fn):
    """a copy of a function with tuple assignments split, `if c: T = a else: T = b` as a conditional expression, successive stores into
    a fresh dict as the display, and a value hoisted into a once-used local back in place (the everyday re-spellings of ONE store)"""
    return _straighten_in_place(copy.deepcopy(fn))


def straighten_module(pkg, file):
    """a copy of module `file` with every function of it straightened (see straighten), cached"""
    cache = pkg.__dict__.setdefault("_c20_straight_mod", {})
    if file not in cache:
        mod = copy.deepcopy(pkg.modules[file])
        for fn in [x for x in ast.walk(mod) if isinstance(x, (ast.FunctionDef, ast.AsyncFunctionDef))]:
            _straighten_in_place(fn)
        cache[file] = mod
    return cache[file]


def straightened(pkg, cls, meth, keep=()):
    """a private copy of method `cls.meth` for the rules that read one stored setting per statement: helpers put back, tuple
    assignments split, `if c: T = a else: T = b` as a conditional expression, a value hoisted into a once-used local back in place"""
    cache = pkg.__dict__.setdefault("_c20_straight", {})
    key = (cls, meth, tuple(sorted(keep)))
    if key not in cache:
        cache[key] = _straighten_in_place(copy.deepcopy(pkg.expanded(cls, meth, keep=keep)))
    return cache[key]


def _join_dict_stores(fn):
    """`T = {}` directly followed by `T["k1"] = v1; T["k2"] = v2; ..` (constant keys, no value reads T) written as the display
    `T = {"k1": v1, "k2": v2}` it builds, in place"""
    def rec(node):
        for fld in ("body", "orelse", "finalbody"):
            b = getattr(node, fld, None)
            if isinstance(b, list) and b and isinstance(b[0], ast.stmt):
                out = []
                cur = None           # (name, display being extended)
                for st in b:
                    if not isinstance(st, (ast.FunctionDef, ast.AsyncFunctionDef, ast.ClassDef)):
                        rec(st)
                    if cur is not None and isinstance(st, ast.Assign) and len(st.targets) == 1 and isinstance(st.targets[0], ast.Subscript) \
                            and isinstance(st.targets[0].value, ast.Name) and st.targets[0].value.id == cur[0] and isinstance(st.targets[0].slice, ast.Constant) \
                            and not any(isinstance(x, ast.Name) and x.id == cur[0] for x in ast.walk(st.value)) \
                            and not any(isinstance(k, ast.Constant) and k.value == st.targets[0].slice.value for k in cur[1].keys):
                        cur[1].keys.append(st.targets[0].slice)
                        cur[1].values.append(st.value)
                        continue
                    cur = None
                    if isinstance(st, ast.Assign) and len(st.targets) == 1 and isinstance(st.targets[0], ast.Name) and \
                            ((isinstance(st.value, ast.Dict) and not st.value.keys) or (isinstance(st.value, ast.Call) and ast.unparse(st.value) == "dict()")):
                        st.value = ast.copy_location(ast.Dict(keys=[], values=[]), st.value)
                        cur = (st.targets[0].id, st.value)
                    out.append(st)
                setattr(node, fld, out)
        for hd in getattr(node, "handlers", []) or []:
            rec(hd)
    rec(fn)
    return fn


def _plain(pkg, cls, meth):
    """a private copy of method `cls.meth` as written, tuple assignments split (see _untuple)"""
    import copy
    cache = pkg.__dict__.setdefault("_c20_plain", {})
    if (cls, meth) not in cache:
        cache[(cls, meth)] = _join_dict_stores(_inline_once_temps(_untuple(copy.deepcopy(pkg.method(cls, meth)))))
    return cache[(cls, meth)]


def _toml_root(fn):
    """the local holding the parsed configuration: assigned from <x>.read() / tomlkit.loads(..) / tomlkit.parse(..)"""
    for n in [x for x in _in_order(fn) if isinstance(x, ast.Assign)]:
        if isinstance(n.targets[0], ast.Name) and isinstance(n.value, ast.Call) and isinstance(n.value.func, ast.Attribute) and n.value.func.attr in ("read", "loads", "parse"):
            return n.targets[0].id
    return "content"


def _in_order(fn):
    """Assign / AugAssign / For statements of a function in execution (source) order -- by position in the statement lists, not by
    line number (statements of an expanded helper keep the helper's line numbers)"""
    out = []

    def rec(stmts):
        for st in stmts:
            if isinstance(st, (ast.FunctionDef, ast.AsyncFunctionDef, ast.ClassDef)):
                continue
            if isinstance(st, (ast.Assign, ast.AugAssign, ast.AnnAssign, ast.For)):
                out.append(st)
            for fld in ("body", "orelse", "finalbody"):
                b = getattr(st, fld, None)
                if isinstance(b, list) and b and isinstance(b[0], ast.stmt):
                    rec(b)
            for hd in getattr(st, "handlers", []) or []:
                rec(hd.body)
    rec(fn.body)
    return out


def _content_writer(pkg):
    """BaseConfiguration.content with the _fill_* style helpers it may have been split into put back; a table of entries computed from a
    literal table of the function (`{f"num_of_{k}": n for k, n in sizes.items()}`) written out as the display it equals, and the loops
    over it unrolled -- every `table[key] = value` of the writer then stands in the function with its literal key"""
    cache = pkg.__dict__.setdefault("_content_writer", {})
    if "fn" in cache:
        return cache["fn"]
    import copy
    base = _untuple(copy.deepcopy(pkg.expanded("BaseConfiguration", "content")))
    fn = base
    try:
        from ..normalize import unroll_static_loops, _Subst, _ConstFStr
        stores = {}
        for x in ast.walk(fn):
            if isinstance(x, ast.Name) and isinstance(x.ctx, (ast.Store, ast.Del)):
                stores[x.id] = stores.get(x.id, 0) + 1
        lits = {st.targets[0].id: st.value for st in fn.body if isinstance(st, ast.Assign) and len(st.targets) == 1 and isinstance(st.targets[0], ast.Name)
                and stores.get(st.targets[0].id) == 1 and isinstance(st.value, ast.Dict) and st.value.keys and all(isinstance(k, ast.Constant) for k in st.value.keys)}
        changed = False
        new_body = []
        for st in fn.body:
            v = st.value if isinstance(st, ast.Assign) and len(st.targets) == 1 and isinstance(st.targets[0], ast.Name) else None
            if isinstance(v, ast.DictComp) and len(v.generators) == 1 and not v.generators[0].ifs and stores.get(st.targets[0].id) == 1:
                g = v.generators[0]
                it = g.iter
                if isinstance(it, ast.Call) and isinstance(it.func, ast.Attribute) and it.func.attr == "items" and not it.args and isinstance(it.func.value, ast.Name) \
                        and it.func.value.id in lits and isinstance(g.target, ast.Tuple) and len(g.target.elts) == 2 and all(isinstance(e, ast.Name) for e in g.target.elts):
                    src = lits[it.func.value.id]
                    kn, vn = g.target.elts[0].id, g.target.elts[1].id
                    keys, vals = [], []
                    for k_, v_ in zip(src.keys, src.values):
                        m = {kn: k_, vn: v_}
                        keys.append(_ConstFStr().visit(_Subst(m).visit(copy.deepcopy(v.key))))
                        vals.append(_Subst(m).visit(copy.deepcopy(v.value)))
                    if all(isinstance(k_, ast.Constant) for k_ in keys):
                        st = ast.copy_location(ast.Assign(targets=[ast.Name(id=st.targets[0].id, ctx=ast.Store())], value=ast.Dict(keys=keys, values=vals)), st)
                        changed = True
            new_body.append(st)
        if changed:
            fn = copy.deepcopy(base)
            fn.body = [copy.deepcopy(x) for x in new_body]
            ast.fix_missing_locations(fn)
            unroll_static_loops(fn)
    except (RecursionError, ImportError, AttributeError, TypeError):
        fn = base
    cache["fn"] = fn
    return fn


def _render_handle(pkg):
    """RenderCommand.handle as the rules read it: helpers of the class / the module put back, one-expression module helpers replaced by
    what they return where they stand inside an expression (`Network(rate_modifier=_with_int_keys(t))`), and a keyword table handed on
    with `**` written out as the keywords it holds"""
    cache = pkg.__dict__.setdefault("_render_handle", {})
    if "fn" not in cache:
        import copy
        from ..normalize import expand_kwargs_dicts, _ExprInliner
        fn = _join_dict_stores(_inline_once_temps(_untuple(copy.deepcopy(pkg.expanded("RenderCommand", "handle", keep=("option", "confirm", "call", "line", "argument"))))))

        def helper(call):
            f = call.func
            if isinstance(f, ast.Name) and (RENDER, f.id) in pkg.functions:
                return pkg.functions[(RENDER, f.id)], None
            return None
        try:
            fn.body = [_ExprInliner(helper, None).visit(st) for st in fn.body]
            ast.fix_missing_locations(fn)
            expand_kwargs_dicts(fn)
        except RecursionError:
            pass
        cache["fn"] = fn
    return cache["fn"]


def _init_handle(pkg):
    """InitCommand.handle with the parsing helpers it may have been split into put back; self.option / self.validate are the
    primitives the rules below speak about and stay calls"""
    cache = pkg.__dict__.setdefault("_init_handle", {})
    if "fn" not in cache:
        import copy
        from ..normalize import expand_kwargs_dicts
        fn = _join_dict_stores(_inline_once_temps(_untuple(copy.deepcopy(pkg.expanded("InitCommand", "handle", keep=("option", "validate"))))))
        try:
            expand_kwargs_dicts(fn)           # BaseConfiguration(name, **settings) with `settings` a display of the function
        except RecursionError:
            pass
        cache["fn"] = fn
    return cache["fn"]


def _example_handle(pkg):
    """ExampleCommand.handle with the helpers of the class / the module it may have been split into put back (one option value composed
    by a helper method, ..); the primitives of the command framework (self.option / choice / confirm / call / line) are not methods of
    the package and stay calls"""
    cache = pkg.__dict__.setdefault("_example_handle", {})
    if "fn" not in cache:
        import copy
        cache["fn"] = _inline_once_temps(_join_dict_stores(_inline_once_temps(_untuple(copy.deepcopy(pkg.expanded("ExampleCommand", "handle", keep=("option", "choice", "confirm", "call", "line", "argument")))))))
    return cache["fn"]


def _alias_closure(fn, name):
    """the local `name` and every local it is a plain alias of (`name = other`, assigned once)"""
    out = [name]
    for _ in range(4):
        src = [n for n in ast.walk(fn) if isinstance(n, ast.Assign) and any(isinstance(t, ast.Name) and t.id == out[-1] for t in n.targets)]
        if len(src) == 1 and isinstance(src[0].value, ast.Name) and src[0].value.id not in out:
            out.append(src[0].value.id)
        else:
            break
    return out


class _Origins(dict):
    """{local: option}; `.mixed` holds the locals computed from MORE than one option (or from such a local): no single option stands
    behind them, and nothing computed from them has one"""
    def __init__(self, *a):
        super().__init__(*a)
        self.mixed = set()


def _origins_used(e, org):
    used = {org[x.id] for x in ast.walk(e) if isinstance(x, ast.Name) and x.id in org}
    used |= {x.args[0].value for x in ast.walk(e) if isinstance(x, ast.Call) and ast.unparse(x.func) == "self.option" and x.args and isinstance(x.args[0], ast.Constant)}
    return used


def _origin_of(e, org):
    """the one option an expression derives from: through locals of known origin and direct self.option("o") reads; else None"""
    mixed = getattr(org, "mixed", ())
    if mixed and any(isinstance(x, ast.Name) and x.id in mixed for x in ast.walk(e)):
        return None
    used = _origins_used(e, org)
    return next(iter(used)) if len(used) == 1 else None


def _option_loops(h, org, opt):
    """the outermost `for` loops over the occurrences / pieces of option `opt` (the iterable derives from that option only)"""
    at = _origins_at(h)
    out = []

    def rec(stmts):
        for st in stmts:
            if isinstance(st, (ast.FunctionDef, ast.AsyncFunctionDef, ast.ClassDef)):
                continue
            if isinstance(st, ast.For) and at.get(id(st)) == opt:
                out.append(st)
                continue
            for fld in ("body", "orelse", "finalbody"):
                b = getattr(st, fld, None)
                if isinstance(b, list) and b and isinstance(b[0], ast.stmt):
                    rec(b)
            for hd in getattr(st, "handlers", []) or []:
                rec(hd.body)
    rec(h.body)
    return out


def _origins_at(h):
    """{id(statement): option} for the Assign / For statements of InitCommand.handle: the option the assigned value / the iterable
    derives from at that point of the function (a local re-used for another option later does not change it)"""
    if not hasattr(h, "_sa_origins"):
        _option_origins(h)
    return h._sa_origins[1]


def _option_origins(h):
    """{local: option name} for InitCommand.handle: x = self.option("o"), then every local assigned from an expression over locals
    of one single origin, every loop variable of a loop over such an expression, and every container filled (subscript store /
    append / extend / setdefault / update) inside such a loop.  Statements are taken in execution order; a local bound again from
    another option changes its origin from there on."""
    if hasattr(h, "_sa_origins"):
        return h._sa_origins[0]
    org, at = _Origins(), {}
    for n in _in_order(h):
        if isinstance(n, ast.Assign) and len(n.targets) == 1 and isinstance(n.targets[0], (ast.Name, ast.Tuple)):
            names = [n.targets[0]] if isinstance(n.targets[0], ast.Name) else [e for e in n.targets[0].elts if isinstance(e, ast.Name)]
            o = _origin_of(n.value, org)
            at[id(n)] = o
            direct = isinstance(n.value, ast.Call) and ast.unparse(n.value.func) == "self.option"
            if o is None and (len(_origins_used(n.value, org)) > 1 or any(isinstance(x, ast.Name) and x.id in org.mixed for x in ast.walk(n.value))):
                # a fresh local computed from several options stands for none of them (and is not neutral like a constant)
                org.mixed.update(t.id for t in names if t.id not in org)
            elif direct:
                org.mixed.difference_update(t.id for t in names)
            if o is not None:
                for t in names:
                    # a local that already stands for an option keeps it when it is refined (validated, split, defaulted from other
                    # settings on one branch); reading another option into it re-binds it
                    if direct or t.id not in org:
                        org[t.id] = o
        elif isinstance(n, ast.For):
            o = _origin_of(n.iter, org)
            at[id(n)] = o
            if o is None:
                if len(_origins_used(n.iter, org)) > 1 or any(isinstance(x, ast.Name) and x.id in org.mixed for x in ast.walk(n.iter)):
                    org.mixed.update(x.id for x in ast.walk(n.target) if isinstance(x, ast.Name) and x.id not in org)
                continue
            for x in ast.walk(n.target):
                if isinstance(x, ast.Name):
                    org[x.id] = o
            for x in ast.walk(n):
                b = None
                if isinstance(x, ast.Assign) and isinstance(x.targets[0], ast.Subscript):
                    b = x.targets[0]
                elif isinstance(x, ast.Call) and isinstance(x.func, ast.Attribute) and x.func.attr in ("append", "setdefault", "update", "extend"):
                    b = x.func.value
                while isinstance(b, ast.Subscript):
                    b = b.value
                if isinstance(b, ast.Name) and b.id not in org and not any(isinstance(a, ast.Assign) and isinstance(a.targets[0], ast.Name) and a.targets[0].id == b.id for a in ast.walk(n)):
                    org[b.id] = o
    h._sa_origins = (org, at)
    return org


def _example_flow(pkg):
    """value reconstruction (sa.valueflow) of ExampleCommand.handle: the command line it composes, whatever mix of f-strings,
    str.format, concatenation, format(), local helper functions and part lists it is spelled with"""
    from ..valueflow import Flow
    cache = pkg.__dict__.setdefault("_example_flow", {})
    if "fl" not in cache:
        cache["fl"] = Flow(_example_handle(pkg), EXAMPLE)
    return cache["fl"]


def _flow_values(fl):
    """every reconstructed value of the function: assigned values and the values of stores / appends / calls"""
    from ..valueflow import simp
    for lst in fl.assigns.values():
        for a in lst:
            yield simp(a[0])
    for f in fl.facts:
        if f.value is not None:
            yield simp(f.value)


def _text_consts(fl, v, seen=None):
    """the literal text pieces of a string-valued IR: constants of f-strings / concatenations, join separators, the pieces of
    comprehension elements, both arms of conditionals; a list filled by appends or a string grown by += contributes every piece
    appended to it.  Data (attributes, parameters, call results) contributes nothing."""
    from ..valueflow import simp
    seen = seen if seen is not None else set()
    out = set()
    if not isinstance(v, tuple) or not v:
        return out
    k = v[0]
    if k == "const":
        if isinstance(v[1], str):
            out.add(v[1])
    elif k == "fstr":
        for p_ in v[1]:
            out |= _text_consts(fl, p_[1] if p_[0] == "fmt" else p_, seen)
    elif k == "join":
        out |= _text_consts(fl, v[1], seen) | _text_consts(fl, v[2], seen)
    elif k == "comp":
        out |= _text_consts(fl, v[2], seen)
        # the elements of a list of text pieces the comprehension runs over (`"".join(f"{p};" for p in pieces)`)
        for g in v[3]:
            if isinstance(g, tuple) and len(g) == 3 and isinstance(g[1], tuple) and g[1] and g[1][0] in ("acc", "carried", "list", "tuple", "comp", "appended", "copy"):
                out |= _text_consts(fl, g[1], seen)
    elif k == "attr" and v[2] == "format" and v[1][0] == "const" and isinstance(v[1][1], str):
        out.add(v[1][1])                      # the bound method "{}: {}".format handed to map / starmap
    elif k == "meth" and v[2] == "format":
        out |= _text_consts(fl, v[1], seen)
        for a in v[3]:
            out |= _text_consts(fl, a, seen)
    elif k == "call" and (v[1] in (("global", "map"), ("global", "starmap"), ("global", "str"), ("global", "format"), ("global", "list"), ("global", "tuple"))
                          or (v[1][0] == "attr" and v[1][1] == ("global", "itertools") and v[1][2] == "starmap")):
        for a in v[2]:
            out |= _text_consts(fl, a, seen)
    elif k == "meth" and v[1] == ("global", "itertools") and v[2] == "starmap":
        for a in v[3]:
            out |= _text_consts(fl, a, seen)
    elif k in ("list", "tuple"):
        for e in v[1]:
            out |= _text_consts(fl, e, seen)
    elif k in ("ifexp", "phi"):
        out |= _text_consts(fl, v[2], seen) | _text_consts(fl, v[3], seen)
    elif k == "binop" and v[1] == "Add":
        out |= _text_consts(fl, v[2], seen) | _text_consts(fl, v[3], seen)
    elif k in ("appended", "copy", "after", "star"):
        for x in v[1:]:
            if isinstance(x, tuple):
                out |= _text_consts(fl, x, seen)
    elif k in ("acc", "carried"):
        name = v[1]
        if name not in seen:
            seen.add(name)
            for f in fl.facts:
                if f.target == name and f.kind in ("init", "append", "mutate", "augassign", "store", "augstore") and f.value is not None:
                    out |= _text_consts(fl, simp(f.value), seen)
            for a in fl.assigns.get(name, []):
                out |= _text_consts(fl, simp(a[0]), seen)
    return out


def _writer_values(fl):
    """{option: IR of the value} in ExampleCommand.handle: what is interpolated right after `--<option>=` / `--<option>='` in the
    composed command line"""
    from ..valueflow import walk
    out = {}
    for v in _flow_values(fl):
        for x in walk(v):
            if isinstance(x, tuple) and len(x) == 2 and x[0] == "fstr":
                for a, b in zip(x[1], x[1][1:]):
                    if a[0] == "const" and isinstance(a[1], str) and b[0] == "fmt":
                        m = re.search(r"--([a-z][a-z\-]+)='?$", a[1])
                        if m:
                            out.setdefault(m.group(1), b[1])
    return out


def _toml_paths(text):
    import tomlkit
    doc = tomlkit.loads(text)
    out = set()

    def rec(d, pre):
        for k, v in d.items():
            p = f"{pre}.{k}" if pre else k
            out.add(p)
            if hasattr(v, "items"):
                rec(v, p)
    rec(doc, "")
    return out


def _get_key(e):
    """"k" for `X.get("k")` / `X.get("k", default)` -- the same table entry as X["k"]"""
    if isinstance(e, ast.Call) and isinstance(e.func, ast.Attribute) and e.func.attr == "get" and 1 <= len(e.args) <= 2 and not e.keywords \
            and isinstance(e.args[0], ast.Constant) and isinstance(e.args[0].value, str):
        return e.args[0].value
    return None


def _unit_assigns(n):
    """the plain `target = value` pairs one assignment statement stands for: every target of `a = b = v`, and the pairs of an
    element-wise tuple assignment `a, b = x, y` (values are read before any target is bound: callers take paths first)"""
    out = []
    for t in n.targets:
        if isinstance(t, (ast.Tuple, ast.List)) and isinstance(n.value, (ast.Tuple, ast.List)) and len(t.elts) == len(n.value.elts) \
                and not any(isinstance(e, ast.Starred) for e in list(t.elts) + list(n.value.elts)):
            out += [(te, ve) for te, ve in zip(t.elts, n.value.elts)]
        else:
            out.append((t, n.value))
    return out


def _alias_paths(fn, root_names, derive=False):
    """Follow `x = y["k"]` chains.  -> (reads {path: line}, writes {path: line}, var->path)
    derive=True: a fresh local computed from locals of exactly one configuration path (a converted / copied table under a new
    name) stands for that path too."""
    var = {n: p for n, p in root_names.items()}
    reads, writes = {}, {}
    stmts = [n for n in _in_order(fn) if isinstance(n, (ast.Assign, ast.AnnAssign))]       # execution order (expanded helpers keep their own line numbers)

    def path_of(e):
        if isinstance(e, ast.Name) and e.id in var:
            return var[e.id]
        if isinstance(e, ast.Subscript) and isinstance(e.slice, ast.Constant) and isinstance(e.slice.value, str):
            b = path_of(e.value)
            if b is not None:
                return f"{b}.{e.slice.value}" if b else e.slice.value
        k = _get_key(e)
        if k is not None:
            b = path_of(e.func.value)
            if b is not None:
                return f"{b}.{k}" if b else k
        return None
    for n in stmts:
        if isinstance(n, ast.AnnAssign):
            if n.value is None:
                continue
            units = [(n.target, n.value)]
        else:
            units = _unit_assigns(n)
        # the right-hand sides are evaluated before any target is bound
        units = [(t, v, path_of(v), path_of(t) if isinstance(t, ast.Subscript) else None) for t, v in units]
        for t, value, p, tp in units:
            # write: X["k"] = value
            if isinstance(t, ast.Subscript):
                if tp is not None:
                    writes[tp] = n.lineno
                    if isinstance(value, ast.Dict):
                        for k in value.keys:
                            if isinstance(k, ast.Constant):
                                writes[f"{tp}.{k.value}"] = n.lineno
            # read / alias: name = X["k"]
            if isinstance(t, ast.Name):
                if p is not None:
                    var[t.id] = p
                    if not isinstance(value, ast.Name):          # `x = y` names the table again; it asks the document for nothing
                        reads[p] = n.lineno
                    continue
                if derive and t.id not in var:
                    src = {var[x.id] for x in ast.walk(value) if isinstance(x, ast.Name) and x.id in var and var[x.id]}
                    if len(src) == 1:
                        var[t.id] = next(iter(src))
            if p is None:
                for sub in ast.walk(value):
                    if isinstance(sub, ast.Subscript) or _get_key(sub) is not None:
                        q = path_of(sub)
                        if q is not None:
                            reads[q] = n.lineno
    return reads, writes, var


_WHOLE_OK_CALLS = ("dumps", "len", "print", "get", "write", "table", "isinstance")


def _escaped_tables(fn, var):
    """configuration tables (paths held by aliasing locals / subscripts of them) that leave this rule's sight WHOLE: handed to a call,
    returned, stored into a container / attribute, unpacked, indexed by a computed key, iterated.  Whatever is read or written below
    such a path happens where `_alias_paths` does not look.  The uses it does read: `X["k"]`, `X.get("k")`, `name = X`,
    the pairs of an element-wise tuple assignment, and the arguments of the few calls that take a document as a whole."""
    out = set()

    def path_of(e):
        if isinstance(e, ast.Name) and e.id in var:
            return var[e.id]
        if isinstance(e, ast.Subscript) and isinstance(e.slice, ast.Constant) and isinstance(e.slice.value, str):
            b = path_of(e.value)
            if b is not None:
                return f"{b}.{e.slice.value}" if b else e.slice.value
        return None
    for c in ast.walk(fn):
        if isinstance(c, ast.Call):
            f = ast.unparse(c.func)
            if f.split(".")[-1] in _WHOLE_OK_CALLS:
                continue
            for a in list(c.args) + [k.value for k in c.keywords]:
                if isinstance(a, ast.Starred):
                    a = a.value
                p_ = path_of(a)
                if p_ is not None:
                    out.add(p_)
    # every other place a local that holds a table of the document stands in
    read_here = set()              # id() of the Name nodes in a position this rule reads
    for x in ast.walk(fn):
        if isinstance(x, ast.Subscript) and isinstance(x.slice, ast.Constant) and isinstance(x.slice.value, str):
            read_here.add(id(x.value))
        elif isinstance(x, ast.Call):
            if _get_key(x) is not None:
                read_here.add(id(x.func.value))
            for a in list(x.args) + [k.value for k in x.keywords]:
                read_here.add(id(a.value if isinstance(a, ast.Starred) else a))            # decided above
        elif isinstance(x, ast.Assign):
            for t, v in _unit_assigns(x):
                if isinstance(t, ast.Name) or (isinstance(t, ast.Subscript) and path_of(t) is not None):
                    read_here.add(id(v))
        elif isinstance(x, ast.AnnAssign) and x.value is not None and isinstance(x.target, ast.Name):
            read_here.add(id(x.value))
        elif isinstance(x, (ast.If, ast.While, ast.IfExp)):
            read_here.add(id(x.test))                     # `if table:` asks whether it is empty, not what is in it
    tables = {p for p in var.values() if any(q != p and (q.startswith(p + ".") or p == "") for q in var.values())}
    for x in ast.walk(fn):
        if isinstance(x, ast.Name) and isinstance(x.ctx, ast.Load) and x.id in var and id(x) not in read_here and var[x.id] in tables:
            out.add(var[x.id])
    return out


def check(ctx):
    pkg = package(ctx.tree)
    _r1(ctx, pkg)
    _r2(ctx, pkg)
    _r3(ctx, pkg)
    _r4_r6_r7(ctx, pkg)
    _r5(ctx, pkg)
    _r8(ctx, pkg)
    _r9(ctx, pkg)
    from .c18 import render_reads_only
    render_reads_only(ctx, pkg, "R10")
    _r11(ctx, pkg)
    _r12(ctx, pkg)
    _r13(ctx, pkg)


# ------------------------------------------------------------------ R12  every configured value reaches the API parameter it stands for

# configuration path -> the places the render command must hand it to, as (callee's last name, parameter name | position | "=")
# -- the same places a user of the Python API hands the value to (Network(...), Species class tables, chemistrydata.update_*,
# TemplateLoader(...)); this table IS the "equivalent network through the API" of the property
SINKS = {
    "chemistry.element.elements": [("set_known_elements", 0), ("Network", "elements")],
    "chemistry.element.pseudo_elements": [("set_known_pseudoelements", 0), ("Network", "pseudo_elements")],
    "chemistry.element.replacement": [("_replacement", "=")],
    "chemistry.species.allowed": [("Network", "allowed_species")],
    "chemistry.species.required": [("Network", "required_species")],
    "chemistry.species.binding_energy": [("update_binding_energy", 0)],
    "chemistry.species.photon_yield": [("update_photon_yield", 0)],
    "chemistry.symbol.grain": [("Network", "species_kwargs")],
    "chemistry.symbol.surface": [("Network", "species_kwargs")],
    "chemistry.symbol.bulk": [("Network", "species_kwargs")],
    "chemistry.network.files": [("Network", "filelist")],
    "chemistry.network.formats": [("Network", "fileformats")],
    "chemistry.thermal.heating": [("Network", "heating")],
    "chemistry.thermal.cooling": [("Network", "cooling")],
    "chemistry.shielding": [("Network", "shielding")],
    "chemistry.rate_modifier": [("Network", "rate_modifier")],
    "chemistry.ode_modifier": [("Network", "ode_modifier")],
    "chemistry.grain.model": [("Network", "grain_model")],
    "ODEsolver.solver": [("TemplateLoader", "solver")],
    "ODEsolver.method": [("TemplateLoader", "method")],
    "ODEsolver.device": [("TemplateLoader", "device")],
    "general.name": [("render", 0)],
}
NEUTRAL_CALLS = {"Species", "int", "str", "float", "dict", "list", "set", "tuple", "items", "keys", "values", "get", "len", "print", "sorted", "copy", "join", "format",
                 "strip", "isinstance", "bool", "enumerate", "zip", "Path", "joinpath", "spec_from_file_location", "module_from_spec", "exec_module", "patch_factory", "range"}


def _r12(ctx, pkg):
    rfn = _render_handle(pkg)
    root = _toml_root(rfn)
    taint = {root: {""}}          # local -> set of configuration paths its value derives from

    def paths_of(e):
        """configuration paths an expression derives from"""
        out = set()
        # x["k"] chains on an aliasing local give the exact path
        if isinstance(e, ast.Subscript) and isinstance(e.slice, ast.Constant) and isinstance(e.slice.value, str):
            base = paths_of(e.value)
            if base:
                return {f"{b}.{e.slice.value}" if b else e.slice.value for b in base}
        if _get_key(e) is not None:
            base = paths_of(e.func.value)
            if base:
                return {f"{b}.{_get_key(e)}" if b else _get_key(e) for b in base} | {p_ for a_ in e.args[1:] for p_ in paths_of(a_)}
        if isinstance(e, ast.Name):
            return set(taint.get(e.id, ()))
        for ch in ast.iter_child_nodes(e):
            if isinstance(ch, ast.comprehension):
                out |= paths_of(ch.iter)
                for c in ch.ifs:
                    out |= paths_of(c)
            elif isinstance(ch, (ast.expr, ast.keyword)):
                out |= paths_of(ch.value if isinstance(ch, ast.keyword) else ch)
        return out

    def leafs(ps):
        return {p for p in ps if p in SINKS}

    def callee_params(name):
        """parameter names of the callee (class __init__ or function / method of that name in the package)"""
        if name in pkg.classes and "__init__" in pkg.classes[name].methods:
            return [a.arg for a in pkg.classes[name].methods["__init__"].args.args][1:]
        for ci in pkg.classes.values():
            if name in ci.methods:
                fn = ci.methods[name]
                decs = {ast.unparse(d) for d in fn.decorator_list}
                a = [x.arg for x in fn.args.args]
                return a if "staticmethod" in decs else a[1:]
        for (f, n), fn in pkg.functions.items():
            if n == name:
                return [x.arg for x in fn.args.args]
        return None

    reached = {}       # path -> set of (callee, slot)
    strays = {}        # path -> [unknown call it is handed to]
    stmts = []

    def collect(body):
        """statements in execution (source) order -- by position in the statement lists, not by line number"""
        for st in body:
            if isinstance(st, (ast.FunctionDef, ast.AsyncFunctionDef, ast.ClassDef)):
                continue
            if isinstance(st, (ast.Assign, ast.AugAssign, ast.Expr, ast.For, ast.With, ast.Return)):
                stmts.append(st)
            for fld in ("body", "orelse", "finalbody"):
                b = getattr(st, fld, None)
                if isinstance(b, list) and b and isinstance(b[0], ast.stmt):
                    collect(b)
            for hd in getattr(st, "handlers", []) or []:
                collect(hd.body)
    collect(rfn.body)
    for n in stmts:
        # sinks: calls anywhere inside the statement's own expressions
        exprs = []
        if isinstance(n, (ast.Assign, ast.AugAssign, ast.Expr, ast.Return)) and n.value is not None:
            exprs.append(n.value)
        if isinstance(n, ast.For):
            exprs.append(n.iter)
        if isinstance(n, ast.With):
            exprs += [i.context_expr for i in n.items]
        for e in exprs:
            for c in ast.walk(e):
                if not isinstance(c, ast.Call):
                    continue
                cname = c.func.attr if isinstance(c.func, ast.Attribute) else c.func.id if isinstance(c.func, ast.Name) else ""
                params = callee_params(cname)
                slots = []
                for i, a in enumerate(c.args):
                    if isinstance(a, ast.Starred):
                        continue
                    slots.append((i, params[i] if params and i < len(params) else None, a))
                for k in c.keywords:
                    if k.arg is not None:
                        slots.append((params.index(k.arg) if params and k.arg in params else None, k.arg, k.value))
                for pos, pname, a in slots:
                    for p_ in leafs(paths_of(a)):
                        reached.setdefault(p_, set()).update({(cname, pos), (cname, pname)})
                        if cname not in NEUTRAL_CALLS and not any(cname == s_[0] for s_ in SINKS[p_]):
                            strays.setdefault(p_, []).append(f"{cname}(..) line {c.lineno}")
        if isinstance(n, ast.Assign):
            ps = paths_of(n.value)
            for t in n.targets:
                if isinstance(t, ast.Name):
                    if t.id != root:
                        taint[t.id] = set(ps)
                elif isinstance(t, (ast.Tuple, ast.List)):
                    for e in t.elts:
                        if isinstance(e, ast.Name):
                            taint[e.id] = set(ps)
                elif isinstance(t, ast.Attribute):
                    for p_ in leafs(ps):
                        reached.setdefault(p_, set()).add((t.attr, "="))
                elif isinstance(t, ast.Subscript):
                    b = t.value
                    while isinstance(b, ast.Subscript):
                        b = b.value
                    if isinstance(b, ast.Name):
                        taint.setdefault(b.id, set()).update(ps)
        elif isinstance(n, ast.For):
            ps = paths_of(n.iter)
            for e in ast.walk(n.target):
                if isinstance(e, ast.Name):
                    taint[e.id] = set(ps)
    n_ok = 0
    esc12 = _escaped_tables(rfn, _alias_paths(rfn, {root: ""})[2])
    for path, sinks in sorted(SINKS.items()):
        got = reached.get(path, set())
        for callee, slot in sinks:
            key = f"{path} -> {callee}({slot})" if slot != "=" else f"{path} -> {callee} ="
            if (callee, slot) in got:
                n_ok += 1
                ctx.ok("R12", key, (RENDER, rfn.lineno), "the configured value is handed to the API parameter it stands for")
            elif path not in {p_ for ps in taint.values() for p_ in ps} and path not in reached and not any(q.startswith(path) or path.startswith(q + ".") for ps in taint.values() for q in ps if q):
                ctx.unrec("R12", key, (RENDER, rfn.lineno), f"cannot follow `{path}` from the parsed configuration (the key is not read by subscripting a local of handle())")
            elif strays.get(path):
                ctx.unrec("R12", key, (RENDER, rfn.lineno), f"`{path}` is handed to {strays[path][0]}, which this rule does not follow")
            elif any(path.startswith(q + ".") or q == "" for q in esc12):
                ctx.unrec("R12", key, (RENDER, rfn.lineno), f"a table holding `{path}` is handed whole to a call this rule does not follow ({sorted(q for q in esc12 if path.startswith(q + '.') or q == '')[:2]})")
            else:
                ctx.bad("R12", key, (RENDER, rfn.lineno),
                        f"the configured `{path}` never reaches {callee}({slot if slot != '=' else 'class table'}): the command-line rendering uses something else than what the "
                        "configuration file says, and differs from rendering the equivalent network through the API",
                        expected=f"{callee}({slot}=<{path}>)", found="reaches: " + (", ".join(sorted(f"{c}({s})" for c, s in got if s is not None and not isinstance(s, int))) or "nothing"))
    ctx.floor("R12", "configured values delivered", n_ok, 20, (RENDER, rfn.lineno))


# ------------------------------------------------------------------ R11  list options keep every item, in order

LIST_OPTIONS = {"loading", "elements", "pseudo-elements", "allowed-species", "extra-species", "network-files", "file-formats", "heating", "cooling"}


def _list_parse(v, cls_node, depth=0):
    """-> ('ok'|'lossy'|'unknown', detail) for the expression a list option is parsed with"""
    if isinstance(v, ast.ListComp) and len(v.generators) == 1:
        g = v.generators[0]
        src = ast.unparse(v)
        it_ok = isinstance(g.iter, ast.Call) and isinstance(g.iter.func, ast.Attribute) and g.iter.func.attr == "split"
        var = g.target.id if isinstance(g.target, ast.Name) else None
        elt_ok = ast.unparse(v.elt) in (f"{var}.strip()", var)
        ifs_ok = all(ast.unparse(c) in (var, f"{var}.strip()") for c in g.ifs)
        if it_ok and elt_ok and ifs_ok:
            return "ok", "split, strip, drop blanks"
        return "unknown", src[:80]
    if isinstance(v, ast.Call):
        f = ast.unparse(v.func)
        if f in ("list", "tuple") and v.args:
            inner = v.args[0]
            if isinstance(inner, ast.Call) and ast.unparse(inner.func) in ("dict.fromkeys", "set", "frozenset", "sorted", "OrderedDict.fromkeys"):
                return "lossy", f"{ast.unparse(inner.func)}(..) drops repeated items / re-orders"
        if f in ("sorted", "set", "frozenset") or f.endswith("fromkeys"):
            return "lossy", f"{f}(..) drops repeated items / re-orders"
        if isinstance(v.func, ast.Attribute) and isinstance(v.func.value, ast.Name) and v.func.value.id in ("self", "cls") and depth < 2:
            m = next((x for x in cls_node.body if isinstance(x, ast.FunctionDef) and x.name == v.func.attr), None)
            if m is not None:
                rets = [x for x in ast.walk(m) if isinstance(x, ast.Return) and x.value is not None]
                if len(rets) == 1:
                    st, why = _list_parse(rets[0].value, cls_node, depth + 1)
                    return st, f"{v.func.attr}(): {why}"
    return "unknown", ast.unparse(v)[:80]


def _r11(ctx, pkg):
    """files/formats (and every other list setting) are positional: item i of one list belongs to item i of the other, and a
    list may legitimately repeat a value (two files of one format).  The parser keeps every non-blank item in order."""
    ci = pkg.cls("InitCommand")
    h = _init_handle(pkg)
    org = _option_origins(h)
    n = 0
    for local, opt in sorted(org.items()):
        if opt not in LIST_OPTIONS:
            continue
        # the last assignment (in execution order: statements of a helper put back keep the helper's line numbers) that turns the
        # option text into a list
        order = [x for x in _in_order(h) if isinstance(x, ast.Assign)]
        pos = {id(x): i for i, x in enumerate(order)}
        top = {id(x) for x in h.body}
        cands = [a for a in order if isinstance(a.targets[0], ast.Name) and a.targets[0].id == local
                 and not (isinstance(a.value, ast.Call) and ast.unparse(a.value.func) in ("self.option", "self.validate"))]
        if not cands:
            continue
        a = cands[-1]
        n += 1
        val = a.value
        at = pos[id(a)]
        for _ in range(3):            # `items = [..]; option = items`: a local is what the assignment that reaches this point bound it to
            if isinstance(val, ast.Name) and val.id != local:
                src = [x for x in order[:at] if len(x.targets) == 1 and isinstance(x.targets[0], ast.Name) and x.targets[0].id == val.id]
                if src and (len(src) == 1 or (id(src[-1]) in top and id(a) in top)):
                    val, at = src[-1].value, pos[id(src[-1])]
        st, why = _list_parse(val, ci.node)
        if st == "unknown":
            ctx.unrec("R11", f"--{opt}: list parse", (INIT, a.lineno), f"cannot tell whether every item survives: {why}")
        else:
            ctx.check(st == "ok", "R11", f"--{opt}: list parse", (INIT, a.lineno), why if st == "ok" else
                      f"the items of --{opt} are de-duplicated or re-ordered ({why}): `--network-files=a.kida,b.kida --file-formats=kida,kida` is written as formats = ['kida'] and "
                      "the render command rejects (or mis-pairs) the configuration", expected="[x.strip() for x in value.split(',') if x]", found=ast.unparse(val)[:100])
    ctx.floor("R11", "list options parsed", n, 9)


# ------------------------------------------------------------------ R9  the writer passes every table on whole

def _whole(v, mod, depth=0):
    """-> ('ok'|'filtered'|'unknown', detail) for the value assigned to a configuration path."""
    if isinstance(v, ast.Attribute) and isinstance(v.value, ast.Name) and v.value.id == "self":
        return "ok", "the stored field itself"
    if isinstance(v, ast.Name):
        return "ok", "the value passed in"
    if isinstance(v, ast.Call) and isinstance(v.func, ast.Attribute) and v.func.attr == "copy" and not v.args:
        return _whole(v.func.value, mod, depth)
    if isinstance(v, ast.Call) and ast.unparse(v.func) in ("dict", "list") and len(v.args) == 1:
        return _whole(v.args[0], mod, depth)
    if isinstance(v, (ast.DictComp, ast.ListComp)):
        if len(v.generators) != 1:
            return "unknown", "nested comprehension"
        g = v.generators[0]
        if g.ifs:
            return "filtered", f"entries are dropped by `if {ast.unparse(g.ifs[0])}`"
        it = g.iter
        if isinstance(it, ast.Call) and isinstance(it.func, ast.Attribute) and it.func.attr == "items" and not it.args:
            it = it.func.value
        st, _ = _whole(it, mod, depth)
        if st != "ok":
            return st, "comprehension source"
        names = [n.id for n in ast.walk(g.target) if isinstance(n, ast.Name)]
        if isinstance(v, ast.DictComp):
            kk = ast.unparse(v.key)
            if kk not in (names[0], f"str({names[0]})") or not (isinstance(v.value, ast.Name) and v.value.id == names[-1]):
                return "unknown", f"entries are rewritten: {kk}: {ast.unparse(v.value)}"
        elif not (isinstance(v.elt, ast.Name) and v.elt.id == names[0]):
            return "unknown", f"elements are rewritten: {ast.unparse(v.elt)}"
        return "ok", "every entry is copied (keys as strings)"
    if isinstance(v, ast.Call) and isinstance(v.func, ast.Name) and len(v.args) == 1 and not v.keywords and depth < 2:
        for n in mod.body:
            if isinstance(n, ast.FunctionDef) and n.name == v.func.id and len(n.args.args) == 1:
                rets = [x for x in ast.walk(n) if isinstance(x, ast.Return)]
                if len(rets) == 1 and rets[0].value is not None:
                    st, why = _whole(rets[0].value, mod, depth + 1)
                    return st, f"{v.func.id}(): {why}"
        return "unknown", f"helper {v.func.id}() not resolved"
    return "unknown", ast.unparse(v)[:60]


USER_PATHS = ("chemistry.", "ODEsolver.", "general.name", "general.description", "general.loads")


def carries_whole(v: ast.AST, depth: int = 0):
    """-> ('ok' | 'filtered' | 'unknown', detail) for an expression that stores / hands on a table or list it was given (X a name or an
    attribute chain):  X, X.copy(), list(X) / dict(X) / tuple(X) / copy.copy(X) / copy.deepcopy(X), [*X] / {**X}, `<whole> if X else <empty>`,
    `X or <empty>`, a comprehension that copies every entry (keys through int / str) are WHOLE;  a comprehension with a filter, filter(..),
    a slice, set(..) / dict.fromkeys(..) / sorted(set(..)) DROP entries -- positive evidence;  anything else is not read here."""
    empty = lambda x: (isinstance(x, (ast.List, ast.Tuple, ast.Dict, ast.Set)) and not (x.elts if not isinstance(x, ast.Dict) else x.keys)) or \
        (isinstance(x, ast.Call) and isinstance(x.func, ast.Name) and x.func.id in ("list", "dict", "tuple") and not x.args and not x.keywords) or \
        (isinstance(x, ast.Constant) and x.value in (None, ""))
    if depth > 4:
        return "unknown", "too deep"
    if isinstance(v, (ast.Name, ast.Attribute)):
        return "ok", "the value itself"
    if isinstance(v, ast.IfExp):
        arms = [carries_whole(x, depth + 1) for x in (v.body, v.orelse) if not empty(x)]
        for st in ("filtered", "unknown"):
            hit = [a for a in arms if a[0] == st]
            if hit:
                return hit[0]
        return "ok", "whole on every arm"
    if isinstance(v, ast.BoolOp) and isinstance(v.op, ast.Or):
        arms = [carries_whole(x, depth + 1) for x in v.values if not empty(x)]
        for st in ("filtered", "unknown"):
            hit = [a for a in arms if a[0] == st]
            if hit:
                return hit[0]
        return "ok", "the value or an empty default"
    if isinstance(v, ast.Call):
        f = ast.unparse(v.func)
        if isinstance(v.func, ast.Attribute) and v.func.attr == "copy" and not v.args and not v.keywords:
            return carries_whole(v.func.value, depth + 1)
        if f in ("dict", "list", "tuple", "copy.deepcopy", "deepcopy", "copy.copy", "copy") and len(v.args) == 1 and not v.keywords:
            return carries_whole(v.args[0], depth + 1)
        if f in ("set", "frozenset", "filter") or f.endswith("fromkeys"):
            return "filtered", f"`{ast.unparse(v)[:70]}` drops repeated / falsy entries"
        if f == "sorted" and v.args and isinstance(v.args[0], ast.Call) and ast.unparse(v.args[0].func) in ("set", "frozenset"):
            return "filtered", f"`{ast.unparse(v)[:70]}` drops repeated entries"
        return "unknown", ast.unparse(v)[:70]
    if isinstance(v, (ast.List, ast.Tuple)) and len(v.elts) == 1 and isinstance(v.elts[0], ast.Starred):
        return carries_whole(v.elts[0].value, depth + 1)
    if isinstance(v, ast.Dict) and len(v.keys) == 1 and v.keys[0] is None:
        return carries_whole(v.values[0], depth + 1)
    if isinstance(v, ast.Subscript) and isinstance(v.slice, ast.Slice):
        if v.slice.lower is None and v.slice.upper is None and v.slice.step is None:
            return carries_whole(v.value, depth + 1)
        return "filtered", f"the slice `{ast.unparse(v)[:60]}` keeps part of the entries"
    if isinstance(v, (ast.DictComp, ast.ListComp)):
        if len(v.generators) != 1:
            return "unknown", "nested comprehension"
        g = v.generators[0]
        if g.ifs:
            return "filtered", f"entries are dropped by `if {ast.unparse(g.ifs[0])[:60]}`"
        it = g.iter
        if isinstance(it, ast.Call) and isinstance(it.func, ast.Attribute) and it.func.attr == "items" and not it.args:
            it = it.func.value
        st = carries_whole(it, depth + 1)
        if st[0] != "ok":
            return st
        names = [n.id for n in ast.walk(g.target) if isinstance(n, ast.Name)]
        if not names:
            return "unknown", "comprehension target"
        if isinstance(v, ast.DictComp):
            kk = ast.unparse(v.key)
            if kk not in (names[0], f"str({names[0]})", f"int({names[0]})") or not (isinstance(v.value, ast.Name) and v.value.id == names[-1]):
                return "unknown", f"entries are rewritten: {kk}: {ast.unparse(v.value)[:40]}"
        elif not (isinstance(v.elt, ast.Name) and v.elt.id == names[0]):
            return "unknown", f"elements are rewritten: {ast.unparse(v.elt)[:40]}"
        return "ok", "every entry is copied"
    return "unknown", ast.unparse(v)[:70]


def _r13(ctx, pkg):
    """BaseConfiguration.__init__ is the input stage of the writer: every setting it is handed is stored WHOLE in the field content()
    writes (the argument itself, a copy, an empty default when nothing was given).  A field computed by filtering the argument
    (`[s for s in required_species if s not in self._allowedspecies]`) writes less than what was configured."""
    init = straightened(pkg, "BaseConfiguration", "__init__")
    params = {a.arg for a in init.args.args if a.arg != "self"}
    n = 0
    for st in init.body:
        if not (isinstance(st, ast.Assign) and len(st.targets) == 1 and isinstance(st.targets[0], ast.Attribute) and isinstance(st.targets[0].value, ast.Name)
                and st.targets[0].value.id == "self"):
            continue
        used = {x.id for x in ast.walk(st.value) if isinstance(x, ast.Name) and x.id in params}
        if not used:
            continue
        n += 1
        key = f"BaseConfiguration.__init__: self.{st.targets[0].attr}"
        state, why = carries_whole(st.value)
        if state == "unknown":
            ctx.unrec("R13", key, (CONF, st.lineno), f"cannot tell whether the whole setting is stored: {why}")
        else:
            ctx.check(state == "ok", "R13", key, (CONF, st.lineno), why if state == "ok" else
                      f"`self.{st.targets[0].attr}` is not the setting it was given but a filtered version of it ({why}): entries the user configured never reach "
                      "naunet_config.toml, and `naunet render` builds another network than the API call with the same arguments",
                      expected=f"{sorted(used)[0]}.copy() if {sorted(used)[0]} else <empty>", found=ast.unparse(st.value)[:120])
    ctx.floor("R13", "settings stored by BaseConfiguration.__init__", n, 20, (CONF, init.lineno))


def _r9(ctx, pkg):
    mod = pkg.modules[CONF]
    cfn = _content_writer(pkg)
    n = 0
    flow = None
    var = {_toml_root(cfn): ""}

    def path_of(e):
        if isinstance(e, ast.Name) and e.id in var:
            return var[e.id]
        if isinstance(e, ast.Subscript) and isinstance(e.slice, ast.Constant) and isinstance(e.slice.value, str):
            b = path_of(e.value)
            if b is not None:
                return f"{b}.{e.slice.value}" if b else e.slice.value
        k = _get_key(e)
        if k is not None:
            b = path_of(e.func.value)
            if b is not None:
                return f"{b}.{k}" if b else k
        return None
    for st in [x for x in _in_order(cfn) if isinstance(x, ast.Assign)]:
        t = st.targets[0]
        if isinstance(t, ast.Name):
            p = path_of(st.value)
            if p is not None:
                var[t.id] = p
            continue
        p = path_of(t) if isinstance(t, ast.Subscript) else None
        if p is None or not p.startswith(USER_PATHS) or p == "chemistry.symbol" or p.startswith("chemistry.symbol."):
            continue
        n += 1
        state, why = _whole(st.value, mod)
        if state == "unknown":
            # by value (sa.valueflow): locals and conditions on constants resolved -- `v = self._x; t[k] = v if conv is None else conv(v)` with
            # conv bound to None is the stored field itself
            if flow is None:
                from ..valueflow import Flow
                try:
                    flow = Flow(cfn, CONF)
                except Exception:
                    flow = False
            if flow:
                from ..valueflow import simp, peval
                f_ = next((f for f in flow.facts if f.node is st and f.kind == "store" and f.value is not None), None)
                if f_ is not None:
                    v_ = simp(peval(f_.value, {}))
                    if v_[0] == "attr" and v_[1] == ("param", "self"):
                        state, why = "ok", "the stored field itself (through locals)"
        if state == "unknown":
            ctx.unrec("R9", f"write {p}:whole", (CONF, st.lineno), f"cannot tell whether the whole value reaches the file: {why}")
        else:
            ctx.check(state == "ok", "R9", f"write {p}:whole", (CONF, st.lineno), why if state == "ok" else
                      f"the table written to `{p}` is filtered ({why}): a setting the user made (a rate modifier 0.0 that switches a reaction off, an explicit 0.0 yield) never reaches "
                      "naunet_config.toml, and `naunet render` regenerates different sources", expected="every entry of the stored table", found=ast.unparse(st.value)[:100])
    ctx.floor("R9", "user settings written", n, 18)


def _r1(ctx, pkg):
    mod = pkg.modules[CONF]
    ctx.saw(CONF, "BaseConfiguration.content")
    default = None
    for n in mod.body:
        if isinstance(n, ast.Assign) and isinstance(n.targets[0], ast.Name) and n.targets[0].id == "NAUNET_CONFIG_DEFAULT":
            default = ast.literal_eval(n.value)
    if default is None:
        ctx.missing("R1", "NAUNET_CONFIG_DEFAULT", (CONF, 0), "schema string not found")
        return
    schema = _toml_paths(default)
    cfn = _content_writer(pkg)
    _, writes, wvar = _alias_paths(cfn, {_toml_root(cfn): ""})
    rfn = _render_handle(pkg)
    efn = _untuple(copy.deepcopy(pkg.expanded("ExtendCommand", "handle", keep=("option", "confirm", "call", "line", "argument"))))
    ctx.saw(RENDER, "RenderCommand.handle"), ctx.saw(EXTEND, "ExtendCommand.handle")
    reads, rwrites, rvar = _alias_paths(rfn, {_toml_root(rfn): ""})
    ereads, _, _ = _alias_paths(efn, {_toml_root(efn): ""})
    # a side is READ COMPLETELY when no table of the document is handed whole to something this rule does not follow and the number
    # of paths found reaches the floor; "the other side has no such path" is evidence only then
    w_esc, r_esc = _escaped_tables(cfn, wvar), _escaped_tables(rfn, rvar)
    hidden = lambda p_, esc: any(p_ == q or p_.startswith(q + ".") or q == "" for q in esc)
    allreads = dict(reads)
    allreads.update(ereads)
    tables = {p for p in schema if any(q.startswith(p + ".") for q in schema)}
    leaf_writes = {p for p in writes}
    for p, line in sorted(allreads.items()):
        file = RENDER if p in reads else EXTEND
        in_schema = p in schema
        assigned = p in leaf_writes or any(w.startswith(p + ".") for w in leaf_writes) or any(p.startswith(w + ".") for w in leaf_writes if w not in tables or w in leaf_writes)
        if in_schema and not assigned and (hidden(p, w_esc) or len(writes) < 30):
            ctx.unrec("R1", f"read {p}", (file, line), f"cannot tell whether the writer assigns `{p}`: the writer is not read completely (tables handed on: {sorted(w_esc)[:3]}, {len(writes)} paths found)")
            continue
        ctx.check(in_schema and assigned, "R1", f"read {p}", (file, line),
                  f"`{p}` is in the schema and assigned by the writer" if in_schema and assigned else
                  f"the reader asks for `{p}`, which " + ("the schema does not contain" if not in_schema else "BaseConfiguration.content never assigns"),
                  expected="a path of NAUNET_CONFIG_DEFAULT that content() fills")
    for p, line in sorted(writes.items()):
        in_schema = p in schema or any(p.startswith(s + ".") for s in schema if s.split(".")[-1] in ("symbol",))
        ctx.check(p in schema or p.rsplit(".", 1)[0] in schema, "R1", f"write {p}", (CONF, line), f"`{p}` assigned by the writer is a path of the schema", found=p)
        if p in tables and not p.startswith("summary"):
            continue
        used = p in allreads or any(r.startswith(p + ".") for r in allreads) or p in INFORMATIONAL or p.startswith("summary.")
        if not used and (hidden(p, r_esc) or len(allreads) < 25):
            ctx.unrec("R1", f"written path {p} is read", (CONF, line), f"cannot tell whether a command reads `{p}`: the reader is not read completely (tables handed on: {sorted(r_esc)[:3]}, {len(allreads)} paths found)")
            continue
        ctx.check(used, "R1", f"written path {p} is read", (CONF, line),
                  "read back by a command (or informational by table)" if used else f"`{p}` is written but no command reads it: the setting is lost on the way to the renderer")
    ctx.floor("R1", "key paths read", len(allreads), 25)
    ctx.floor("R1", "key paths written", len(writes), 30)


KW_OPTION = {"description": "description", "load": "loading", "element": "elements", "pseudo_element": "pseudo-elements", "replacement": "element-replacement",
             "allowed_species": "allowed-species", "required_species": "extra-species", "binding_energy": "binding", "photon_yield": "yield",
             "filenames": "network-files", "formats": "file-formats", "heating": "heating", "cooling": "cooling", "shielding": "shielding",
             "grain_model": "grain-model", "rate_modifier": "rate-modifier", "ode_modifier": "ode-modifier", "solver": "solver", "device": "device", "method": "method"}


def _kwargs_dict(fn, callee, kw):
    """keys of the dict display assigned to the local that `callee(..., kw=<local>)` receives"""
    def keys_of(v):
        if isinstance(v, ast.Dict):
            return {k.value for k in v.keys if isinstance(k, ast.Constant)}
        if isinstance(v, ast.Call) and isinstance(v.func, ast.Name) and v.func.id == "dict" and not v.args:
            return {k.arg for k in v.keywords if k.arg}
        return None
    vals = [k.value for c in ast.walk(fn) if isinstance(c, ast.Call) and ast.unparse(c.func) == callee for k in c.keywords if k.arg == kw]
    for v in vals:
        if keys_of(v) is not None:
            return keys_of(v)             # the display written in the call itself
    name = next((v.id for v in vals if isinstance(v, ast.Name)), None)
    if name is None:
        return set()
    for nm in _alias_closure(fn, name):          # `kw = table` (the table built under another name, e.g. by a helper put back)
        for n in ast.walk(fn):
            if isinstance(n, ast.Assign) and isinstance(n.targets[0], ast.Name) and n.targets[0].id == nm and keys_of(n.value) is not None:
                return keys_of(n.value)
    return set()


def _r2(ctx, pkg):
    init = _plain(pkg, "BaseConfiguration", "__init__")
    params = [a.arg for a in init.args.args if a.arg != "self"]
    h = _init_handle(pkg)
    ctx.saw(INIT, "InitCommand.handle")
    calls = [c for c in ast.walk(h) if isinstance(c, ast.Call) and ast.unparse(c.func) == "BaseConfiguration"]
    if len(calls) != 1:
        ctx.unrec("R2", "InitCommand:BaseConfiguration(..)", (INIT, h.lineno), f"expected one construction, found {len(calls)}")
    else:
        c = calls[0]
        given = params[:len(c.args)] + [k.arg for k in c.keywords]
        unknown = [k.arg for k in c.keywords if k.arg is not None and k.arg not in params]        # (`**table`: decided below)
        missing = [p for p in params if p not in given]
        ctx.check(not unknown, "R2", "InitCommand passes only known keywords", (INIT, c.lineno), "every keyword is a parameter of BaseConfiguration", found=str(unknown))
        if missing and (any(k.arg is None for k in c.keywords) or any(isinstance(a, ast.Starred) for a in c.args)):
            ctx.unrec("R2", "InitCommand passes every setting", (INIT, c.lineno), f"arguments are handed on with * / **: cannot tell whether {missing} are supplied")
        else:
            ctx.check(not missing, "R2", "InitCommand passes every setting", (INIT, c.lineno), f"all {len(params)} settings of BaseConfiguration are supplied by the init command", found=f"missing {missing}")
        # each keyword receives the local of the matching option (name agreement, e.g. required_species=extra_species)
        org = _option_origins(h)
        for k in c.keywords:
            if k.arg == "species_kwargs" or k.arg is None:
                continue        # a dictionary of three option values: its keys are decided just below;  `**table`: not read here
            exp = KW_OPTION.get(k.arg)
            got = org.get(k.value.id) if isinstance(k.value, ast.Name) else _origin_of(k.value, org)
            if exp is None:
                ctx.unrec("R2", f"InitCommand:{k.arg}=", (INIT, c.lineno), f"no option is on record for the setting `{k.arg}`")
            else:
                if got is None:
                    ctx.unrec("R2", f"InitCommand:{k.arg}=", (INIT, c.lineno), f"cannot tell which option `{ast.unparse(k.value)[:60]}` derives from")
                    continue
                ctx.check(got == exp, "R2", f"InitCommand:{k.arg}=", (INIT, c.lineno), f"`{k.arg}` receives the value parsed from --{exp}",
                          expected=f"a local derived from self.option({exp!r})", found=f"{ast.unparse(k.value)} (from --{got})")
    # species_kwargs keys
    cfn = _content_writer(pkg)
    looked = []
    kwnames = {"self._species_kwargs"} | {t.id for n in ast.walk(cfn) if isinstance(n, ast.Assign) and ast.unparse(n.value) == "self._species_kwargs" for t in n.targets if isinstance(t, ast.Name)}
    for n in ast.walk(cfn):
        if isinstance(n, ast.Call) and isinstance(n.func, ast.Attribute) and n.func.attr == "get" and ast.unparse(n.func.value) in kwnames and n.args:
            looked.append((n.args[0].value, n.lineno))
        elif isinstance(n, ast.Subscript) and ast.unparse(n.value) in kwnames and isinstance(n.slice, ast.Constant):
            looked.append((n.slice.value, n.lineno))
    stored = _kwargs_dict(h, "BaseConfiguration", "species_kwargs")
    sp_params = {a.arg for a in pkg.method("Species", "__init__").args.args} - {"self", "name"}
    rh = _render_handle(pkg)
    rstored = _kwargs_dict(rh, "Network", "species_kwargs")
    ctx.floor("R2", "species_kwargs lookups", len(looked), 3, (CONF, cfn.lineno))
    for key, line in looked:
        ok = key in stored and key in sp_params
        if not ok and not stored:
            ctx.unrec("R2", f"species_kwargs[{key!r}]", (CONF, line), "the keys the init command stores in species_kwargs were not found (not a dict display bound to the keyword)")
            continue
        ctx.check(ok, "R2", f"species_kwargs[{key!r}]", (CONF, line),
                  f"`{key}` is stored by the init command and is a parameter of Species" if ok else
                  f"the writer looks up species_kwargs[{key!r}], which the init command never stores (keys: {sorted(stored)}): the configured value is ignored and the default written",
                  expected=f"one of {sorted(stored & sp_params)}", found=key)
    if not stored or not rstored or not sp_params:
        # a side whose key table was not found (built another way than a dict display bound to the keyword) says nothing about agreement
        ctx.unrec("R2", "species_kwargs keys", (INIT, h.lineno), f"the symbol keywords of one side were not found: init {sorted(stored)}, render {sorted(rstored)}, Species {sorted(sp_params)}")
    else:
        ctx.check(stored == sp_params == rstored, "R2", "species_kwargs keys", (INIT, h.lineno), "init.py, render.py and Species.__init__ agree on the symbol keywords",
                  found=f"init {sorted(stored)}, render {sorted(rstored)}, Species {sorted(sp_params)}")


def _r3(ctx, pkg):
    h = _example_handle(pkg)
    ctx.saw(EXAMPLE, "ExampleCommand.handle")
    modvar = next((n.targets[0].id for n in ast.walk(h) if isinstance(n, ast.Assign) and isinstance(n.targets[0], ast.Name) and "import_module" in ast.unparse(n.value)), "examplemod")
    attrs = sorted({n.attr for n in ast.walk(h) if isinstance(n, ast.Attribute) and isinstance(n.value, ast.Name) and n.value.id == modvar
                    and not (n.attr.startswith("__") and n.attr.endswith("__"))})          # (__name__, __file__ .. every module has)
    mods = [f for f in pkg.files if f.startswith("naunet/examples/") and f.endswith("__init__.py") and f != "naunet/examples/__init__.py"]
    ctx.floor("R3", "example modules", len(mods), 6)
    for f in mods:
        names = {t.id for n in pkg.modules[f].body if isinstance(n, ast.Assign) for t in n.targets if isinstance(t, ast.Name)}
        miss = [a for a in attrs if a not in names]
        ctx.check(not miss, "R3", f"example {f.split('/')[-2]} defines what the command reads", (f, 0), f"all {len(attrs)} attributes defined" if not miss else f"missing {miss}")
    decl = set()
    node = pkg.cls("InitCommand").attrs.get("options")
    for c in ast.walk(node):
        if isinstance(c, ast.Call) and ast.unparse(c.func) == "option" and c.args and isinstance(c.args[0], ast.Constant):
            decl.add(c.args[0].value)
    used = set()
    from ..valueflow import walk as _walk
    for v in _flow_values(_example_flow(pkg)):
        for x in _walk(v):
            if isinstance(x, tuple) and len(x) == 2 and x[0] == "const" and isinstance(x[1], str):
                for m in re.finditer(r"--([a-z][a-z\-]+)", x[1]):
                    used.add(m.group(1))
    used -= {"select", "dry", "path"}
    ctx.floor("R3", "options composed by the example command", len(used), 20)
    for o in sorted(used):
        if not decl:
            ctx.unrec("R3", f"--{o}", (EXAMPLE, h.lineno), "the option declarations of `naunet init` were not found (not a list of option(..) calls)")
        else:
            ctx.check(o in decl, "R3", f"--{o}", (EXAMPLE, h.lineno), f"--{o} is an option of `naunet init`")


_READER_METHODS = {"split", "rsplit", "strip", "lstrip", "rstrip", "replace", "items", "keys", "values", "get", "append", "extend", "setdefault", "update", "lower", "upper",
                   "option", "validate", "from_iterable", "startswith", "endswith", "copy"}
_READER_FUNCS = {"float", "int", "str", "dict", "list", "tuple", "len", "bool", "zip", "enumerate", "takewhile", "chain", "map", "filter", "iter", "next", "sorted", "reversed", "range",
                 "isinstance", "ValueError", "print"}


def _option_scopes(pkg, h, opt):
    """-> (nodes, understood): the expressions / statements of InitCommand.handle in which the text of option `opt` is taken apart (the
    assigned values and loops that derive from that option only) together with the bodies of the helper methods of the class those call
    with such text (a helper left in place by the expansion: one called inside a comprehension, a generator, ..);  `understood`: every
    call in them is a string / container operation of known meaning -- nothing takes the text apart out of sight (a regular
    expression, partition, a function of another module)"""
    at = _origins_at(h)
    nodes = []
    for n in _in_order(h):
        if isinstance(n, ast.Assign) and at.get(id(n)) == opt:
            nodes.append(n)
        elif isinstance(n, ast.For) and at.get(id(n)) == opt:
            nodes.append(n)
    understood = True
    seen = set()
    todo = list(nodes)
    while todo:
        sc = todo.pop()
        for c in ast.walk(sc):
            if not isinstance(c, ast.Call):
                continue
            f = c.func
            if isinstance(f, ast.Attribute) and isinstance(f.value, ast.Name) and f.value.id in ("self", "cls") and f.attr not in ("option", "validate"):
                callee = pkg.resolve("InitCommand", f.attr)[1] if "InitCommand" in pkg.classes else None
                if callee is None:
                    understood = False
                elif id(callee) not in seen and len(seen) < 8:
                    seen.add(id(callee))
                    nodes.append(callee)
                    todo.append(callee)
            elif isinstance(f, ast.Attribute):
                if f.attr not in _READER_METHODS:
                    understood = False
            elif isinstance(f, ast.Name):
                if f.id not in _READER_FUNCS:
                    understood = False
            else:
                understood = False
    return nodes, understood


def _seps_reader(h, opt, org, pkg=None):
    """separators at which the text of option `opt` is split in InitCommand.handle (and in the helpers it hands such text to)"""
    seps = set()
    if pkg is not None:
        scopes = _option_scopes(pkg, h, opt)[0]
    else:
        at = _origins_at(h)
        scopes = [n for n in _in_order(h) if isinstance(n, (ast.Assign, ast.For)) and at.get(id(n)) == opt]
    for sc in scopes:
        for c in ast.walk(sc.value if isinstance(sc, ast.Assign) else sc):
            if isinstance(c, ast.Call) and isinstance(c.func, ast.Attribute) and c.func.attr in ("split", "rsplit", "partition", "rpartition") and c.args and isinstance(c.args[0], ast.Constant):
                seps.add(c.args[0].value)
    return seps


_WRITER_CALLS = {"map", "starmap", "str", "format", "zip", "repr", "sorted", "list", "tuple", "enumerate", "import_module", "len", "int"}
_WRITER_METHODS = {"items", "keys", "values", "format", "join", "strip", "get", "import_module", "option", "split", "starmap", "choice"}


def _writer_understood(fl, v, seen=None) -> bool:
    """is the composed option value built from text pieces and data by string operations of known meaning only (nothing is hidden in a
    call this rule cannot read)?  Lists grown by appends / strings grown by += are followed to what is appended."""
    from ..valueflow import simp, walk
    seen = seen if seen is not None else set()
    for x in walk(v):
        if not isinstance(x, tuple) or not x or not isinstance(x[0], str):
            continue
        if x[0] == "unknown" or x[0] == "lambda":
            return False
        if x[0] == "call" and not ((x[1][0] == "global" and x[1][1] in _WRITER_CALLS) or (x[1][0] == "attr" and x[1][2] in _WRITER_CALLS)):
            return False
        if x[0] == "meth" and x[2] not in _WRITER_METHODS:
            return False
        if x[0] in ("acc", "carried") and len(x) >= 2 and isinstance(x[1], str) and x[1] not in seen:
            seen.add(x[1])
            for f in fl.facts:
                if f.target == x[1] and f.value is not None and not _writer_understood(fl, simp(f.value), seen):
                    return False
            for a in fl.assigns.get(x[1], []):
                if not _writer_understood(fl, simp(a[0]), seen):
                    return False
    return True


OPTION_SEPS = {"element-replacement": {",", ":"}, "shielding": {",", ":"}, "binding": {",", "="}, "yield": {",", "="}, "rate-modifier": {",", ":"}, "ode-modifier": {";", ":", ","}}


def _r4_r6_r7(ctx, pkg):
    eh = _example_handle(pkg)
    ih = _init_handle(pkg)
    efl = _example_flow(pkg)
    wv = _writer_values(efl)
    org = _option_origins(ih)
    for opt, exp in OPTION_SEPS.items():
        ws = {c for t in (_text_consts(efl, wv[opt]) if opt in wv else ()) for c in t if c in ":;,="}
        rs = _seps_reader(ih, opt, org, pkg)
        good = ws == rs == exp
        # understood and wrong: BOTH sides are read completely (every piece of the composed text reconstructed, the option text taken apart
        # by known string operations only) and they use different characters; a side that goes through something this rule cannot read
        # (a helper of another module, a regular expression, ..) is not evidence of a mismatch
        sure = opt in wv and _writer_understood(efl, wv[opt]) and _option_scopes(pkg, ih, opt)[1] and bool(_option_scopes(pkg, ih, opt)[0])
        if good:
            ctx.ok("R4", f"--{opt} separators", (INIT, ih.lineno), f"the example command joins with {sorted(exp)} and the init command splits at the same characters")
        elif sure:
            ctx.bad("R4", f"--{opt} separators", (INIT, ih.lineno), f"separator mismatch for --{opt}: written with {sorted(ws)}, split at {sorted(rs)}", expected=str(sorted(exp)), found=f"writer {sorted(ws)}, reader {sorted(rs)}")
        else:
            ctx.unrec("R4", f"--{opt} separators", (INIT, ih.lineno), f"cannot read both sides of --{opt} completely: writer pieces {sorted(ws)}, reader splits {sorted(rs)} (expected {sorted(exp)} on both)")
    # R6 lossy split of free text (rate / ODE modifier expressions)
    n6 = 0
    at = _origins_at(ih)
    for opt6 in ("ode-modifier", "rate-modifier"):
        # statements that split pieces of this option and index the result by constants
        # (the statements of handle() that derive from this option, and those of the helpers such text is handed to)
        cands = []
        for sc in _option_scopes(pkg, ih, opt6)[0]:
            if isinstance(sc, ast.Assign):
                cands.append(sc)
            elif isinstance(sc, (ast.FunctionDef, ast.AsyncFunctionDef)):
                cands += [x for x in ast.walk(sc) if (isinstance(x, ast.Assign) and isinstance(x.targets[0], ast.Name)) or (isinstance(x, ast.Return) and x.value is not None)]
        for n in cands:
            if isinstance(n, ast.Return) or isinstance(n.targets[0], ast.Name):
                for c in ast.walk(n.value):
                    if isinstance(c, ast.Call) and isinstance(c.func, ast.Attribute) and c.func.attr == "split" and c.args and isinstance(c.args[0], ast.Constant) and c.args[0].value == ":":
                        n6 += 1
                        maxsplit = len(c.args) > 1 or any(k.arg == "maxsplit" for k in c.keywords)
                        if not maxsplit and isinstance(n, ast.Assign) and n.value is c and isinstance(n.targets[0], ast.Name):
                            # `parts = piece.split(":")` bound to a local: what happens to a surplus piece depends on how `parts` is read
                            pn = n.targets[0].id
                            uses = [(x, par) for sc_ in _option_scopes(pkg, ih, opt6)[0] for par in ast.walk(sc_) for x in ast.iter_child_nodes(par)
                                    if isinstance(x, ast.Name) and x.id == pn and isinstance(x.ctx, ast.Load)]
                            by_index = [par for x, par in uses if isinstance(par, ast.Subscript) and par.value is x and isinstance(par.slice, ast.Constant)]
                            unpacked = [par for x, par in uses if isinstance(par, ast.Assign) and par.value is x and isinstance(par.targets[0], (ast.Tuple, ast.List))
                                        and not any(isinstance(e_, ast.Starred) for e_ in par.targets[0].elts)]
                            if uses and len(unpacked) == len(uses):
                                ctx.ok("R6", f"--{opt6}: split(':')", (INIT, n.lineno), f"`{pn}` is only unpacked into names: a surplus ':' raises instead of dropping text")
                                continue
                            if not by_index:
                                ctx.unrec("R6", f"--{opt6}: split(':')", (INIT, n.lineno), f"`{ast.unparse(n)[:60]}`: how the pieces are read is not decided here")
                                continue
                        if not maxsplit and any(isinstance(j, ast.Call) and isinstance(j.func, ast.Attribute) and j.func.attr == "join" and isinstance(j.func.value, ast.Constant)
                                                and j.func.value.value == ":" for sc_ in _option_scopes(pkg, ih, opt6)[0] for j in ast.walk(sc_)):
                            # the pieces are put together again with ':' somewhere in the parser: whether the tail survives is not read here
                            ctx.unrec("R6", f"--{opt6}: split(':')", (INIT, n.lineno), f"`{ast.unparse(c)[:60]}` cuts at every ':' and the parser re-joins pieces with ':' -- not decided here")
                            continue
                        ctx.check(maxsplit, "R6", f"--{opt6}: split(':')", (INIT, n.lineno),
                                  "the expression after the first ':' is kept whole (maxsplit)" if maxsplit else
                                  "the option value is cut at every ':' and the pieces are read by index [0], [1]: an expression containing ':' (a C conditional) is silently truncated",
                                  expected="split(':', 1)", found=ast.unparse(c))
    # ode-modifier: tuple unpacking raises on a surplus piece (not silent)
    def colon_cut(v):
        """('split', maxsplit?) / ('partition',) for X.split(':'[, n]) / X.partition(':'), else None"""
        if isinstance(v, ast.Call) and isinstance(v.func, ast.Attribute) and v.args and isinstance(v.args[0], ast.Constant) and v.args[0].value == ":":
            if v.func.attr in ("split", "rsplit"):
                return ("split", len(v.args) > 1 or any(k.arg == "maxsplit" for k in v.keywords))
            if v.func.attr in ("partition", "rpartition"):
                return ("partition",)
        return None
    def _bound(v, lp):
        """a local bound exactly once in the loop is what it was bound to"""
        if isinstance(v, ast.Name):
            src = [x for x in ast.walk(lp) if isinstance(x, ast.Assign) and len(x.targets) == 1 and isinstance(x.targets[0], ast.Name) and x.targets[0].id == v.id]
            if len(src) == 1:
                return src[0].value
        return v
    unp = [ast.copy_location(ast.Assign(targets=n.targets, value=_bound(n.value, lp)), n) for lp in _option_loops(ih, org, "ode-modifier") for n in ast.walk(lp)
           if isinstance(n, ast.Assign) and isinstance(n.targets[0], ast.Tuple) and colon_cut(_bound(n.value, lp)) is not None]
    if not unp:
        ctx.unrec("R6", "--ode-modifier: key/value unpacking", (INIT, ih.lineno), "no `key, value = <piece>.split(':')` (or partition) found in the loop over the --ode-modifier occurrences")
    else:
        # split(':') into two names raises on a surplus ':'; split(':', 1) and partition(':') keep the tail -- none drops text silently
        okk = all(len(n.targets[0].elts) == (3 if colon_cut(n.value)[0] == "partition" else 2) and not any(isinstance(e, ast.Starred) for e in n.targets[0].elts) for n in unp)
        ctx.check(okk, "R6", "--ode-modifier: key/value unpacking", (INIT, unp[0].lineno),
                  "`key, value = om.split(':')` raises on a surplus ':' instead of dropping text", found="; ".join(ast.unparse(n)[:60] for n in unp))
    if not n6:
        # .. spelled as an unpacking (`idx, expr = rm.split(":", 1)`), a partition, or inside a loop header: still a cut this rule has seen
        for opt6 in ("ode-modifier", "rate-modifier"):
            for sc in _option_scopes(pkg, ih, opt6)[0]:
                for c in ast.walk(sc):
                    cc = colon_cut(c)
                    if cc is None:
                        continue
                    par = next((x for x in ast.walk(sc) if isinstance(x, ast.Assign) and x.value is c), None)
                    keeps_tail = cc[0] == "partition" or cc[1]
                    unpacked = par is not None and isinstance(par.targets[0], (ast.Tuple, ast.List)) and not any(isinstance(e_, ast.Starred) for e_ in par.targets[0].elts)
                    if keeps_tail or unpacked:
                        n6 += 1
                        ctx.ok("R6", f"--{opt6}: cut at ':'", (INIT, c.lineno), "the text after the first ':' is kept whole (maxsplit / partition), or a surplus ':' raises (unpacking)")
    ctx.floor("R6", "free-text splits", n6, 1, (INIT, ih.lineno))
    # R7 the dependency list of an ODE-modifier term is a multiset (`[C C]` is second order in C): nothing that takes the option text
    # apart -- in handle() or in a helper it hands the text to -- identifies equal names (set / dict.fromkeys / a dict or set keyed by them)
    dd = []
    for sc in _option_scopes(pkg, ih, "ode-modifier")[0]:
        for c in ast.walk(sc):
            if isinstance(c, ast.Call):
                f = ast.unparse(c.func)
                if f in ("set", "frozenset") and c.args or f.endswith("fromkeys"):
                    dd.append((c.lineno, ast.unparse(c)[:80]))
            elif isinstance(c, ast.SetComp):
                dd.append((c.lineno, ast.unparse(c)[:80]))
    for ln, src in dd:
        ctx.bad("R7", f"--ode-modifier: dependency list keeps repeats:{norm_text(src)[:40]}", (INIT, ln),
                f"the species list of an --ode-modifier term goes through `{src}`, which identifies equal names: a term that is second order in one species "
                "(`[C C]`) is written to naunet_config.toml -- and rendered -- as first order", expected="a list with one entry per occurrence", found=src)
    if not dd:
        ctx.ok("R7", "--ode-modifier: dependency list keeps repeats", (INIT, ih.lineno), "no set / dict.fromkeys between the option text and the dependency lists")
    # R7 fresh lists per ODE-modifier entry
    loops = _option_loops(ih, org, "ode-modifier")
    D = _alias_closure(ih, next((k.value.id for c in ast.walk(ih) if isinstance(c, ast.Call) for k in c.keywords if k.arg == "ode_modifier" and isinstance(k.value, ast.Name)), "ode_modifier"))
    ok = False
    found = ""
    if loops:
        lp = loops[0]
        creates = []
        for n in ast.walk(lp):
            if isinstance(n, ast.Assign) and isinstance(n.targets[0], ast.Subscript) and ast.unparse(n.targets[0].value) in D:
                creates.append(n.value)
            if isinstance(n, ast.Call) and isinstance(n.func, ast.Attribute) and n.func.attr == "setdefault" and ast.unparse(n.func.value) in D:
                creates.append(n.args[1] if len(n.args) > 1 else n)
        found = "; ".join(ast.unparse(c)[:70] for c in creates)

        def bound_in_loop(v):
            """a local bound exactly once inside the loop over the occurrences (a new object per pass): the expression it is bound to"""
            if isinstance(v, ast.Name):
                asg = [a for a in ast.walk(lp) if isinstance(a, ast.Assign) and len(a.targets) == 1 and isinstance(a.targets[0], ast.Name) and a.targets[0].id == v.id]
                st_ = [x for x in ast.walk(ih) if isinstance(x, ast.Name) and x.id == v.id and isinstance(x.ctx, ast.Store)]
                # (a look-up of the entry already there -- `e = D.get(k)` / `e = D[k]` -- binds no new object)
                made = [a for a in asg if not ((isinstance(a.value, ast.Call) and isinstance(a.value.func, ast.Attribute) and a.value.func.attr == "get" and ast.unparse(a.value.func.value) in D)
                                               or (isinstance(a.value, ast.Subscript) and ast.unparse(a.value.value) in D))]
                if len(made) == 1 and len(st_) == len(asg):
                    return made[0].value
            return v

        def fresh_list(v):
            v = bound_in_loop(v)
            return isinstance(v, (ast.List, ast.ListComp)) or (isinstance(v, ast.Call) and isinstance(v.func, ast.Name) and v.func.id == "list") or \
                (isinstance(v, ast.Call) and isinstance(v.func, ast.Attribute) and v.func.attr == "split")           # (str.split builds a new list)

        def fresh(c):
            """True: a new dict with lists of its own; False: an object that other entries share; None: not decided here"""
            c = bound_in_loop(c)
            def shared(v):
                """a name / attribute that no statement of the loop binds: one object for every pass"""
                v = bound_in_loop(v)
                return isinstance(v, ast.Attribute) or (isinstance(v, ast.Name) and not any(isinstance(x, ast.Name) and x.id == v.id and isinstance(x.ctx, ast.Store) for x in ast.walk(lp)))
            if isinstance(c, ast.Dict) or (isinstance(c, ast.Call) and isinstance(c.func, ast.Name) and c.func.id == "dict" and not c.args and c.keywords):
                vals = list(c.values) if isinstance(c, ast.Dict) else [k.value for k in c.keywords]
                if all(fresh_list(v) for v in vals):
                    return True
                return False if any(shared(v) for v in vals) else None
            if isinstance(c, ast.Call) and ast.unparse(c.func) in ("copy.deepcopy", "deepcopy") and len(c.args) == 1:
                return True
            if isinstance(c, (ast.Name, ast.Attribute)):
                return False if shared(c) else None             # the same object for every species / a local of the loop this rule does not follow
            if isinstance(c, ast.Call) and ((isinstance(c.func, ast.Attribute) and c.func.attr == "copy" and not c.args) or ast.unparse(c.func) in ("dict", "copy.copy")):
                return False              # a shallow copy: the lists inside are shared
            return None
        verdicts = [fresh(c) for c in creates]
        ok = bool(creates) and all(v is True for v in verdicts)
        if creates and not ok and not any(v is False for v in verdicts):
            ctx.unrec("R7", "--ode-modifier: fresh lists per species", (INIT, lp.lineno), f"cannot tell whether a new ODE-modifier entry owns its lists: {found[:120]}")
            ok = None
    if not loops:
        # no loop over the occurrences of the option was recognised: how the entries are built is not read -- no verdict
        ctx.unrec("R7", "--ode-modifier: fresh lists per species", (INIT, ih.lineno), "the loop over the --ode-modifier occurrences was not found: how a new entry is built is not read")
        ok = None
    if ok is not None:
        ctx.check(ok, "R7", "--ode-modifier: fresh lists per species", (INIT, loops[0].lineno if loops else ih.lineno),
                  "a new entry is a dict display with its own list displays" if ok else
                  "a new ODE-modifier entry is not built from fresh list displays (shared template / shallow copy): the factor lists of different species alias each other",
                  expected="ode_modifier[key] = {'factors': [fact], 'reactants': [rdep]}", found=found)


def _r5(ctx, pkg):
    ih = _plain(pkg, "InitCommand", "handle")
    table = None
    # by value (sa.consteval): a dict bound in handle() or at class level that maps solver names to {device: [methods]}
    from ..consteval import fold, NotConstant, class_attr_resolver
    attr = class_attr_resolver(pkg, "InitCommand")
    cands = [n.value for n in ast.walk(ih) if isinstance(n, ast.Assign) and isinstance(n.targets[0], ast.Name)] + list(pkg.cls("InitCommand").attrs.values())
    cands += [n for n in ast.walk(ih) if isinstance(n, ast.Dict) and not any(n is c for c in cands)]          # the table used where it stands, without a name
    for v in cands:
        if not isinstance(v, (ast.Dict, ast.DictComp, ast.Call)):
            continue
        try:
            val = fold(v, {}, attr)
        except NotConstant:
            continue
        if isinstance(val, dict) and {"cvode", "odeint"} & set(val) and all(isinstance(d, dict) and all(isinstance(ms, (list, tuple)) for ms in d.values()) for d in val.values()):
            table = val
    if table is None:
        ctx.missing("R5", "allowed_method", (INIT, ih.lineno), "solver/method table not found")
        return
    dirs = {f.split("/")[2] for f in J.all_templates(ctx.tree)}
    methods = set()
    for solver, devs in table.items():
        ctx.check(solver in dirs, "R5", f"solver {solver}", (INIT, ih.lineno), f"`{solver}` is a template directory", found=str(sorted(dirs)))
        for dev, ms in devs.items():
            for m in ms:
                if m:
                    methods.add((solver, dev, m))
    branches = set()
    for rel in ctx.tree.glob("naunet/templates/cvode/*/*.j2"):
        for m in re.finditer(r'general\.method\s*==\s*"(\w+)"', ctx.tree.read(rel)):
            branches.add(m.group(1))
    for solver, dev, m in sorted(methods):
        if solver == "cvode":
            ctx.check(m in branches, "R5", f"cvode method {m}", (INIT, ih.lineno), f"the cvode templates have a `general.method == \"{m}\"` branch", found=str(sorted(branches)))
    _r5_example(ctx, pkg, table, {m for _, _, m in methods})


def _fstr_option_locals(fn):
    """{option: expression} interpolated right after `--<option>=` in an f-string of the function (`f"--solver={solver}"`)"""
    out = {}
    for js in ast.walk(fn):
        if isinstance(js, ast.JoinedStr):
            for a, b in zip(js.values, js.values[1:]):
                if isinstance(a, ast.Constant) and isinstance(a.value, str) and isinstance(b, ast.FormattedValue):
                    m = re.search(r"--([a-z][a-z\-]+)='?$", a.value)
                    if m:
                        out.setdefault(m.group(1), b.value)
    return out


def _r5_example(ctx, pkg, table, allm):
    """The cases the example command offers, and the (solver, device, method) triple it composes for each, by VALUE (sa.consteval):
    whatever the case list is spelled as (a literal list, a comprehension over a class-level table, ...) and however solver / device /
    method are derived from the chosen case, every case must end in a method of init.py's table and yield a combination the table allows."""
    from ..consteval import fold, run, NotConstant, class_attr_resolver
    eh = _fold_cond_assigns(copy.deepcopy(_example_handle(pkg)))          # the interpreter below reads assignments: `if c: x = a else: x = b` as `x = a if c else b`
    attr = class_attr_resolver(pkg, "ExampleCommand")
    # by role: the list handed to self.choice(<question>, <list>, ..) -- the same local that `--select` indexes
    lst = next((c.args[1] for c in ast.walk(eh) if isinstance(c, ast.Call) and isinstance(c.func, ast.Attribute) and c.func.attr == "choice" and len(c.args) >= 2), None)
    casevar = next((n.targets[0].id for n in ast.walk(eh) if isinstance(n, ast.Assign) and isinstance(n.targets[0], ast.Name)
                    and any(isinstance(c, ast.Call) and isinstance(c.func, ast.Attribute) and c.func.attr == "choice" for c in ast.walk(n.value))), None)
    cases = None
    if lst is not None:
        try:
            env0 = run(eh.body, {}, attr)
            cases = fold(lst, env0, attr)
        except NotConstant as ex:
            ctx.unrec("R5", "example cases", (EXAMPLE, eh.lineno), f"the list of example cases is not a constant this rule can compute: {ex}")
            return
    if not isinstance(cases, (list, tuple)) or not all(isinstance(c, str) and "/" in c for c in cases) or casevar is None:
        ctx.missing("R5", "example cases", (EXAMPLE, eh.lineno), "the list of `example/method` cases offered by self.choice(..) was not found")
        return
    for c in sorted({x.split("/")[-1] for x in cases}):
        ctx.check(c in allm, "R5", f"example case suffix {c}", (EXAMPLE, eh.lineno), f"`{c}` is a method of init.py's table")
    ctx.floor("R5", "example cases", len(cases), 20)
    # by role: the locals whose reconstructed value (sa.valueflow) is what the composed command line carries after `--solver=`,
    # `--device=`, `--method=` -- however that line is put together; an expression interpolated directly in an f-string is taken as it is
    from ..valueflow import simp as _simp
    efl = _example_flow(pkg)
    wv = _writer_values(efl)
    opts = dict(_fstr_option_locals(eh))
    for k in ("solver", "device", "method"):
        if k in wv:
            nm = next((nm for nm, lst in efl.assigns.items() if any(_simp(a_[0]) == wv[k] for a_ in lst)), None)
            if nm is not None:
                opts[k] = ast.Name(id=nm, ctx=ast.Load())
    if not all(k in opts for k in ("solver", "device", "method")):
        ctx.unrec("R5", "example solver/device derivation", (EXAMPLE, eh.lineno), "the --solver= / --device= / --method= pieces of the composed command line were not found")
        return
    # the statements after the case was chosen, at the top level of handle()
    start = next((i for i, st in enumerate(eh.body) if any(isinstance(x, ast.Name) and x.id == casevar and isinstance(x.ctx, ast.Store) for x in ast.walk(st))), 0)
    bad, unknown = [], []
    for c in cases:
        env = run(eh.body[start + 1:], {casevar: c}, attr)
        try:
            sv, dv, mv = (fold(opts[k], env, attr) for k in ("solver", "device", "method"))
        except NotConstant as ex:
            unknown.append(f"{c}: {ex}")
            continue
        if mv not in (table.get(sv, {}) or {}).get(dv, []):
            bad.append(f"{c} -> --solver={sv} --device={dv} --method={mv}")
    if unknown:
        ctx.unrec("R5", "example solver/device derivation", (EXAMPLE, eh.lineno), f"cannot compute the composed solver/device/method for {unknown[0]}")
    else:
        ctx.check(not bad, "R5", "example solver/device derivation", (EXAMPLE, eh.lineno),
                  "solver and device are derived from the method suffix consistently with the table: every case composes a (solver, device, method) combination init.py allows",
                  expected="a combination of init.py's solver/method table for every case", found="; ".join(bad[:4]))


def _r8(ctx, pkg):
    rh = _render_handle(pkg)
    # events in execution order: the statements of handle() as they run (bodies of nested defs / lambdas run when called: a call of a
    # local def that builds a Species counts as a construction at the call)
    builders = {d.name for d in ast.walk(rh) if isinstance(d, (ast.FunctionDef, ast.AsyncFunctionDef)) and d is not rh
                and any(isinstance(c, ast.Call) and ast.unparse(c.func) == "Species" for c in ast.walk(d))}
    events = []

    def scan(node):
        for ch in ast.iter_child_nodes(node):
            if isinstance(ch, (ast.FunctionDef, ast.AsyncFunctionDef, ast.Lambda, ast.ClassDef)):
                continue
            scan(ch)
            if isinstance(ch, ast.Assign) and ast.unparse(ch.targets[0]) == "Species._replacement":
                events.append(("Species._replacement", ch))
            if isinstance(ch, ast.Call):
                f = ast.unparse(ch.func)
                if f in ("Species.set_known_elements", "Species.set_known_pseudoelements"):
                    events.append((f, ch))
                elif f == "Species" or f in builders:
                    events.append(("Species(..)", ch))

    def in_order(stmts):
        for st in stmts:
            if isinstance(st, (ast.FunctionDef, ast.AsyncFunctionDef, ast.ClassDef)):
                continue
            heads = [getattr(st, a) for a in ("value", "test", "iter") if isinstance(getattr(st, a, None), ast.AST)] + \
                [i.context_expr for i in getattr(st, "items", [])] + (list(st.targets) if isinstance(st, ast.Assign) else [])
            if isinstance(st, ast.Assign) and ast.unparse(st.targets[0]) == "Species._replacement":
                for h_ in heads:
                    scan_expr(h_)
                events.append(("Species._replacement", st))
            else:
                for h_ in heads:
                    scan_expr(h_)
            for fld in ("body", "orelse", "finalbody"):
                b = getattr(st, fld, None)
                if isinstance(b, list) and b and isinstance(b[0], ast.stmt):
                    in_order(b)
            for hd in getattr(st, "handlers", []) or []:
                in_order(hd.body)

    def scan_expr(e):
        for c in ast.walk(e):
            if isinstance(c, (ast.Lambda,)):
                continue
            if isinstance(c, ast.Call):
                f = ast.unparse(c.func)
                if f in ("Species.set_known_elements", "Species.set_known_pseudoelements"):
                    events.append((f, c))
                elif f == "Species" or f in builders:
                    events.append(("Species(..)", c))
    in_order(rh.body)
    first_species = next((i for i, (k, _) in enumerate(events) if k == "Species(..)"), None)
    for name in ("Species._replacement", "Species.set_known_elements", "Species.set_known_pseudoelements"):
        pos = next((i for i, (k, _) in enumerate(events) if k == name), None)
        if pos is None:
            # not installed by a statement of handle() this rule reads (another spelling, a helper): R12 decides whether the value arrives
            ctx.unrec("R8", f"RenderCommand installs {name} first", (RENDER, rh.lineno), f"no statement of RenderCommand.handle was recognised as the installation of {name}")
            continue
        ok = first_species is None or pos < first_species
        line = events[pos][1].lineno
        ctx.check(ok, "R8", f"RenderCommand installs {name} first", (RENDER, line),
                  f"{name} is installed before any Species is constructed" if ok else
                  f"{name} is installed at line {line} but a Species(..) is constructed at line {events[first_species][1].lineno}, earlier in the run: names in the binding-energy / yield tables "
                  "are parsed with the previous tables and configured values silently fall back to the built-in ones",
                  expected="installation before the first Species(..)")
    # the values installed are the ones read from the file
    _, _, var = _alias_paths(rh, {_toml_root(rh): ""}, derive=True)
    inst = {}
    for n in ast.walk(rh):
        if isinstance(n, ast.Assign) and ast.unparse(n.targets[0]) == "Species._replacement":
            inst["replacement"] = var.get(n.value.id) if isinstance(n.value, ast.Name) else None
        if isinstance(n, ast.Call) and ast.unparse(n.func) in ("Species.set_known_elements", "Species.set_known_pseudoelements") and n.args:
            inst["elements" if n.func.attr == "set_known_elements" else "pseudo_elements"] = var.get(n.args[0].id) if isinstance(n.args[0], ast.Name) else None
    want_inst = {k: f"chemistry.element.{k}" for k in ("replacement", "elements", "pseudo_elements")}
    # understood and wrong: a table of ANOTHER configuration path is installed; a value whose origin is not followed is not read here
    _three(ctx, inst == want_inst, all(v is not None for v in inst.values()) and len(inst) == 3, "R8", "RenderCommand installs the configured tables", (RENDER, rh.lineno),
           "the installed tables are chemistry.element.{replacement, elements, pseudo_elements} of the file", found=str(inst))
    # Network(...) receives every setting read
    calls = [c for c in ast.walk(rh) if isinstance(c, ast.Call) and ast.unparse(c.func) == "Network"]
    if calls:
        opaque = any(k.arg is None for k in calls[0].keywords) or bool(calls[0].args)
        kw = {k.arg: (var.get(k.value.id) if isinstance(k.value, ast.Name) else _single_path(k.value, var)) for k in calls[0].keywords if k.arg}
        want = {"filelist": "chemistry.network.files", "fileformats": "chemistry.network.formats", "elements": "chemistry.element.elements", "pseudo_elements": "chemistry.element.pseudo_elements",
                "allowed_species": "chemistry.species.allowed", "required_species": "chemistry.species.required", "grain_model": "chemistry.grain.model",
                "heating": "chemistry.thermal.heating", "cooling": "chemistry.thermal.cooling", "shielding": "chemistry.shielding", "rate_modifier": "chemistry.rate_modifier",
                "ode_modifier": "chemistry.ode_modifier"}
        for k, v in want.items():
            # understood and wrong: the keyword receives ANOTHER configured value, or is absent from a call written out in full; a value
            # whose origin is not followed / arguments handed on with * or ** are not read here
            sure = (k in kw and kw[k] is not None) or (k not in kw and not opaque)
            _three(ctx, kw.get(k) == v, sure, "R8", f"Network({k}=)", (RENDER, calls[0].lineno), f"Network receives the configured `{v}` as `{k}`", expected=v, found=str(kw.get(k)))
        if not any(k.arg == "species_kwargs" for k in calls[0].keywords) and opaque:
            ctx.unrec("R8", "Network(species_kwargs=)", (RENDER, calls[0].lineno), "arguments are handed on with * / **")
        else:
            ctx.check(any(k.arg == "species_kwargs" for k in calls[0].keywords), "R8", "Network(species_kwargs=)", (RENDER, calls[0].lineno), "Network receives the symbol keywords")


def _single_path(e, var):
    """the one configuration path the locals of an expression stand for (a converted copy written in place: `{int(k): v for k, v in
    rate_modifier.items()}`), else None"""
    ps = {var[x.id] for x in ast.walk(e) if isinstance(x, ast.Name) and x.id in var and var[x.id]}
    return next(iter(ps)) if len(ps) == 1 else None


def _three(ctx, ok, sure, rule, key, where, msg, expected=None, found=None):
    """DISCHARGED / VIOLATION only when the construct was understood (`sure`) / else UNRECOGNISED"""
    if ok:
        ctx.ok(rule, key, where, msg)
    elif sure:
        ctx.bad(rule, key, where, msg, expected, found)
    else:
        ctx.unrec(rule, key, where, f"not read completely ({msg[:80]}): {str(found)[:120]}")


MUTANTS = [
    {"name": "render-forgets-photon-yields", "file": RENDER, "old": "        update_photon_yield(yields)\n", "new": "", "rules": ["R12"]},
    {"name": "render-swaps-heating-cooling", "file": RENDER, "old": "            heating=heating,\n            cooling=cooling,", "new": "            heating=cooling,\n            cooling=heating,", "rules": ["R8", "R12"]},
    {"name": "render-reindexes-half-indexed", "file": RENDER, "old": '        dupes, dupidx, first = net.find_duplicate_reaction(mode="short")', "new": '        if any(r.idxfromfile == -1 for r in net.reaction_list):\n            net.reindex()\n        dupes, dupidx, first = net.find_duplicate_reaction(mode="short")', "rules": ["R10"]},
    {"name": "formats-deduplicated", "file": INIT, "old": '        formats = [f.strip() for f in formats.split(",") if f]', "new": '        formats = list(dict.fromkeys(f.strip() for f in formats.split(",") if f))', "rules": ["R11"]},
    {"name": "writer-drops-falsy-modifiers", "file": CONF, "old": "            str(key): value for key, value in self._ratemodifier.items()\n", "new": "            str(key): value for key, value in self._ratemodifier.items() if value\n", "rules": ["R9"]},
    {"name": "writer-compacts-yields-via-helper", "edits": [
        {"file": CONF, "old": "class BaseConfiguration:\n", "new": "def _compact(table):\n    return {str(k): v for k, v in table.items() if v}\n\n\nclass BaseConfiguration:\n"},
        {"file": CONF, "old": '        chem_species["photon_yield"] = self._photonyield\n', "new": '        chem_species["photon_yield"] = _compact(self._photonyield)\n'}], "rules": ["R9"]},
    {"name": "symbol-key-typo", "file": CONF, "old": '"surface": self._species_kwargs.get("surface_prefix", "#"),', "new": '"surface": self._species_kwargs.get("surf_prefix", "#"),', "rules": ["R2"]},
    {"name": "bulk-key-typo-again", "file": CONF, "old": 'self._species_kwargs.get("bulk_prefix", "@")', "new": 'self._species_kwargs.get("builk_prefix", "@")', "rules": ["R2"]},
    {"name": "keyword-renamed-at-call", "file": INIT, "old": "            pseudo_element=pseudo_element,\n", "new": "            pseudo_elements=pseudo_element,\n", "rules": ["R2"]},
    {"name": "example-missing-attribute", "file": "naunet/examples/minimal/__init__.py", "old": "ode_modifier = {}\n", "new": "", "rules": ["R3"]},
    {"name": "method-table-rosenbrock", "file": INIT, "old": '"odeint": {"cpu": ["rosenbrock4"], "gpu": [""]},', "new": '"odeint": {"cpu": ["rosenbrock"], "gpu": [""]},', "rules": ["R5"]},
    {"name": "rate-modifier-lossy-split", "file": INIT, "old": 'rate_modifier = [rm.split(":", 1) for rm in rate_modifier]', "new": 'rate_modifier = [rm.split(":") for rm in rate_modifier]', "rules": ["R6"]},
    {"name": "ode-modifier-shared-template", "file": INIT, "old": "                if ode_modifier.get(key):\n                    ode_modifier[key][\"factors\"].append(fact)\n                    ode_modifier[key][\"reactants\"].append(rdep)\n                else:\n                    ode_modifier[key] = {\n                        \"factors\": [fact],\n                        \"reactants\": [rdep],\n                    }\n",
     "new": "                entry = ode_modifier.setdefault(key, empty.copy())\n                entry[\"factors\"].append(fact)\n                entry[\"reactants\"].append(rdep)\n", "rules": ["R7"]},
    {"name": "replacement-installed-late", "edits": [
        {"file": RENDER, "old": "        Species._replacement = replacement\n        Species.set_known_elements(element)", "new": "        Species.set_known_elements(element)"},
        {"file": RENDER, "old": "        update_binding_energy(binding)\n", "new": "        Species._replacement = replacement\n        update_binding_energy(binding)\n"}], "rules": ["R8"]},
    {"name": "reader-unknown-key", "file": RENDER, "old": 'grain_model = chem_grain["model"]', "new": 'grain_model = chem_grain["grain_model"]', "rules": ["R1"]},
    {"name": "writer-drops-shielding", "file": CONF, "old": '        chemistry["shielding"] = self._shielding\n', "new": "", "rules": ["R1"]},
    {"name": "binding-separator", "file": EXAMPLE, "old": 'bindingstr = ",".join(f"{s}={sv}" for s, sv in binding.items())', "new": 'bindingstr = ",".join(f"{s}:{sv}" for s, sv in binding.items())', "rules": ["R4"]},
    # hardening round 4: the accepted helper / loop / format spellings carrying a defect
    {"name": "writer-helper-forgets-method", "edits": [
        {"file": CONF, "old": "    @property\n    def content(self) -> str:\n", "new": "    def _fill_solver(self, table) -> None:\n        table[\"solver\"] = self._solver\n        table[\"device\"] = self._device\n\n    @property\n    def content(self) -> str:\n"},
        {"file": CONF, "old": "        odesolver = content[\"ODEsolver\"]\n        odesolver[\"solver\"] = self._solver\n        odesolver[\"device\"] = self._device\n        odesolver[\"method\"] = self._method\n", "new": "        self._fill_solver(content[\"ODEsolver\"])\n"}], "rules": ["R1"]},
    {"name": "rate-modifier-loop-lossy-split", "file": INIT, "old": "        rate_modifier = self.option(\"rate-modifier\")\n        rate_modifier = [rm.strip() for l in rate_modifier for rm in l.split(\",\")]\n        rate_modifier = [rm.split(\":\", 1) for rm in rate_modifier]\n        rate_modifier = {rm[0].strip(): rm[1].strip() for rm in rate_modifier}\n", "new": "        rate_modifier = {}\n        for text in self.option(\"rate-modifier\"):\n            for piece in text.split(\",\"):\n                pair = piece.strip().split(\":\")\n                rate_modifier[pair[0].strip()] = pair[1].strip()\n", "rules": ["R6"]},
    {"name": "shielding-format-separator", "file": EXAMPLE, "old": 'shieldingstr = ",".join(f"{key}: {val}" for key, val in shielding.items())', "new": 'shieldingstr = ",".join("{}={}".format(key, val) for key, val in shielding.items())', "rules": ["R4"]},
    {"name": "network-not-passed-cooling", "file": RENDER, "old": "            cooling=cooling,\n", "new": "            cooling=heating,\n", "rules": ["R8"]},
    # hardening round 5
    {"name": "example-device-from-substring-sparse", "file": EXAMPLE, "old": '"gpu" if "cusparse" in case', "new": '"gpu" if "sparse" in case', "rules": ["R5"]},
    {"name": "example-case-table-unknown-method", "edits": [{"file": EXAMPLE, "old": '    def __init__(self):\n        super(ExampleCommand, self).__init__()\n', "new": '    _ALL = ("dense", "sparse", "cusparse", "rosenbrock4")\n    _CASES = (\n        ("empty", _ALL),\n        ("minimal", _ALL),\n        ("primordial", _ALL),\n        ("deuterium", _ALL),\n        ("cloud", ("dense", "sparse", "rosenbrock4")),\n        ("ism", ("dense", "sparse", "cusparse", "bdf")),\n    )\n\n    def __init__(self):\n        super(ExampleCommand, self).__init__()\n'}, {"file": EXAMPLE, "old": '        networklist = [\n            "empty/dense",\n            "empty/sparse",\n            "empty/cusparse",\n            "empty/rosenbrock4",\n            "minimal/dense",\n            "minimal/sparse",\n            "minimal/cusparse",\n            "minimal/rosenbrock4",\n            "primordial/dense",\n            "primordial/sparse",\n            "primordial/cusparse",\n            "primordial/rosenbrock4",\n            "deuterium/dense",\n            "deuterium/sparse",\n            "deuterium/cusparse",\n            "deuterium/rosenbrock4",\n            "cloud/dense",\n            "cloud/sparse",\n            "cloud/rosenbrock4",\n            "ism/dense",\n            "ism/sparse",\n            "ism/cusparse",\n        ]\n', "new": '        networklist = [\n            "/".join((ex_, how_))\n            for ex_, hows_ in self._CASES\n            for how_ in hows_\n        ]\n'}], "rules": ["R5"]},
    {"name": "writer-update-forgets-method", "file": CONF, "old": '        odesolver = content["ODEsolver"]\n        odesolver["solver"] = self._solver\n        odesolver["device"] = self._device\n        odesolver["method"] = self._method\n', "new": '        content["ODEsolver"].update({"solver": self._solver, "device": self._device})\n', "rules": ["R1"]},
    # hardening wave 3
    {"name": "solver-table-comprehension-wrong-key", "file": CONF, "old": '        odesolver["solver"] = self._solver\n        odesolver["device"] = self._device\n', "new": '        chosen = {"solver": self._solver, "device": self._device}\n        entries = {f"ode_{k}": v for k, v in chosen.items()}\n        for key, val in entries.items():\n            odesolver[key] = val\n', "rules": ["R1"]},
    {"name": "input-stage-filters-required-species", "file": CONF, "old": "        self._extraspecies = required_species.copy() if required_species else []\n", "new": "        self._extraspecies = [s for s in (required_species or []) if s not in self._allowedspecies]\n", "rules": ["R13"]},
    {"name": "input-stage-dedups-formats", "file": CONF, "old": "        self._formats = formats.copy() if formats else []\n", "new": "        self._formats = list(dict.fromkeys(formats)) if formats else []\n", "rules": ["R13"]},
    {"name": "ode-modifier-dependencies-deduplicated", "file": INIT, "old": '                rdep = rdep.replace("[", "").replace("]", "").strip().split()\n', "new": '                rdep = list(dict.fromkeys(rdep.replace("[", "").replace("]", "").strip().split()))\n', "rules": ["R7"]},
    {"name": "ode-modifier-parser-helper-dedups", "edits": [
        {"file": INIT, "old": '                rdep = rdep.replace("[", "").replace("]", "").strip().split()\n', "new": '                rdep = self._names(rdep)\n'},
        {"file": INIT, "old": "    def option(self, key=None):\n", "new": "    @staticmethod\n    def _names(text):\n        return sorted(set(text.replace(\"[\", \"\").replace(\"]\", \"\").split()))\n\n    def option(self, key=None):\n"}], "rules": ["R7"]},
    {"name": "rate-modifier-helper-splits-at-equals", "edits": [
        {"file": INIT, "old": '        rate_modifier = [rm.split(":", 1) for rm in rate_modifier]\n', "new": '        rate_modifier = [self._pair(rm) for rm in rate_modifier]\n'},
        {"file": INIT, "old": "    def option(self, key=None):\n", "new": "    @staticmethod\n    def _pair(text):\n        return text.split(\"=\", 1)\n\n    def option(self, key=None):\n"}], "rules": ["R4"]},
    {"name": "render-network-kwargs-table-swapped", "file": RENDER, "old": "        net = Network(\n            filelist=files,\n            fileformats=formats,\n            elements=element,\n            pseudo_elements=pseudo_element,\n            allowed_species=allowed_species,\n            required_species=extra_species,\n            species_kwargs=species_kwargs,\n            grain_model=grain_model,\n            heating=heating,\n            cooling=cooling,\n            shielding=shielding,\n            rate_modifier=rate_modifier,\n            ode_modifier=ode_modifier,\n        )\n",
     "new": "        opts = {\"filelist\": files, \"fileformats\": formats, \"elements\": element, \"pseudo_elements\": pseudo_element, \"allowed_species\": extra_species, \"required_species\": allowed_species, \"species_kwargs\": species_kwargs, \"grain_model\": grain_model, \"heating\": heating, \"cooling\": cooling, \"shielding\": shielding, \"rate_modifier\": rate_modifier, \"ode_modifier\": ode_modifier}\n        net = Network(**opts)\n", "rules": ["R8", "R12"]},
]
BENIGN = [
    # hardening wave 3
    {"name": "input-stage-list-or-empty", "file": CONF, "old": "        self._extraspecies = required_species.copy() if required_species else []\n", "new": "        self._extraspecies = list(required_species or [])\n"},
    {"name": "render-network-kwargs-table", "file": RENDER, "old": "        net = Network(\n            filelist=files,\n            fileformats=formats,\n            elements=element,\n            pseudo_elements=pseudo_element,\n            allowed_species=allowed_species,\n            required_species=extra_species,\n            species_kwargs=species_kwargs,\n            grain_model=grain_model,\n            heating=heating,\n            cooling=cooling,\n            shielding=shielding,\n            rate_modifier=rate_modifier,\n            ode_modifier=ode_modifier,\n        )\n",
     "new": "        opts = {\"filelist\": files, \"fileformats\": formats, \"elements\": element, \"pseudo_elements\": pseudo_element, \"allowed_species\": allowed_species, \"required_species\": extra_species, \"species_kwargs\": species_kwargs, \"grain_model\": grain_model, \"heating\": heating, \"cooling\": cooling, \"shielding\": shielding, \"rate_modifier\": rate_modifier, \"ode_modifier\": ode_modifier}\n        net = Network(**opts)\n"},
    {"name": "rate-modifier-pair-helper", "edits": [
        {"file": INIT, "old": '        rate_modifier = [rm.split(":", 1) for rm in rate_modifier]\n', "new": '        rate_modifier = [self._pair(rm) for rm in rate_modifier]\n'},
        {"file": INIT, "old": "    def option(self, key=None):\n", "new": "    @staticmethod\n    def _pair(text):\n        return text.split(\":\", 1)\n\n    def option(self, key=None):\n"}]},
    {"name": "example-pairs-through-starmap", "edits": [
        {"file": EXAMPLE, "old": "import shutil\n", "new": "import shutil\nfrom itertools import starmap\n"},
        {"file": EXAMPLE, "old": 'bindingstr = ",".join(f"{s}={sv}" for s, sv in binding.items())', "new": 'bindingstr = ",".join(starmap("{}={}".format, binding.items()))'}]},
    {"name": "summary-from-comprehension-over-table", "file": CONF, "old": '        summary["list_of_elements"] = self._network_elements\n        summary["list_of_species"] = self._network_species\n',
     "new": '        named = {"elements": self._network_elements, "species": self._network_species}\n        entries = {f"list_of_{grp}": names for grp, names in named.items()}\n        for key, names in entries.items():\n            summary[key] = names\n'},
    {"name": "summary-from-literal-table", "file": CONF, "old": '        summary["list_of_elements"] = self._network_elements\n        summary["list_of_species"] = self._network_species\n', "new": '        for grp, names in {"elements": self._network_elements, "species": self._network_species}.items():\n            summary[f"list_of_{grp}"] = names\n'},
    # hardening round 4
    {"name": "writer-fills-through-helper", "edits": [
        {"file": CONF, "old": "    @property\n    def content(self) -> str:\n", "new": "    def _fill_solver(self, table) -> None:\n        table[\"solver\"] = self._solver\n        table[\"device\"] = self._device\n        table[\"method\"] = self._method\n\n    @property\n    def content(self) -> str:\n"},
        {"file": CONF, "old": "        odesolver = content[\"ODEsolver\"]\n        odesolver[\"solver\"] = self._solver\n        odesolver[\"device\"] = self._device\n        odesolver[\"method\"] = self._method\n", "new": "        self._fill_solver(content[\"ODEsolver\"])\n"}]},
    {"name": "rate-modifier-explicit-loop", "file": INIT, "old": "        rate_modifier = self.option(\"rate-modifier\")\n        rate_modifier = [rm.strip() for l in rate_modifier for rm in l.split(\",\")]\n        rate_modifier = [rm.split(\":\", 1) for rm in rate_modifier]\n        rate_modifier = {rm[0].strip(): rm[1].strip() for rm in rate_modifier}\n", "new": "        rate_modifier = {}\n        for text in self.option(\"rate-modifier\"):\n            for piece in text.split(\",\"):\n                pair = piece.strip().split(\":\", 1)\n                rate_modifier[pair[0].strip()] = pair[1].strip()\n"},
    {"name": "shielding-str-format", "file": EXAMPLE, "old": 'shieldingstr = ",".join(f"{key}: {val}" for key, val in shielding.items())', "new": 'shieldingstr = ",".join("{}: {}".format(key, val) for key, val in shielding.items())'},
    {"name": "option-by-concatenation", "file": EXAMPLE, "old": "f\"--shielding='{shieldingstr}'\",", "new": "\"--shielding=\" + \"'\" + format(shieldingstr) + \"'\","},
    {"name": "kwargs-reordered", "file": INIT, "old": "            solver=solver,\n            device=device,\n            method=method,\n        )", "new": "            method=method,\n            device=device,\n            solver=solver,\n        )"},
    # hardening round 5
    {"name": "example-cases-from-class-table", "edits": [{"file": EXAMPLE, "old": '    def __init__(self):\n        super(ExampleCommand, self).__init__()\n', "new": '    _ALL = ("dense", "sparse", "cusparse", "rosenbrock4")\n    _CASES = (\n        ("empty", _ALL),\n        ("minimal", _ALL),\n        ("primordial", _ALL),\n        ("deuterium", _ALL),\n        ("cloud", ("dense", "sparse", "rosenbrock4")),\n        ("ism", ("dense", "sparse", "cusparse")),\n    )\n\n    def __init__(self):\n        super(ExampleCommand, self).__init__()\n'}, {"file": EXAMPLE, "old": '        networklist = [\n            "empty/dense",\n            "empty/sparse",\n            "empty/cusparse",\n            "empty/rosenbrock4",\n            "minimal/dense",\n            "minimal/sparse",\n            "minimal/cusparse",\n            "minimal/rosenbrock4",\n            "primordial/dense",\n            "primordial/sparse",\n            "primordial/cusparse",\n            "primordial/rosenbrock4",\n            "deuterium/dense",\n            "deuterium/sparse",\n            "deuterium/cusparse",\n            "deuterium/rosenbrock4",\n            "cloud/dense",\n            "cloud/sparse",\n            "cloud/rosenbrock4",\n            "ism/dense",\n            "ism/sparse",\n            "ism/cusparse",\n        ]\n', "new": '        networklist = [\n            "/".join((ex_, how_))\n            for ex_, hows_ in self._CASES\n            for how_ in hows_\n        ]\n'}]},
    {"name": "writer-section-update", "file": CONF, "old": '        odesolver = content["ODEsolver"]\n        odesolver["solver"] = self._solver\n        odesolver["device"] = self._device\n        odesolver["method"] = self._method\n', "new": '        content["ODEsolver"].update({"solver": self._solver, "device": self._device, "method": self._method})\n'},
    {"name": "writer-rate-modifier-dict-zip", "file": CONF, "old": '        chemistry["rate_modifier"] = {\n            str(key): value for key, value in self._ratemodifier.items()\n        }\n', "new": '        chemistry["rate_modifier"] = dict(zip(map(str, self._ratemodifier.keys()), self._ratemodifier.values()))\n'},
    {"name": "writer-symbol-lookup-alias", "edits": [
        {"file": CONF, "old": '        chemistry["symbol"] = {\n', "new": '        lookup = self._species_kwargs.get\n        chemistry["symbol"] = {\n'},
        {"file": CONF, "old": 'self._species_kwargs.get("grain_symbol", "GRAIN")', "new": 'lookup("grain_symbol", "GRAIN")'},
        {"file": CONF, "old": 'self._species_kwargs.get("surface_prefix", "#")', "new": 'lookup("surface_prefix", "#")'},
        {"file": CONF, "old": 'self._species_kwargs.get("bulk_prefix", "@")', "new": 'lookup("bulk_prefix", "@")'}]},
    # hardening wave 4: everyday spellings around the writer, the option parser, the render command and the example command
    {'name': 'writer-element-table-through-fill-helper', 'edits': [{'file': CONF, 'old': '    @property\n    def content(self) -> str:\n', 'new': '    @staticmethod\n    def _fill(table, values: dict) -> None:\n        for key, value in values.items():\n            table[key] = value\n\n    @property\n    def content(self) -> str:\n'}, {'file': CONF, 'old': '        chem_element["elements"] = self._element\n        chem_element["pseudo_elements"] = self._pseudoelement\n        chem_element["replacement"] = self._replacement\n', 'new': '        self._fill(chem_element, {"elements": self._element, "pseudo_elements": self._pseudoelement, "replacement": self._replacement})\n'}]},
    {'name': 'writer-copies-lists', 'file': CONF, 'old': '        chem_species["allowed"] = self._allowedspecies\n', 'new': '        chem_species["allowed"] = list(self._allowedspecies)\n'},
    {'name': 'init-list-option-by-loop', 'file': INIT, 'old': '        heating = [h.strip() for h in heating.split(",") if h]\n', 'new': '        heating_items = []\n        for h in heating.split(","):\n            if h:\n                heating_items.append(h.strip())\n        heating = heating_items\n'},
    {'name': 'init-list-option-module-helper', 'edits': [{'file': INIT, 'old': 'class InitCommand(', 'new': 'def _split_list(text):\n    return [item.strip() for item in text.split(",") if item]\n\n\nclass InitCommand('}, {'file': INIT, 'old': '        heating = [h.strip() for h in heating.split(",") if h]\n', 'new': '        heating = _split_list(heating)\n'}, {'file': INIT, 'old': '        cooling = [c.strip() for c in cooling.split(",") if c]\n', 'new': '        cooling = _split_list(cooling)\n'}]},
    {'name': 'init-settings-collected-in-a-dict', 'edits': [{'file': INIT, 'old': '            solver=solver,\n            device=device,\n            method=method,\n        )\n', 'new': '            **solver_settings,\n        )\n'}, {'file': INIT, 'old': '        config = BaseConfiguration(\n', 'new': '        solver_settings = dict(solver=solver, device=device, method=method)\n        config = BaseConfiguration(\n'}]},
    {'name': 'render-network-keywords-in-a-dict', 'file': RENDER, 'old': '        net = Network(\n            filelist=files,\n            fileformats=formats,\n            elements=element,\n            pseudo_elements=pseudo_element,\n            allowed_species=allowed_species,\n            required_species=extra_species,\n            species_kwargs=species_kwargs,\n            grain_model=grain_model,\n            heating=heating,\n            cooling=cooling,\n            shielding=shielding,\n            rate_modifier=rate_modifier,\n            ode_modifier=ode_modifier,\n        )\n', 'new': '        network_kwargs = dict(\n            filelist=files,\n            fileformats=formats,\n            elements=element,\n            pseudo_elements=pseudo_element,\n            allowed_species=allowed_species,\n            required_species=extra_species,\n            species_kwargs=species_kwargs,\n            grain_model=grain_model,\n            heating=heating,\n            cooling=cooling,\n            shielding=shielding,\n            rate_modifier=rate_modifier,\n            ode_modifier=ode_modifier,\n        )\n        net = Network(**network_kwargs)\n'},
    {'name': 'render-tables-read-with-get', 'file': RENDER, 'old': '        heating = chem_thermal["heating"]\n        cooling = chem_thermal["cooling"]\n', 'new': '        heating = chem_thermal.get("heating")\n        cooling = chem_thermal.get("cooling")\n'},
    {'name': 'render-installs-tables-in-a-helper', 'edits': [{'file': RENDER, 'old': '        Species._replacement = replacement\n        Species.set_known_elements(element)\n        Species.set_known_pseudoelements(pseudo_element)\n', 'new': '        self._install_species_tables(replacement, element, pseudo_element)\n'}, {'file': RENDER, 'old': '    def handle(self):\n', 'new': '    @staticmethod\n    def _install_species_tables(replacement, element, pseudo_element):\n        from naunet.species import Species\n\n        Species._replacement = replacement\n        Species.set_known_elements(element)\n        Species.set_known_pseudoelements(pseudo_element)\n\n    def handle(self):\n'}]},
    {'name': 'example-binding-pieces-by-loop', 'file': EXAMPLE, 'old': '        bindingstr = ",".join(f"{s}={sv}" for s, sv in binding.items())\n', 'new': '        bindingparts = []\n        for s, sv in binding.items():\n            bindingparts.append(f"{s}={sv}")\n        bindingstr = ",".join(bindingparts)\n'},
    {'name': 'example-separator-constant', 'edits': [{'file': EXAMPLE, 'old': 'class ExampleCommand(', 'new': 'ITEM_SEP = ","\n\n\nclass ExampleCommand('}, {'file': EXAMPLE, 'old': '        bindingstr = ",".join(f"{s}={sv}" for s, sv in binding.items())\n', 'new': '        bindingstr = ITEM_SEP.join(f"{s}={sv}" for s, sv in binding.items())\n'}]},
    {'name': 'init-ode-split-bound-then-unpacked', 'file': INIT, 'old': '                key, value = om.split(":")\n', 'new': '                pieces = om.split(":")\n                key, value = pieces\n'},
]
