"""C01 -- generated RHS is the mass-action law (generator-shape obligations)."""
from __future__ import annotations

from .. import calg, jmodel as J
from ..core import AnalysisError, norm_text
from ..cskel import Skel
from ..odemodel import model, Y, YDOT, FILE, not_understood
from ..valueflow import as_map, lower, match, V, show, simp, prefix_map, norm_bv, walk

EXPLANATION = (
    "Rules over the emission sites of TemplateLoader._prepare_ode_content (use-def reconstruction of every store "
    "into rhs[], parsed as C): R1 rhs initialised to n_eqns copies of '0.0'; R2/R3 per reaction exactly one loss "
    "store (row over the reactant LIST, '- k[rl]*prod(y[IDX_r] for r in reactants)') and one gain store (row over "
    "the product list, '+' the identical monomial), unconditional; R4 y/lhs/fex bind rows to IDX_<alias> over the "
    "same species list; R5 no other writer of rhs; R6 reactant/product lists are built through _create_species "
    "with a None filter (a comprehension filter or a guarded append loop), _create_species rejects pseudo-elements and every Species is truthy "
    "(no __bool__/__len__), so the filter drops None only; R7 heating '+', cooling '-', wrapped once by "
    "(gamma-1)*(..)/kerg/npar into row n_spec, IDX_TGAS = NSPECIES; R8 each back-end RHS function pastes ode.fex "
    "through whitespace-only filters exactly once; R12 no function of the package edits <reaction>.reactants / .products (or an alias of "
    "one) in place outside the reaction's own construction -- the terms are assembled from those lists after the rates were built from them; "
    "R6 also: _create_species returns None only for empty names and exact members of the known pseudo-elements (by return paths, predicate "
    "helpers read through). A verdict VIOLATION needs a construct the analysis reads completely; values built where it did not follow "
    "(unreadable helpers, foreign lists, unknown filters) answer UNRECOGNISED. Decides the shape of the generator, not values.")
ASSUMPTIONS = [
    "str.join / f-string / list semantics of Python; Jinja for-loops iterate their sequence in order",
    "species.index(x) returns the slot of x (uniqueness of slots is C09)",
    "reactions built by user subclasses that bypass Component._create_species are out of scope",
]

TEMPLATES = {
    "cvode": "naunet/templates/cvode/src/naunet_fex.cpp.j2",
    "odeint": "naunet/templates/odeint/src/naunet_ode.cpp.j2",
}
CONFIGS = [
    ("cvode/dense", TEMPLATES["cvode"], {"general.method": "dense"}, "Fex"),
    ("cvode/sparse", TEMPLATES["cvode"], {"general.method": "sparse"}, "Fex"),
    ("cvode/cusparse", TEMPLATES["cvode"], {"general.method": "cusparse"}, "FexKernel"),
    ("odeint/rosenbrock4", TEMPLATES["odeint"], {"general.method": "rosenbrock4"}, "Fex::operator()"),
]


def where(site):
    return (FILE, site.line)


def flag_understood(m, v) -> bool:
    """v is a truth value computed from the heating / cooling lists alone (len, bool, comparisons with constants, and / or / not,
    conditional expressions): the analysis can tell whether it is "the network has a thermal process" (OdeModel.is_has_thermal)"""
    v = simp(v)
    if v in (m.HEAT, m.COOL) or v[0] == "const":
        return True
    if v[0] == "call" and v[1][0] == "global" and v[1][1] in ("len", "bool", "int", "any", "all") and not v[3]:
        return all(flag_understood(m, a) for a in v[2])
    if v[0] in ("list", "tuple"):
        return all(flag_understood(m, a) for a in v[1])
    if v[0] == "cmp":
        return all(flag_understood(m, a) for a in v[2])
    if v[0] == "bool":
        return all(flag_understood(m, a) for a in v[2])
    if v[0] == "unop":
        return flag_understood(m, v[2])
    if v[0] == "binop":
        return flag_understood(m, v[2]) and flag_understood(m, v[3])
    if v[0] in ("ifexp", "phi"):
        return all(flag_understood(m, a) for a in v[1:4])
    return False


def size_understood(m, v) -> bool:
    """v is arithmetic over the number of species, integer constants and thermal flags the analysis can read"""
    v = simp(v)
    if m.is_n_spec(v) or m.is_n_eqns(v) or (v[0] == "const" and isinstance(v[1], (int, bool))):
        return True
    if v[0] == "binop" and v[1] in ("Add", "Sub", "Mult"):
        return size_understood(m, v[2]) and size_understood(m, v[3])
    if v[0] == "call" and v[1] in (("global", "max"), ("global", "min")) and not v[3]:
        return all(size_understood(m, a) for a in v[2])
    return flag_understood(m, v)


def site_key(site):
    return f"_prepare_ode_content:{site.array}:{site.kind}"


def report_problems(ctx, rule, site, allow=()):
    ok = True
    for sev, code, msg in site.problems:
        if code in allow:
            continue
        ok = False
        key = f"{site_key(site)}:{code}"
        if sev == "unrec":
            ctx.unrec(rule, key, where(site), msg)
        else:
            ctx.bad(rule, key, where(site), msg, found=site.text or None)
    return ok


def guards_ok(ctx, rule, site, allowed=lambda g, pol: False):
    # (a test that the very list an enclosing loop walks is non-empty -- `if rows:` around / inside `for r in rows:` -- holds for every
    # iteration: it is no condition on the term)
    iters = set()
    for lp in site.fact.loops:
        it = simp(lp.iter)
        iters.add(it)
        if it[0] == "call" and it[1] in (("global", "enumerate"), ("global", "list"), ("global", "tuple")) and len(it[2]) >= 1:
            iters.add(simp(it[2][0]))
    lens = {("call", ("global", "len"), (it,), ()) for it in iters}
    bad = [(g, p) for g, p in site.fact.guards if not allowed(g, p) and not (p is True and (simp(g) in iters or simp(g) in lens))]
    if bad:
        ctx.bad(rule, f"{site_key(site)}:conditional", where(site),
                "term is emitted only under a condition: " + "; ".join(("" if p else "not ") + show(g)[:90] for g, p in bad),
                expected="unconditional accumulation for every occurrence", found=site.text)
        return False
    return True


def check(ctx):
    m = model(ctx.tree)
    ctx.saw(FILE, "TemplateLoader._prepare_ode_content")
    fl = m.flow
    rhs_sites = [s for s in m.sites if s.array == "rhs"]

    # ---- R1 init ------------------------------------------------------------
    inits = [s for s in rhs_sites if s.kind == "init"]
    if len(inits) != 1:
        ctx.missing("R1", "rhs-init", (FILE, m.func.lineno), f"expected one initialisation of rhs, found {len(inits)}")
    else:
        v = simp(inits[0].fact.value)
        # n copies of one constant: [c] * n, n * [c], [c for _ in range(n)]
        b = match(("binop", "Mult", ("list", (V("c"),)), V("n")), v) or match(("binop", "Mult", V("n"), ("list", (V("c"),))), v)
        if not b and v[0] == "comp" and v[1] == "list" and len(v[3]) == 1 and not v[3][0][2] and v[2][0] == "const":
            r = match(("call", ("global", "range"), (V("n"),), ()), v[3][0][1])
            b = {"c": v[2], "n": r["n"]} if r else None
        if not b:
            # list(itertools.repeat(c, n))
            r = match(("call", ("global", "list"), (("call", ("global", "repeat"), (V("c"), V("n")), ()),), ()), v) or \
                match(("call", ("global", "list"), (("meth", ("global", "itertools"), "repeat", (V("c"), V("n")), ()),), ()), v)
            b = r or None
        if not b or b["c"][0] != "const":
            ctx.unrec("R1", "rhs-init", where(inits[0]), f"rhs is not created as n copies of a constant: {show(v)[:120]}")
        elif b["c"] == ("const", "0.0") and not m.is_n_eqns(b["n"]) and not size_understood(m, b["n"]):
            # a length computed somewhere the analysis does not follow is not a wrong length
            ctx.unrec("R1", "rhs-init", where(inits[0]), f"the number of entries of rhs is not understood: {show(simp(b['n']))[:120]}")
        else:
            ctx.check(b["c"] == ("const", "0.0") and m.is_n_eqns(b["n"]), "R1", "rhs-init", where(inits[0]),
                      "rhs = ['0.0'] * n_eqns with n_eqns = max(n_spec + has_thermal, 1)",
                      expected="['0.0'] * max(len(species) + has_thermal, 1)", found=show(v))

    reaction_sites(ctx, m)

    # ---- R4 slot binding ----------------------------------------------------
    _r4(ctx, m)

    # ---- R5 who writes rhs ----------------------------------------------------
    n_other = 0
    for s in rhs_sites:
        if s.kind == "other":
            n_other += 1
            report_problems(ctx, "R5", s)
            if not s.problems:
                ctx.unrec("R5", f"{site_key(s)}:writer", where(s), "unclassified store into rhs")
    ctx.check(True, "R5", "rhs:writers", (FILE, m.func.lineno),
              f"{len(rhs_sites)} stores into rhs classified: " + ", ".join(sorted(s.kind for s in rhs_sites))) if not n_other else None
    # stores into rhs from other functions of the module
    ctx.floor("R5", "rhs stores", len(rhs_sites), 7, (FILE, m.func.lineno))
    # every store precedes the construction of the statements that paste rhs
    from ..odemodel import write_read_order
    last, first = write_read_order(m, "rhs")
    if last is None or first is None:
        ctx.unrec("R5", "rhs:write-before-use", (FILE, m.func.lineno), "cannot locate the last store into rhs / the construction of fex")
    else:
        ctx.check(last.seq < first[0], "R5", "rhs:write-before-use", (FILE, last.line),
                  "all terms (and the thermal prefactor) are in rhs before the ydot statements are built from it" if last.seq < first[0] else
                  f"rhs is still modified at line {last.line} after line {first[1]} where {first[2]}: the emitted statements miss that update",
                  expected="stores into rhs, then fex = [...]", found=f"last store line {last.line}, consumer line {first[1]}")

    # ---- R7 thermal equation ----------------------------------------------------
    _r7(ctx, m, rhs_sites)
    _numdens(ctx)

    # ---- R6 pseudo-reactants ----------------------------------------------------
    _r6(ctx)

    # ---- R8 emission in templates -------------------------------------------------
    _r8(ctx)
    rhs_writers(ctx, "R9")
    # occurrences count: no set / dict keyed by the species stands between a reactant list and the terms built from it
    from ..multiplicity import rule as multiplicity_rule
    multiplicity_rule(ctx, "R10", ['ode'], "the right-hand side")
    # each rendering is computed from the network of that call: the renderer keeps no memo between two renderings (shared with C17.R7)
    from .c17 import stateless_renderer
    from ..pymodel import package as _package
    stateless_renderer(ctx, _package(ctx.tree), "R11")
    # the reactions the terms are assembled from are the input reactions: nothing edits their lists in place after construction
    reaction_lists_frozen(ctx, "R12")


def reaction_sites(ctx, m, r_loss="R2", r_gain="R3"):
    """R2/R3 (also the first clause of C04): one unconditional loss store and one gain store per
    reaction, same monomial."""
    rhs_sites = [s for s in m.sites if s.array == "rhs"]
    # ---- R2/R3 reaction sites -------------------------------------------------
    loss = [s for s in rhs_sites if s.kind == "loss"]
    gain = [s for s in rhs_sites if s.kind == "gain"]
    for name, lst, sign in (("loss", loss, -1), ("gain", gain, +1)):
        rule = r_loss if name == "loss" else r_gain
        if len(lst) != 1:
            # (a store whose row list could not be identified is filed under "loss": then neither the count nor its sign says anything)
            unfiled = any(s.role is None for s in lst)
            (ctx.missing if not lst else ctx.unrec if unfiled else ctx.bad)(rule, f"rhs:{name}:count", (FILE, m.func.lineno),
                                               f"expected exactly one {name} store into rhs per reaction, found {len(lst)}"
                                               + ("" if not lst else " at lines " + ", ".join(str(s.line) for s in lst)))
        for s in lst:
            ok = report_problems(ctx, rule, s)
            ok &= guards_ok(ctx, rule, s)
            if s.role is None and any(sev == "unrec" for sev, _, _ in s.problems):
                continue
            if s.sign != sign and not any(c == "not-a-term" for _, c, _ in s.problems):
                ctx.bad(rule, f"{site_key(s)}:sign", where(s), f"{name} term has sign {s.sign:+d}",
                        expected=f"{sign:+d}", found=s.text)
                ok = False
            # loops: exactly [reaction loop, row loop]
            if ok and len(s.fact.loops) != 2:
                ctx.bad(rule, f"{site_key(s)}:loops", where(s),
                        f"store is nested in {len(s.fact.loops)} loops; expected the reaction loop and the row loop only")
                ok = False
            if ok:
                ctx.ok(rule, site_key(s), where(s),
                       f"row over react.{'reactants' if name == 'loss' else 'products'} (list), term {s.text!r} = "
                       f"{sign:+d} * k[rl] * prod(y[IDX_r.alias] for r in react.reactants)")
    # R3: identical monomial (value number)
    if len(loss) == 1 and len(gain) == 1 and loss[0].seq and gain[0].seq:
        a, b = loss[0], gain[0]
        same = (a.coeff == b.coeff and a.seq["base"] == b.seq["base"] and
                norm_bv((a.seq["bv"], a.seq["body"], a.seq["base"], a.seq["ifs"])) ==
                norm_bv((b.seq["bv"], b.seq["body"], b.seq["base"], b.seq["ifs"])))
        ctx.check(same, r_gain, "rhs:gain==loss monomial", where(b),
                  "gain and loss sites use the same rate*abundance monomial (same reconstruction)",
                  expected=a.text, found=b.text)



def _list_with_tail(v):
    """A list value that is a base list L, plus one constant element when a condition holds, however spelled:
    `L; if c: L.append(x)`  |  `L + ([x] if c else [])`  |  `(L + [x]) if c else L`.   -> (L, cond, x) | (v, None, None)"""
    v = simp(v)

    def plus_one(a):
        if a[0] == "appended":
            return a[1], a[2]
        if a[0] == "binop" and a[1] == "Add" and a[3][0] == "list" and len(a[3][1]) == 1:
            return a[2], a[3][1][0]
        return None
    if v[0] in ("phi", "ifexp"):
        a = plus_one(v[2])
        if a and a[0] == v[3]:
            return v[3], v[1], a[1]
    if v[0] == "binop" and v[1] == "Add" and v[3][0] == "ifexp" and v[3][3] == ("list", ()) and v[3][2][0] == "list" and len(v[3][2][1]) == 1:
        return v[2], v[3][1], v[3][2][1][0]
    return v, None, None


def _paired_rows(fv):
    """fex as (element expression in terms of ("L",) / ("R",), left list, right list): `[.. for l, r in zip(A, B)]` or
    `[.. A[i] .. B[i] .. for i in range(..)]`; None when the shape is not one of these"""
    from ..valueflow import subst
    if not (fv and fv[0] == "comp" and len(fv[3]) == 1):
        return None
    tg, it, ifs = fv[3][0]
    if ifs:
        return None
    b = match(("call", ("global", "zip"), (V("a"), V("b")), ()), it)
    if b and tg[0] == "tuple" and len(tg[1]) == 2:
        return simp(subst(fv[2], {tg[1][0]: ("L",), tg[1][1]: ("R",)})), b["a"], b["b"]
    if it[0] == "call" and it[1] == ("global", "range") and len(it[2]) == 1 and tg[0] == "bv":
        subs = {x for x in _subterms(fv[2]) if isinstance(x, tuple) and len(x) == 3 and x[0] == "sub" and x[2] == tg}
        bases = sorted({x[1] for x in subs}, key=str)
        if len(bases) == 2:
            for a, b_ in (bases, bases[::-1]):
                e = simp(subst(fv[2], {("sub", a, tg): ("L",), ("sub", b_, tg): ("R",)}))
                if not any(x == tg for x in _subterms(e)) and e[0] == "fstr" and e[1] and e[1][0][:2] == ("fmt", ("L",)):
                    return e, a, b_
    return None


def _compound_assignment(ctx, elt):
    """(helper name, line, text) when the statement text `elt` is produced by a helper of TemplateLoader / of the module whose
    string templates contain a compound assignment operator (`+=`, `-=`, `{sign}=` ...), else None"""
    import ast
    import re
    from ..pymodel import package
    pkg = package(ctx.tree)
    for x in walk(elt):
        if not (isinstance(x, tuple) and x and x[0] in ("meth", "call")):
            continue
        fn = None
        if x[0] == "meth" and x[1] in (("param", "self"), ("param", "cls")):
            fn = pkg.resolve("TemplateLoader", x[2])[1]
        elif x[0] == "call" and x[1][0] == "global":
            fn = pkg.functions.get((FILE, x[1][1]))
        if fn is None:
            continue
        for n in ast.walk(fn):
            if isinstance(n, ast.JoinedStr):
                for i, part in enumerate(n.values):
                    if isinstance(part, ast.Constant) and isinstance(part.value, str):
                        after_hole = i > 0 and isinstance(n.values[i - 1], ast.FormattedValue)
                        if re.search(r"[-+*/]=(?!=)", part.value) or (after_hole and re.match(r"=(?!=)", part.value)):
                            return fn.name, n.lineno, ast.unparse(n)[:120]
            elif isinstance(n, ast.Constant) and isinstance(n.value, str) and re.search(r"\w\]?\s*[-+*/]=(?!=)", n.value):
                return fn.name, n.lineno, repr(n.value)[:120]
    return None


def _r4(ctx, m):
    fl = m.flow
    env = fl.env
    # the locals are found by ROLE, not by name: fex = 4th field of the returned ODEContent, lhs = first list paired into it,
    # y = the local list whose entries are 'y[IDX_<alias>]'
    fex_v = lhs_v = None
    for f in fl.facts:
        if f.kind == "return" and f.value and f.value[0] == "meth" and f.value[2] == "ODEContent":
            v = f.value
            fex_v = simp(v[3][3]) if len(v[3]) >= 4 else next((simp(x) for k, x in v[4] if k == "fex"), None)
    pr = _paired_rows(fex_v)
    if pr:
        lhs_v = pr[1]
    yv = None
    for nm, val in env.items():
        if not val:
            continue
        base_l = _list_with_tail(val)[0]
        pm0 = prefix_map(base_l) if base_l[0] in ("comp", "copy", "appended", "phi") else None
        if pm0 and pm0[1] == Y(pm0[0]):
            yv = val
    for what, lv, SYM, tail, expected in (("y", yv, Y, "y[IDX_TGAS]", "[f'y[IDX_{x.alias}]' for x in netinfo.species]"),
                                        ("lhs", lhs_v, YDOT, "ydot[IDX_TGAS]", "[f'ydot[IDX_{x.alias}]' for x in netinfo.species]")):
        if lv is None:
            ctx.unrec("R4", what, (FILE, m.func.lineno), f"`{what}` not reconstructible" if what == "lhs" else "abundance symbol list `y` not reconstructible")
            continue
        L, cond, x = _list_with_tail(lv)
        pm = prefix_map(L) if L[0] in ("comp", "copy", "appended", "phi") else None
        if not pm:
            ctx.unrec("R4", what, (FILE, m.func.lineno), f"`{what}` not reconstructible" if what == "lhs" else "abundance symbol list `y` not reconstructible")
            continue
        bv, body, base, ifs = pm
        okb = base == m.SPEC and not ifs and body == SYM(bv)
        if not okb and (not_understood(base) or not_understood(body) or any(not_understood(c) for c in ifs)):
            ctx.unrec("R4", f"{what}-binding", (FILE, m.func.lineno), f"how the entries of `{what}` are computed from the species list is not understood: {show(simp(lv))[:160]}")
        else:
            ctx.check(okb, "R4", f"{what}-binding", (FILE, m.func.lineno),
                      f"{what}[i] = '{tail.split('[')[0]}[IDX_<alias of species[i]>]' over the unfiltered species list",
                      expected=expected, found=show(simp(lv))[:160])
        # thermal tail
        if cond is None or x[0] != "const" or not (m.is_has_thermal(cond) or flag_understood(m, cond)):
            ctx.unrec("R4", f"{what}-thermal", (FILE, m.func.lineno), f"how `{what}` gets its temperature entry is not understood: {show(simp(lv))[:120]}")
        else:
            ctx.check(m.is_has_thermal(cond) and x == ("const", tail), "R4", f"{what}-thermal", (FILE, m.func.lineno),
                      f"{what} gets '{tail}' appended exactly when has_thermal", found=show(simp(lv))[:160])
    lv = lhs_v
    fv = fex_v
    if fv is not None and pr is None:
        ctx.unrec("R4", "fex-zip", (FILE, m.func.lineno), f"how the statements pair lhs with rhs is not understood: {show(fv)[:160]}")
    else:
        ok = False
        plain = False
        if pr:
            elt, a, b = pr
            want = ("fstr", (("fmt", ("L",), None, -1), ("const", " = "), ("fmt", ("R",), None, -1), ("const", ";")))
            ok = elt == want and b == m.RHS
            # wrong only when the statement text is made of the two paired entries and literal text, and the right-hand entries are
            # a table this function fills; anything else is a pairing that is not understood
            plain = elt[0] == "fstr" and all(p_[0] == "const" or (p_[0] == "fmt" and p_[1] in (("L",), ("R",))) for p_ in elt[1]) and (b[0] == "acc" or a[0] == "acc")
        comp = _compound_assignment(ctx, elt) if pr and not ok and not plain else None
        if comp:
            # every row is ONE statement `lhs = <the whole sum>;`: a builder that emits `lhs -= a + b` style statements changes the sign
            # of the later terms of a chunk / splits the sum the Jacobian and the conservation argument are about
            ctx.bad("R4", "fex-zip", (FILE, comp[1]),
                    f"the statement builder `{comp[0]}` emits compound assignments (`lhs <op>= ...`): the row is no longer the single assignment of the accumulated sum",
                    expected="f'{l} = {r};'", found=comp[2])
        elif fv is None or (pr and not ok and not plain):
            ctx.unrec("R4", "fex-zip", (FILE, m.func.lineno), f"how the statements pair lhs with rhs is not understood: {show(fv)[:160] if fv else 'fex not found'}")
        else:
            ctx.check(ok, "R4", "fex-zip", (FILE, m.func.lineno),
                      "fex = [f'{l} = {r};' for l, r in zip(lhs, rhs)] pairs row i of lhs with row i of rhs",
                      found=show(fv)[:200] if fv else None)
    # fex is what ODEContent receives
    rets = [f for f in fl.facts if f.kind == "return"]
    okret = False
    for f in rets:
        v = f.value
        if v and v[0] == "meth" and v[2] == "ODEContent":
            okret = len(v[3]) >= 4 and simp(v[3][3]) == fv or any(k == "fex" and simp(x) == fv for k, x in v[4])
            ctx.check(okret, "R4", "ODEContent.fex", (FILE, f.line), "the 4th field of ODEContent (fex) is the zipped list",
                      found=show(v)[:160])
    if not rets:
        ctx.missing("R4", "return", (FILE, m.func.lineno), "no return in _prepare_ode_content")
    # macro header: IDX_TGAS = NSPECIES and IDX_<alias> loop.index0 over network.species (shared with C09)
    rel = "naunet/templates/base/cpp/include/naunet_macros.h.j2"
    txt = ctx.tree.read(rel)
    ctx.saw(rel)
    import re
    # what the header prints (sets, value macros and `{{ "text" }}` outputs followed), loops and unknown values as holes
    flat = "".join(p_[1] if p_[0] == "lit" else "\x00" for p_ in J.printed(ctx.tree, J.flatten(ctx.tree, rel, {}), {}))
    mt = re.search(r"#[ \t]*define[ \t]+IDX_TGAS[ \t]+([^\s]+)", flat)
    if not mt or "\x00" in mt.group(1):
        ctx.unrec("R4", "IDX_TGAS", (rel, 0), "no `#define IDX_TGAS <constant>` found in the macro header")
    else:
        val = mt.group(1).strip("()")
        ctx.check(val == "NSPECIES", "R4", "IDX_TGAS", (rel, flat[:mt.start()].count("\n") + 1),
                  "IDX_TGAS is defined as NSPECIES (row n_spec)", expected="NSPECIES", found=mt.group(1))


def _r7(ctx, m, rhs_sites):
    for kind, sign, sym in (("heat", +1, "kh"), ("cool", -1, "kc")):
        lst = [s for s in rhs_sites if s.kind == kind]
        if len(lst) != 1:
            (ctx.bad if lst else ctx.missing)("R7", f"rhs:{kind}:count", (FILE, m.func.lineno),
                                               f"expected exactly one {kind} store into rhs, found {len(lst)}")
        for s in lst:
            ok = report_problems(ctx, "R7", s)
            ok &= guards_ok(ctx, "R7", s)
            if s.sign != sign and not any(c == "not-a-term" for _, c, _ in s.problems):
                ctx.bad("R7", f"{site_key(s)}:sign", where(s), f"{kind}ing term has sign {s.sign:+d}", expected=f"{sign:+d}", found=s.text)
                ok = False
            if ok and len(s.fact.loops) != 1:
                ctx.bad("R7", f"{site_key(s)}:loops", where(s), "thermal store must sit directly in the loop over the processes")
                ok = False
            if ok:
                ctx.ok("R7", site_key(s), where(s), f"row n_spec += {s.text!r}")
    wraps = [s for s in rhs_sites if s.kind == "wrap"]
    if len(wraps) != 1:
        (ctx.bad if wraps else ctx.missing)("R7", "rhs:wrap:count", (FILE, m.func.lineno),
                                             f"expected exactly one (gamma-1)/kerg/npar wrap of rhs[n_spec], found {len(wraps)}")
    for s in wraps:
        report_problems(ctx, "R7", s)
        g_ok = len(s.fact.guards) == 1 and s.fact.guards[0][1] is True and m.is_has_thermal(s.fact.guards[0][0]) and not s.fact.loops
        if not g_ok and any(not (m.is_has_thermal(g) or flag_understood(m, g)) for g, _ in s.fact.guards):
            # a condition that is not a test of the heating / cooling lists: when the wrap is applied is not understood
            ctx.unrec("R7", "rhs:wrap:guard", where(s), "the condition under which rhs[n_spec] is rewritten is not understood: "
                      + "; ".join(show(g)[:60] for g, _ in s.fact.guards))
        else:
            ctx.check(g_ok, "R7", "rhs:wrap:guard", where(s), "wrap applied exactly once, under `if has_thermal`",
                      found="; ".join(show(g)[:60] for g, _ in s.fact.guards))
        if s.row is not None:       # (a row that is not understood has been reported with the site's problems)
            ctx.check(s.row == ("tgas",), "R7", "rhs:wrap:row", where(s), "wrap rewrites row n_spec", found=str(s.row))
        lw = lower(s.value)
        okw = None
        try:
            holes = [h for h in lw.holes.values()]
            slot = ("sub", m.RHS, m.N_SPEC)
            if len(holes) == 1 and (holes[0] == ("fmt", slot, None, -1) or holes[0] == slot) and not lw.seqs:
                hn = next(iter(lw.holes))
                okw = calg.canon_str(lw.text).equiv(calg.canon_str(f"(gamma - 1.0) * ({hn}) / kerg / npar"))
        except calg.CParseError:
            okw = False
        if okw is None:
            # the new text is not `<literal text> <what was accumulated in this row> <literal text>`: a value built elsewhere
            ctx.unrec("R7", "rhs:wrap:form", where(s), f"the text stored into rhs[n_spec] is not reconstructible around the accumulated terms: {lw.text[:100]} "
                      f"with {', '.join(show(h)[:60] for h in lw.holes.values())[:160]}")
        else:
            ctx.check(okw, "R7", "rhs:wrap:form", where(s), "rhs[n_spec] = (gamma-1)*(rhs[n_spec])/kerg/npar",
                      expected="(gamma - 1.0) * ( <accumulated> ) / kerg / npar", found=lw.text)


def _numdens(ctx):
    """npar = GetNumDens(y) is the sum of the NSPECIES abundances (the temperature slot excluded)."""
    rel = "naunet/templates/base/cpp/src/naunet_physics.cpp.j2"
    ctx.saw(rel)
    import re
    sk = Skel(J.flatten(ctx.tree, rel, {}))
    fs = sk.func("GetNumDens")
    if not fs:
        ctx.missing("R7", "GetNumDens", (rel, 0), "GetNumDens not found")
        return
    # parsed as C statements: one accumulator starting at zero, one counting loop over [0, NSPECIES) adding y[i], returned
    from .. import cstmt as CS
    key = "GetNumDens:species only"
    try:
        tree_ = CS.parse_body(sk.plain(fs[0].body))
    except CS.CStmtError as ex:
        ctx.unrec("R7", key, (rel, 0), f"GetNumDens body does not parse: {ex}")
        tree_ = None
    if tree_ is not None:
        stmts = [st for st, _ in CS.walk(tree_) if st[0] not in ("block",)]
        loops = [st for st in stmts if st[0] == "for"]
        rets = [st for st in stmts if st[0] == "return"]
        n = CS.norm
        verdict, found = None, re.sub(r"\s+", " ", sk.plain(fs[0].body))[:160]
        if len(loops) != 1 or len(rets) != 1 or any(st[0] in ("if", "while", "dowhile", "try") for st in stmts):
            verdict = "unrec"
        else:
            lp = loops[0]
            mi = re.fullmatch(r"(?:int|size_t|unsignedint|unsigned)?([A-Za-z_]\w*)=(\w+)", n(lp[1]))
            iv = mi.group(1) if mi else None
            mc = re.fullmatch(r"([A-Za-z_]\w*)(<|<=|!=)(\w+)", n(lp[2])) if iv else None
            step = iv is not None and n(lp[3]) in (f"{iv}++", f"++{iv}", f"{iv}+=1", f"{iv}={iv}+1")
            body = [st for st, _ in CS.walk(lp[4]) if st[0] == "expr" and st[1]]
            acc = n(rets[0][1])
            ma = None
            if len(body) == 1 and iv:
                b = n(body[0][1])
                ma = re.fullmatch(rf"{re.escape(acc)}\+=(.+)", b) or re.fullmatch(rf"{re.escape(acc)}={re.escape(acc)}\+(.+)", b) if re.fullmatch(r"[A-Za-z_]\w*", acc) else None
            decl = [st for st in stmts if st[0] == "expr" and re.fullmatch(rf"(?:double|realtype|float){re.escape(acc)}=(.+)", n(st[1]))] if ma else []
            if not (mi and mc and mc.group(1) == iv and step and ma and len(decl) == 1 and len([st for st in stmts if st[0] == "expr" and st[1]]) == 2):
                verdict = "unrec"
            else:
                zero = re.fullmatch(r"0(\.0*)?[fF]?", re.fullmatch(rf"(?:double|realtype|float){re.escape(acc)}=(.+)", n(decl[0][1])).group(1)) is not None
                bounds = mi.group(2) == "0" and mc.group(2) == "<" and mc.group(3) == "NSPECIES"
                term = ma.group(1) in (f"y[{iv}]", f"(y[{iv}])")
                verdict = "ok" if zero and bounds and term else "bad"
        if verdict == "unrec":
            ctx.unrec("R7", key, (rel, 0), f"GetNumDens is not one counting loop accumulating into the returned variable: {found}")
        else:
            ok = verdict == "ok"
            ctx.check(ok, "R7", key, (rel, 0),
                      "the particle density in the temperature equation sums y[0..NSPECIES-1]" if ok else
                      "GetNumDens does not sum exactly the NSPECIES abundances: with a thermal process the temperature slot y[NSPECIES] enters the particle density",
                      expected="for (int i = 0; i < NSPECIES; i++) numdens += y[i];", found=found)
    # npar is registered as GetNumDens(y)
    from ..ratemodel import model as ratemodel
    reg = ratemodel(ctx.tree).effective_registry("ThermalProcess")
    r = reg.get("particle_number_density")
    okr = r is not None and r["symbol"] == ("const", "npar") and r["value"] == ("const", "GetNumDens(y)")
    if r is None or r["symbol"][0] != "const" or r["value"][0] != "const":
        ctx.unrec("R7", "npar = GetNumDens(y)", ("naunet/thermalprocess.py", r["line"] if r else 0),
                  "the registration of the particle number density (symbol / value) is not reconstructible as literals")
    else:
        ctx.check(okr, "R7", "npar = GetNumDens(y)", ("naunet/thermalprocess.py", r["line"] if r else 0), "the thermal wrap divides by npar = GetNumDens(y)")


def _r6(ctx):
    """Reactant / product lists are only ever filled through _create_species with a None filter."""
    import ast
    from ..pymodel import package
    from ..valueflow import Flow
    pkg = package(ctx.tree)
    n_sites = 0
    files = [f for f in pkg.files if f.startswith("naunet/reactions/") or f in ("naunet/thermalprocess.py",)]
    for f in files:
        ctx.saw(f)
        for ci in [c for c in pkg.classes.values() if c.file == f]:
            for mname, fn in ci.methods.items():
                # the method with the private helpers it was split into put back (a list built by `self._helper(cols)` is
                # the list the helper's statements build); _create_species stays the primitive the rule is about
                try:
                    import copy as _copy
                    from ..normalize import const_setattr, unroll_static_loops
                    fn = _copy.deepcopy(pkg.expanded(ci.name, mname, keep=("_create_species",)))
                    # ... and a table of (attribute name, value) rows written out: `setattr(self, "reactants", v)` is `self.reactants = v`
                    fn = const_setattr(unroll_static_loops(fn))
                except (AnalysisError, RecursionError):
                    pass
                src = ast.unparse(fn)
                if "reactants" not in src and "products" not in src:
                    continue
                # read with the private helpers the method was split into put back (pymodel.folded): a list built by a pipeline of
                # helpers is the same list
                # (a helper called inside an expression -- `self._species_of(names) if names else []` -- is read as the value it returns)
                fl = Flow(pkg.folded(ci.name, mname, keep=("_create_species",)) if mname in ("_parse_string", "__init__") else fn, f,
                          resolver=lambda name, c_=ci.name: pkg.resolve(c_, name)[1] if name not in ("_create_species", "_parse_string", "__init__") else None)
                for fact in fl.facts:
                    if fact.kind == "attrstore" and fact.target in ("reactants", "products", "_reactants", "_products") \
                            and fact.extra.get("obj") == ("param", "self"):
                        n_sites += 1
                        ok, why = _filtered_create(simp(fact.value), fl)
                        key = f"{ci.name}.{mname}:{fact.target}"
                        if ok is None:
                            ctx.unrec("R6", key, (f, fact.line), why + ": " + show(simp(fact.value))[:120])
                            continue
                        ctx.check(ok, "R6", key, (f, fact.line),
                                  "list built from self._create_species(..) values with falsy (pseudo-element) results filtered out" if ok else why,
                                  found=None if ok else show(simp(fact.value))[:160])
    ctx.floor("R6", "reactant/product assignments", n_sites, 13)
    species_truthiness(ctx, "R6")
    pseudo_filter(ctx, "R6")
    _paths = _return_paths
    # the list consulted is the CONFIGURED pseudo-element list whenever any list was configured
    kp = pkg.method("Species", "known_pseudoelements") and pkg.expanded("Species", "known_pseudoelements")
    ctx.saw("naunet/species.py", "Species.known_pseudoelements")
    # predicate helpers of the class (`cls._is_unset()`) are read through as the conditions they return
    kfl = Flow(pkg.expanded("Species", "known_pseudoelements"), "naunet/species.py", resolver=lambda name: pkg.resolve("Species", name)[1])
    CLS = ("param", "cls")
    KE, KP, DEF = ("attr", CLS, "_known_elements"), ("attr", CLS, "_known_pseudoelements"), ("attr", CLS, "default_pseudoelements")
    rets = [(v, tuple((simp(g), p) for g, p in gs)) for f in kfl.facts if f.kind == "return"
            for v, gs in _paths(simp(f.value) if f.value else ("const", None), f.guards)]

    # decide by truth table over (elements configured?, pseudo-elements configured?), whatever the spelling of the conditions
    def ev(c, env):
        from ..valueflow import _unbool
        c = _unbool(c)
        if c in env:
            return env[c]
        if c[0] == "unop" and c[1] == "Not":
            x = ev(c[2], env)
            return None if x is None else not x
        if c[0] == "bool":
            xs = [ev(x, env) for x in c[2]]
            if any(x is None for x in xs):
                return None
            return all(xs) if c[1] == "And" else any(xs)
        return None
    okp = bool(rets)
    anyundec = False
    for ke in (False, True):
        for kp_ in (False, True):
            env = {KE: ke, KP: kp_}
            taken = [v for v, gs in rets if all(ev(g, env) is not None and ev(g, env) == p for g, p in gs)]
            undec = any(ev(g, env) is None for v, gs in rets for g, p in gs)
            anyundec = anyundec or undec
            wantv = DEF if (not ke and not kp_) else KP
            okp = okp and not undec and len(taken) >= 1 and taken[0] == wantv
    if anyundec:
        # a condition that is not a combination of "this list is configured": not evidence of a wrong list
        ctx.unrec("R6", "Species.known_pseudoelements:configured list", ("naunet/species.py", kp.lineno), "the conditions selecting the list are not tests of the two configured lists: "
                  + "; ".join(f"{show(v)[:40]} if {[('' if p else 'not ') + show(g)[:60] for g, p in gs]}" for v, gs in rets)[:300])
        return
    ctx.check(okp, "R6", "Species.known_pseudoelements:configured list", ("naunet/species.py", kp.lineno),
              "the default pseudo-elements are used only when neither list was configured; otherwise exactly the configured pseudo-elements" if okp else
              "the pseudo-element list consulted by _create_species is not `configured list, or the defaults when nothing at all is configured`: with elements configured and no "
              "pseudo-elements, a real species whose name is a DEFAULT pseudo-element (e.g. a species named M) is silently dropped from the reaction terms",
              expected="default_pseudoelements if (not _known_elements and not _known_pseudoelements) else _known_pseudoelements",
              found="; ".join(f"{show(v)[:40]} if {[('' if p else 'not ') + show(g)[:60] for g, p in gs]}" for v, gs in rets))


def _return_paths(v, g):
    """a returned conditional value is one return per arm"""
    if v[0] in ("phi", "ifexp"):
        return _return_paths(v[2], tuple(g) + ((v[1], True),)) + _return_paths(v[3], tuple(g) + ((v[1], False),))
    return [(v, tuple(g))]


def pseudo_filter(ctx, rule):
    """Component._create_species is the one gate between the names of a reaction and its reactant / product lists (rule shared with
    C04).  By return paths, whatever the arrangement of the conditions and the helpers they were moved into: (a) Species(name) is
    constructed only for names that are not in Species.known_pseudoelements(), and on a pseudo-element path only None comes back;
    (b) nothing ELSE is dropped: a path that returns None for a non-empty name that is NOT in the known pseudo-elements removes a
    real species from the reaction (its terms lose a factor, its own equation loses the term, elements and charge are not conserved)."""
    from ..pymodel import package
    from ..valueflow import Flow, guards_satisfiable, _bool_atoms
    pkg = package(ctx.tree)
    F = "naunet/component.py"
    fn = pkg.method("Component", "_create_species") and pkg.expanded("Component", "_create_species")
    ctx.saw(F, "Component._create_species")
    # predicate helpers the test was moved into (a method of the class, a function of the module) are read as the condition they return
    cfl = Flow(fn, F, func_resolver=lambda name: pkg.functions.get((F, name)),
               resolver=lambda name: (pkg.resolve("Component", name)[1] if name != "_create_species" else None))
    arg = ("param", fn.args.args[1].arg) if len(fn.args.args) > 1 else None
    KP = ("meth", ("global", "Species"), "known_pseudoelements", (), ())
    rets = [p_ for f in cfl.facts if f.kind == "return" for p_ in _return_paths(simp(f.value) if f.value else ("const", None), f.guards)]
    # (membership in set(L) / frozenset(L) / list(L) / tuple(L) of the known list is membership in the list)
    from ..valueflow import subst as _subst
    views = {("call", ("global", f_), (KP,), ()): KP for f_ in ("set", "frozenset", "list", "tuple")}
    rets = [(v, tuple((simp(_subst(simp(c), views)), p_) for c, p_ in g)) for v, g in rets]
    makes = [(v, g) for v, g in rets if v[0] == "call" and v[1] == ("global", "Species")]
    key = "Component._create_species:pseudo-filter"
    if not makes:
        ctx.unrec(rule, key, (F, fn.lineno), "no path of _create_species returns Species(<name>) directly: where the species is constructed is not understood")
        return
    names = {v[2][0] if v[2] else None for v, g in makes}
    N = next(iter(names))
    # the name looked up may be the argument with surrounding blanks removed
    stripped = (("meth", arg, "strip", (), ()), ("ifexp", arg, ("meth", arg, "strip", (), ()), arg), ("phi", arg, ("meth", arg, "strip", (), ()), arg))
    if len(names) != 1 or N is None or (N != arg and N not in stripped):
        ctx.unrec(rule, key, (F, fn.lineno), "the species is not constructed from the name handed in: " + "; ".join(show(n)[:60] if n else "?" for n in names))
        return
    PSE = ("cmp", ("In",), (N, KP))
    ISS = ("call", ("global", "isinstance"), (arg, ("global", "Species")), ())
    real = [(N, True), (arg, True), (ISS, False)]
    ok = all(not guards_satisfiable(g, [(PSE, True)]) for v, g in makes)
    # on a pseudo-element path (name is a non-empty str in the list) only None can be returned
    for v, g in rets:
        if guards_satisfiable(g, [(PSE, True)] + real) and v != ("const", None):
            ok = False
    ctx.check(ok, rule, key, (F, fn.lineno),
              "Species(..) is constructed only for names not in Species.known_pseudoelements(); otherwise None is returned")
    # (b) a non-empty name that is not a known pseudo-element is never dropped
    key = "Component._create_species:drops-pseudo-only"
    drops = [(v, g) for v, g in rets if v[0] == "const" and not v[1] and guards_satisfiable(g, [(PSE, False)] + real)]
    if not drops:
        ctx.ok(rule, key, (F, fn.lineno), "None is returned only for empty names and names in Species.known_pseudoelements()")
        return
    base = set()
    for c, _ in [(PSE, True)] + real:
        _bool_atoms(simp(c), base)
    extra = set()
    for v, g in drops:
        for c, _ in g:
            _bool_atoms(simp(c), extra)
    extra -= base
    from ..valueflow import subst
    unread = [x for x in extra if not_understood(subst(x, {KP: ("const", "<known pseudo-elements>")}))]        # (the list itself is understood)
    if unread:
        ctx.unrec(rule, key, (F, fn.lineno), "a name may be dropped under a condition the analysis cannot read: " + "; ".join(show(x)[:80] for x in unread)[:240])
    else:
        ctx.bad(rule, key, (F, fn.lineno),
                "_create_species returns None for a non-empty name that is NOT in Species.known_pseudoelements() (when " + "; ".join(show(x)[:80] for x in sorted(extra, key=repr))[:300]
                + "): a real species is silently removed from the reactants / products, its reactions lose a factor and a term, elements and charge are not conserved",
                expected="None only for empty names and exact members of Species.known_pseudoelements()",
                found="; ".join("return None if " + " and ".join(("" if p else "not ") + show(simp(c))[:100] for c, p in g) for v, g in drops)[:400])


def species_truthiness(ctx, rule):
    """The `if self._create_species(x)` filters are meant to drop None only: every Species instance must be truthy.  Python takes the
    truth of an object from __bool__, else from __len__ != 0 -- a Species class (or base) that defines either can make a real
    species (the electron: no elements) falsy, and the filters silently drop it from the reactant / product lists (rule shared
    with C04)."""
    import ast
    from ..pymodel import package
    pkg = package(ctx.tree)
    ci = pkg.cls("Species")
    ctx.saw(ci.file, "Species")
    hit = None
    for c in pkg.mro("Species"):
        k = pkg.classes.get(c)
        if not k:
            continue
        for special in ("__bool__", "__len__"):
            if special in k.methods and hit is None:
                fn = k.methods[special]
                rets = [r.value for r in ast.walk(fn) if isinstance(r, ast.Return)]
                always = special == "__bool__" and rets and all(isinstance(v, ast.Constant) and v.value is True for v in rets)
                if not always:
                    hit = (c, special, fn)
        if hit or "__bool__" in k.methods:
            break
    ctx.check(hit is None, rule, "Species:always-truthy", (ci.file, hit[2].lineno if hit else ci.node.lineno),
              "Species defines neither __bool__ nor __len__: every instance is truthy, the created-species filters drop None only" if hit is None else
              f"{hit[0]}.{hit[1]} makes the truth value of a species depend on its content: a species for which it is 0/False (the electron has no "
              "elements) is dropped by every `if self._create_species(x)` filter, its reactions lose a reactant/product and charge is not conserved",
              expected="no __bool__ / __len__ on Species (or __bool__ returning True)", found=f"def {hit[1]}" if hit else None)


def _filtered_create(v, fl=None):
    """[] | IfExp of such | one `self._create_species(..)` per element of a sequence, kept only when truthy -- written as a
    comprehension or as a local list filled by guarded appends.  -> (True | False | None (shape not understood), why)"""
    from ..valueflow import split_guard

    def is_create(x):
        return x[0] == "meth" and x[1] == ("param", "self") and x[2] == "_create_species"

    def keeps(x):
        """the guards that keep exactly the created species and drop None: `if x`, `if x is not None`, `if x != None`"""
        none = ("const", None)
        return [(x, True), (("cmp", ("Is",), (x, none)), False), (("cmp", ("Eq",), (x, none)), False)]

    def bypass(x):
        """wrong for certain: the species is constructed directly (no pseudo-element filter at all); any other producer (a wrapper
        of _create_species, a lookup) is a shape that is not understood"""
        return x[0] == "call" and x[1] == ("global", "Species")

    if v[0] in ("ifexp", "phi"):
        a, wa = _filtered_create(v[2], fl)
        b, wb = _filtered_create(v[3], fl)
        return (None if a is None or b is None else a and b), wa or wb
    if v == ("list", ()):
        return True, ""
    if v[0] == "acc" and fl is not None:
        # a local list: created empty, then only appended to; every appended value is a created species guarded by its own truth
        facts = [f for f in fl.facts if f.target == v[1]]
        inits = [f for f in facts if f.kind == "init"]
        apps = [f for f in facts if f.kind == "append"]
        if len(inits) != 1 or simp(inits[0].value) != ("list", ()) or len(inits) + len(apps) != len(facts) or not apps:
            return None, f"the list `{v[1]}` is not `[]` followed by appends only"
        for f in apps:
            val = simp(f.value)
            if not is_create(val):
                return (False if bypass(val) else None), "elements are not produced by self._create_species(..)"
            conds = [g for gd in f.guards for g in split_guard((simp(gd[0]), gd[1]))]
            if not any(c in conds for c in keeps(val)):
                # (guards that mention the created species in another way are a filter that is not understood)
                return (None if any(val in list(walk(c)) for c, _ in conds) else False), "no truthiness filter on the created species: a marker token would enter the list as None"
        return True, ""
    m = as_map(v) if v[0] in ("comp", "copy") else None
    if m is None or not is_create(m[1]):
        # the created species pass through a container that identifies equal keys: a reactant named twice (H + H) is kept once
        for x in walk(v):
            if isinstance(x, tuple) and x and ((x[0] == "comp" and x[1] in ("dict", "set")) or (x[0] == "call" and x[1] in (("global", "set"), ("global", "frozenset")))
                                              or (x[0] in ("call", "meth") and "fromkeys" in (x[2] if x[0] == "meth" else str(x[1])))) \
                    and any(is_create(y) for y in walk(v) if isinstance(y, tuple) and y):
                return False, "the created species are collected in a dict / set keyed by the name: a species that occurs twice in the list (H + H -> H2) is kept once"
    if m is None:
        return None, f"reactant/product list assigned from an unrecognised expression"
    bv, body, base, ifs = m
    if not is_create(body):
        return (False if bypass(body) else None), "elements are not produced by self._create_species(..)"
    # `if a and b` is `if a if b`
    conds = [g for c in ifs for g in split_guard((simp(c), True))]
    if not any(c in conds for c in keeps(body)):
        return (None if any(body in list(walk(c)) for c, _ in conds) else False), "no truthiness filter on the created species: a marker token would enter the list as None"
    return True, ""


_LIST_EDITS = {"append", "extend", "insert", "remove", "pop", "clear", "__delitem__", "__setitem__", "__iadd__", "__imul__"}


def reaction_lists_frozen(ctx, rule):
    """The ODE terms are assembled from `react.reactants` / `react.products` AFTER the rate expressions were built from the same
    objects: the law emitted is the law of the input network only if nothing edits those lists in place once a reaction is
    constructed.  Wrong for certain: a list-editing call / item store / `del` / `+=` on `<x>.reactants` / `<x>.products` -- or on a
    local that is an ALIAS of one (`lst = reac.reactants`, no copy) -- where <x> is not the object under construction (`self` inside
    the reaction classes' own methods that are not rate builders).  A copy (`list(..)`, `[..]`, slicing, `.copy()`) may be edited freely.
    (Rule shared with C04.)"""
    import ast
    from ..pymodel import package
    pkg = package(ctx.tree)
    ATTRS = ("reactants", "products")
    n_funcs = n_reads = 0

    def list_attr(e):
        return isinstance(e, ast.Attribute) and e.attr in ATTRS

    def owner_self(e, fn, cls):
        """`self.reactants` inside a method of a reaction-like class that builds the object (not a rate / format method)"""
        return isinstance(e.value, ast.Name) and fn.args.args and e.value.id == fn.args.args[0].arg and cls is not None \
            and not (fn.name.startswith("rate") or fn.name in ("__format__", "__str__", "__repr__", "__eq__", "__hash__", "__lt__"))

    todo = [(ci.file, ci.name, fn) for ci in pkg.classes.values() for fn in ci.methods.values()] + [(f, None, fn) for (f, _), fn in pkg.functions.items()]

    def params_of(fn):
        return [a.arg for a in fn.args.posonlyargs + fn.args.args + fn.args.kwonlyargs]

    def is_static(fn):
        return any(ast.unparse(d) == "staticmethod" for d in fn.decorator_list)

    def _edited_owner(n, aliases):
        """the plain name whose .reactants / .products the statement edits (through the attribute or an alias of it), else None"""
        for x in ast.walk(n):
            e = None
            if isinstance(x, ast.Attribute) and x.attr in ATTRS:
                e = x
            elif isinstance(x, ast.Name) and x.id in aliases:
                e = aliases[x.id]
            if e is not None:
                return e.value.id if isinstance(e.value, ast.Name) else None
        return None

    def call_sites(file, cls, callee, pname):
        """per call of `callee` found in the package: True when the argument bound to `pname` is the caller's own `self` inside a method
        that builds the object (owner_self), False when it is some other readable name, None when it is not read"""
        out = []
        pos = params_of(callee).index(pname)
        bound = cls is not None and not is_static(callee)            # called through an instance: the first parameter is the receiver
        for cfile, ccls, caller in todo:
            if caller is callee:
                continue
            for c in ast.walk(caller):
                if not isinstance(c, ast.Call):
                    continue
                if cls is None:
                    hit = isinstance(c.func, ast.Name) and c.func.id == callee.name and (cfile == file or True)
                else:
                    hit = isinstance(c.func, ast.Attribute) and c.func.attr == callee.name
                if not hit:
                    continue
                if any(isinstance(a, ast.Starred) for a in c.args) or any(k.arg is None for k in c.keywords):
                    out.append(None)
                    continue
                i = pos - (1 if bound else 0)
                arg = c.args[i] if 0 <= i < len(c.args) else next((k.value for k in c.keywords if k.arg == pname), None)
                if i < 0:
                    arg = c.func.value
                if arg is None:
                    out.append(None)
                elif isinstance(arg, ast.Name) and ccls is not None and caller.args.args and arg.id == caller.args.args[0].arg and not is_static(caller) \
                        and not (caller.name.startswith("rate") or caller.name in ("__format__", "__str__", "__repr__", "__eq__", "__hash__", "__lt__")):
                    out.append(True)
                elif isinstance(arg, (ast.Name, ast.Attribute)):
                    out.append(False)
                else:
                    out.append(None)
        return out
    for file, cls, fn in todo:
        n_funcs += 1
        aliases = {}
        for st in ast.walk(fn):
            if isinstance(st, ast.Assign) and len(st.targets) == 1 and isinstance(st.targets[0], ast.Name):
                v = st.value
                alts = [v]
                if isinstance(v, ast.IfExp):
                    alts = [v.body, v.orelse]
                elif isinstance(v, ast.BoolOp):
                    alts = list(v.values)
                for a in alts:
                    if list_attr(a) and not owner_self(a, fn, cls):
                        aliases[st.targets[0].id] = a
        # a name re-bound to anything else as well is still an alias on some path: kept (the edit is judged where it stands)

        def target(e):
            """the reaction list an expression denotes by identity: the attribute itself or an alias of it"""
            if list_attr(e) and not owner_self(e, fn, cls):
                return ast.unparse(e)
            if isinstance(e, ast.Name) and e.id in aliases:
                return f"{e.id} (= {ast.unparse(aliases[e.id])})"
            return None
        # (a local bound more than once may hold a copy by the time it is edited: no verdict on those)
        stores = {}
        for x in ast.walk(fn):
            if isinstance(x, ast.Name) and isinstance(x.ctx, ast.Store):
                stores[x.id] = stores.get(x.id, 0) + 1
        aliases = {k: v for k, v in aliases.items() if stores.get(k, 0) == 1}
        hits = []
        for n in ast.walk(fn):
            if isinstance(n, ast.Attribute) and n.attr in ATTRS:
                n_reads += 1
            if isinstance(n, ast.Call) and isinstance(n.func, ast.Attribute) and n.func.attr in _LIST_EDITS and target(n.func.value):
                hits.append((n, f"{target(n.func.value)}.{n.func.attr}(..)"))
            elif isinstance(n, (ast.Assign, ast.AugAssign, ast.Delete)):
                for t in (n.targets if isinstance(n, (ast.Assign, ast.Delete)) else [n.target]):
                    if isinstance(t, ast.Subscript) and target(t.value):
                        hits.append((n, ast.unparse(n)[:80]))
                    elif isinstance(n, ast.AugAssign) and isinstance(n.op, (ast.Add, ast.Mult)) and isinstance(t, ast.Name) and t.id in aliases:
                        hits.append((n, ast.unparse(n)[:80]))
                    elif isinstance(n, ast.AugAssign) and isinstance(n.op, (ast.Add, ast.Mult)) and list_attr(t) and not owner_self(t, fn, cls):
                        hits.append((n, ast.unparse(n)[:80]))
        for n, what in hits:
            # the list of an object the function is HANDED (`def _fill(reaction, names): reaction.reactants.append(..)`, a block of the
            # reader extracted into a function of the module / a static helper): whose list that is, is decided at the call sites
            own = _edited_owner(n, aliases)
            if own is not None and own in params_of(fn) and not (cls is not None and fn.args.args and own == fn.args.args[0].arg and not is_static(fn)):
                sites = call_sites(file, cls, fn, own)
                if sites and all(sites):
                    continue                # every caller hands in the object it is constructing
                if not sites or any(x is None for x in sites):
                    ctx.unrec(rule, f"{cls + '.' if cls else ''}{fn.name}:edits-reaction-list:{norm_text(what)[:60]}", (file, n.lineno),
                              f"`{what}` edits the reactant / product list of the object passed as `{own}`: the callers of `{fn.name}` are not all read, so whether "
                              "that object is still under construction is not decided")
                    continue
            ctx.bad(rule, f"{cls + '.' if cls else ''}{fn.name}:edits-reaction-list:{norm_text(what)[:60]}", (file, n.lineno),
                    f"`{what}` edits the reactant / product list of a reaction object in place (no copy): every later reader -- the ODE terms of "
                    "_prepare_ode_content are assembled after the rates -- sees a reaction that is not the input reaction (a reactant factor and its loss term vanish)",
                    expected="a copy: list(reac.reactants) / reac.reactants.copy() / a comprehension", found=what)
    ctx.floor(rule, "functions scanned for in-place edits of reaction lists", n_funcs, 100)
    ctx.floor(rule, "reads of .reactants / .products", n_reads, 40)
    if not any(o.rule == rule and "edits-reaction-list" in o.key for o in ctx.obs):
        ctx.ok(rule, "reaction-lists-frozen", ("naunet/reactions/reaction.py", 0),
               f"no function of the package edits <reaction>.reactants / .products (or an alias) in place outside the reaction's own construction ({n_funcs} functions, {n_reads} reads)")


def rhs_writers(ctx, rule):
    """R9 (shared with C04): in the generated RHS functions nothing but the pasted equations writes ydot, and the working copy of
    the abundances is the abundance vector itself."""
    from .. import cwriters as W
    n = W.check_writers(ctx, rule, [W.FEX, W.ODE], W.RHS_ARRAYS, "the derivative / the abundance vector the equations read",
                        funcs={"Fex", "FexKernel", "Fex::operator()"})
    ctx.floor(rule, "reviewed static writes in RHS functions", n, 2)


WS_FILTERS = {"stmwrap"}


def _subterms(e):
    yield e
    if isinstance(e, tuple):
        for x in e:
            if isinstance(x, tuple):
                yield from _subterms(x)


def _r8(ctx):
    n = 0
    for label, rel, cfg, fname in CONFIGS:
        ctx.saw(rel)
        # (`{% set %}` variables and the parameters of expanded macros are read as the expressions they stand for)
        # ... and a loop over a chain of one-to-one `map` filters is the loop over the base sequence with the filters applied to its variable
        items = J.unmap_loops(J.propagate_sets(J.flatten(ctx.tree, rel, cfg)))
        sk = Skel(items)
        if not sk.func(fname):
            ctx.missing("R8", f"{label}:{fname}", (rel, 0), f"function {fname} not found in the specialised template")
            continue
        FEXSEQ = ("attr", ("name", "ode"), "fex")
        loops = [(it, off) for it, off in sk.items_in(fname) if it[0] == "for" and any(x == FEXSEQ for x in _subterms(it[2]))]
        key = f"{label}:{fname}:for ode.fex"
        if not loops and any(x == FEXSEQ for it_, off in sk.items_in(fname) for x in _subterms(it_)):
            ctx.unrec("R8", key, (rel, 0), f"{fname} uses ode.fex, but not in a `for eq in ode.fex` loop: how the equations are pasted is not understood")
            continue
        if not loops:
            # ode.fex is not mentioned inside the function: pasted through something the analysis does not follow (an include, a
            # variable bound outside the function): the anchor is gone, which is not evidence of a missing equation
            ctx.missing("R8", key, (rel, 0), f"{fname} does not mention ode.fex: where the equations are pasted is not found")
            continue
        if len(loops) != 1:
            ctx.bad("R8", key, (rel, loops[0][0][5] if loops else 0),
                    f"{fname} pastes ode.fex {len(loops)} times, expected exactly once")
            continue
        it = loops[0][0]
        base, fs = J.unfilter(it[2])
        if (fs and base == FEXSEQ) or it[7] is not None:
            ctx.bad("R8", key, (rel, it[5]), f"the loop over ode.fex is filtered/sliced: {J.show(it[2])}" + (f" if {J.show(it[7])}" if it[7] else ""),
                    expected="for eq in ode.fex", found=J.show(it[2]))
            continue
        if it[2][0] == "item" and it[2][1] == FEXSEQ:
            ctx.bad("R8", key, (rel, it[5]), f"the loop iterates {J.show(it[2])}, not ode.fex itself")
            continue
        if it[2] != FEXSEQ:
            ctx.unrec("R8", key, (rel, it[5]), f"the loop iterates {J.show(it[2])}: how it visits ode.fex is not understood")
            continue
        var = it[1]
        # `{% set v = eq | filter %}` then `{{ v | .. }}`, and one-expression macros used as values, are the same chain of filters
        sets, body, opaque = {}, [], set()
        for b in it[3]:
            if b[0] == "set" and b[1][0] == "name":
                sets[b[1][1]] = J.subst(J.inline_macros(ctx.tree, b[-1], b[2]), sets)
                opaque.discard(b[1][1])
            elif b[0] == "out":
                body.append(("out", J.subst(J.inline_macros(ctx.tree, b[-1], b[1]), sets)) + tuple(b[2:]))
            elif b[0] in ("set", "setblock"):
                # a binding the analysis does not follow (tuple / namespace target, captured block): it prints nothing itself
                opaque |= {x[1] for x in ([b[1]] + list(b[1][1] if b[1][0] in ("tuple", "list") else ())) if x[0] == "name"}
            else:
                body.append(b)
        # an output that stands inside a `// ...` line comment (between the `//` and the next line break of the template text) is
        # part of the comment, not of the code
        in_comment, kept = False, []
        for b in body:
            if b[0] == "text":
                tail = b[1].rsplit("\n", 1)[-1] if "\n" in b[1] else b[1]
                in_comment = ("//" in tail) or (in_comment and "\n" not in b[1])
                kept.append(b)
            elif b[0] == "out" and in_comment:
                kept.append(("text", "", b[2]) if len(b) > 2 else ("text", ""))
            else:
                kept.append(b)
        body = kept
        outs = [b for b in body if b[0] == "out"]
        others = [b for b in body if b[0] not in ("out", "text")]
        if len(outs) == 1 and not others and any(isinstance(x, tuple) and x[:1] == ("name",) and x[1] in opaque for x in _subterms(outs[0][1])):
            ctx.unrec("R8", key, (rel, it[5]), f"the pasted value {J.show(outs[0][1])} is bound by a `set` form the analysis does not follow")
            continue
        import re as _re
        # C comments and blanks between the statements are layout
        texts = _re.sub(r"/\*.*?\*/|//[^\n]*", "", "".join(b[1] for b in body if b[0] == "text"), flags=_re.S).strip()
        # ... and so is an output of constant blanks / line breaks
        outs = [b for b in outs if not (b[1][0] == "const" and isinstance(b[1][1], str) and not b[1][1].strip())]
        foreign = [b for b in outs if not any(x == var for x in _subterms(b[1]))]
        if others or foreign:
            # conditional / nested printing, or an output of something else than the equation, inside the loop: not understood
            ctx.unrec("R8", key, (rel, it[5]), f"the body of the loop over ode.fex has {len(others)} control node(s) and {len(foreign)} output(s) that do not print the equation: how the statements are pasted is not understood")
            continue
        if len(outs) != 1 or texts:
            ctx.bad("R8", key, (rel, it[5]), "loop body must output the equation and nothing else",
                    found=f"{len(outs)} outputs, {len(others)} control nodes, text {texts[:40]!r}")
            continue
        e, fs = J.unfilter(outs[0][1])
        good = e == var
        detail = []
        reps = []
        unknown = []
        for name, args, kw in fs:
            if name in WS_FILTERS:
                # break_long_words=False lives in utilities._stmwrap (checked below)
                continue
            if name in ("prefix", "suffix") and len(args) == 1 and not kw and args[0][0] == "const" and isinstance(args[0][1], str) and not args[0][1].strip():
                # naunet's own p + x / x + s filters with blanks / line breaks only: layout around the statement, like template text
                continue
            if name == "replace" and len(args) == 2 and all(a[0] == "const" for a in args):
                reps.append((args[0][1], args[1][1]))
                continue
            good = False
            unknown.append(name)
            detail.append(f"filter {name} may alter the equation text")
        if label.endswith("cusparse"):
            want = {("ydot[IDX", "ydot[yistart + IDX"), ("y[IDX", "y_cur[IDX")}
            if set(reps) != want:
                good = False
                detail.append(f"kernel re-basing filters are {reps}, expected {sorted(want)}")
            else:
                # order matters: "y[IDX" is a substring of "ydot[yistart + IDX"? (no) and of "ydot[IDX" (no: 'ydot[IDX' contains 't[IDX' not 'y[IDX')
                for i, (a, b) in enumerate(reps):
                    for (a2, b2) in reps[i + 1:]:
                        if a2 in b:
                            good = False
                            detail.append(f"replace({a2!r}) re-matches the output of the earlier replace({a!r} -> {b!r})")
        elif reps:
            good = False
            detail.append(f"unexpected replace filters {reps}")
        if e != var and not any(x == var for x in _subterms(e)):
            # the output does not mention the loop variable at all: what is pasted is not understood
            ctx.unrec("R8", key, (rel, outs[0][2]), f"the loop over ode.fex outputs {J.show(outs[0][1])[:120]}, not its own variable")
        elif unknown and len(detail) == len(unknown):
            # a filter the analysis has no model of (not naunet's layout filters, not `replace`): whether it alters the text is not known
            ctx.unrec("R8", key, (rel, outs[0][2]), "the equation passes through filter(s) the analysis has no model of: " + ", ".join(unknown))
        else:
            ctx.check(good, "R8", key, (rel, outs[0][2]),
                      f"{fname} outputs each ode.fex entry once through whitespace-only filters" if good else "; ".join(detail),
                      found=J.show(outs[0][1]))
        n += 1
    ctx.floor("R8", "back-end RHS functions", n, 4)
    # _stmwrap never breaks inside a token
    import ast
    from ..pymodel import package
    pkg = package(ctx.tree)
    fn = pkg.func("naunet/utilities.py", "_stmwrap")
    ctx.saw("naunet/utilities.py", "_stmwrap")
    # every way of asking textwrap to split the text (wrap / fill / an explicit TextWrapper) must forbid breaking inside a token;
    # the option is recognised wherever it is given: keyword of the call or attribute assignment on the wrapper object
    WRAPPERS = ("wrap", "fill", "TextWrapper", "textwrap.wrap", "textwrap.fill", "textwrap.TextWrapper")
    calls = [c for c in ast.walk(fn) if isinstance(c, ast.Call) and ast.unparse(c.func) in WRAPPERS]

    def const_kw(c, name):
        """value of a constant keyword, `...` when given but not constant, None when absent"""
        for k in c.keywords:
            if k.arg == name:
                return k.value.value if isinstance(k.value, ast.Constant) else ...
            if k.arg is None:
                return ...
        return None
    attr_sets = [(t.attr, st.value) for st in ast.walk(fn) if isinstance(st, ast.Assign) for t in st.targets
                 if isinstance(t, ast.Attribute) and t.attr in ("break_long_words", "break_on_hyphens")]
    if not calls:
        ctx.unrec("R8", "_stmwrap:break_long_words=False", ("naunet/utilities.py", fn.lineno),
                  "no textwrap.wrap / fill / TextWrapper call found in _stmwrap: how statements are wrapped is not understood")
        return
    blw = [const_kw(c, "break_long_words") for c in calls]
    boh = [const_kw(c, "break_on_hyphens") for c in calls]
    later = {a: [v.value if isinstance(v, ast.Constant) else ... for a2, v in attr_sets if a2 == a] for a in ("break_long_words", "break_on_hyphens")}
    if any(v is ... for v in blw + boh + later["break_long_words"] + later["break_on_hyphens"]):
        ctx.unrec("R8", "_stmwrap:break_long_words=False", ("naunet/utilities.py", fn.lineno),
                  "the word-breaking options of the wrapper are not constants")
        return
    # the option holds when every call gives False (or the wrapper object is set to False afterwards and never to anything else)
    ok_blw = (all(v is False for v in blw) and all(v is False for v in later["break_long_words"])) or \
        (bool(later["break_long_words"]) and all(v is False for v in later["break_long_words"]) and all(v in (False, None) for v in blw)
         and all(ast.unparse(c.func).endswith("TextWrapper") for c in calls))
    ok_boh = not any(v is True for v in boh + later["break_on_hyphens"])
    ctx.check(ok_blw and ok_boh, "R8", "_stmwrap:break_long_words=False", ("naunet/utilities.py", fn.lineno),
              "line wrapping breaks at whitespace only (break_long_words=False)")


# ---------------------------------------------------------------------- self-validation
T = FILE
MUTANTS = [
    {"name": "odeint-fex-clips-abundances", "file": TEMPLATES["odeint"], "old": "        y[i] = abund[i];\n    }\n\n    {% set components = network.reactions + network.grains + network.heating + network.cooling -%}\n    {% for key, _ in components | collect_variable_items(\"params\") -%}", "new": "        y[i] = fmax(abund[i], 0.0);\n    }\n\n    {% set components = network.reactions + network.grains + network.heating + network.cooling -%}\n    {% for key, _ in components | collect_variable_items(\"params\") -%}", "count": 2, "rules": ["R9"]},
    {"name": "cvode-fex-zeroes-exhausted", "file": TEMPLATES["cvode"], "old": "#if ((NHEATPROCS || NCOOLPROCS) && NAUNET_DEBUG)\n    printf(\"Total heating/cooling rate", "new": "    for (int i = 0; i < NSPECIES; i++) {\n        if (y[i] <= 0.0 && ydot[i] < 0.0) ydot[i] = 0.0;\n    }\n#if ((NHEATPROCS || NCOOLPROCS) && NAUNET_DEBUG)\n    printf(\"Total heating/cooling rate", "rules": ["R9"]},
    {"name": "loss-sign", "file": T, "old": 'rhs[specidx] += f" - {rate_sym}[{rl}]*{rsym_mul}"', "new": 'rhs[specidx] += f" + {rate_sym}[{rl}]*{rsym_mul}"', "rules": ["R2"]},
    {"name": "gain-sign", "file": T, "old": 'rhs[specidx] += f" + {rate_sym}[{rl}]*{rsym_mul}"', "new": 'rhs[specidx] += f" - {rate_sym}[{rl}]*{rsym_mul}"', "rules": ["R3"]},
    {"name": "row-set", "file": T, "old": "            for specidx in rspecidx:\n                rhs[specidx] += f\" - ", "new": "            for specidx in set(rspecidx):\n                rhs[specidx] += f\" - ", "rules": ["R2"]},
    {"name": "monomial-from-products", "file": T, "old": "# Differential Equation\n            rsym = [y[idx] for idx in rspecidx]", "new": "# Differential Equation\n            rsym = [y[idx] for idx in pspecidx]", "rules": ["R2", "R3"]},
    {"name": "join-plus", "file": T, "old": 'rsym_mul = "*".join(rsym)\n            for specidx in rspecidx:\n                rhs', "new": 'rsym_mul = "+".join(rsym)\n            for specidx in rspecidx:\n                rhs', "rules": ["R2"]},
    {"name": "k-index-shift", "file": T, "old": 'rhs[specidx] += f" - {rate_sym}[{rl}]*{rsym_mul}"', "new": 'rhs[specidx] += f" - {rate_sym}[{rl+1}]*{rsym_mul}"', "rules": ["R2"]},
    {"name": "gain-dedup-monomial", "file": T, "old": 'rhs[specidx] += f" + {rate_sym}[{rl}]*{rsym_mul}"', "new": 'rhs[specidx] += f" + {rate_sym}[{rl}]*{\'*\'.join(sorted(set(rsym)))}"', "rules": ["R3"]},
    {"name": "drop-gamma-wrap", "file": T, "old": 'rhs[n_spec] = f"(gamma - 1.0) * ( {rhs[n_spec]} ) / kerg / npar"', "new": 'rhs[n_spec] = f"( {rhs[n_spec]} ) / kerg / npar"', "rules": ["R7"]},
    {"name": "cool-sign", "file": T, "old": 'rhs[n_spec] += f" - {crate_sym}[{cidx}] * {rsym_mul}"', "new": 'rhs[n_spec] += f" + {crate_sym}[{cidx}] * {rsym_mul}"', "rules": ["R7"]},
    {"name": "skip-catalyst", "file": T, "old": "            for specidx in rspecidx:\n                rhs[specidx] += f\" - ", "new": "            for specidx in rspecidx:\n                if specidx in pspecidx:\n                    continue\n                rhs[specidx] += f\" - ", "rules": ["R2"]},
    {"name": "fex-slice", "file": TEMPLATES["cvode"], "old": "    {% for eq in ode.fex -%}\n        {{ eq | stmwrap(80, 8) }}", "new": "    {% for eq in ode.fex[1:] -%}\n        {{ eq | stmwrap(80, 8) }}", "rules": ["R8"]},
    {"name": "fex-pipeline-sliced", "file": TEMPLATES["cvode"], "old": "    {% for eq in ode.fex -%}\n        {{ eq | stmwrap(80, 8) }}\n    {% endfor %}\n", "new": "    {{ ode.fex[1:] | map(\"stmwrap\", 80, 8) | map(\"suffix\", \"\\n    \") | join }}\n", "rules": ["R8"]},
    {"name": "fex-pipeline-rewrites-text", "file": TEMPLATES["cvode"], "old": "    {% for eq in ode.fex -%}\n        {{ eq | stmwrap(80, 8) }}\n    {% endfor %}\n", "new": "    {{ ode.fex | map(\"replace\", \" - \", \" + \") | map(\"stmwrap\", 80, 8) | map(\"suffix\", \"\\n    \") | join }}\n", "rules": ["R8"]},
    {"name": "fex-pipeline-suffix-text", "file": TEMPLATES["cvode"], "old": "    {% for eq in ode.fex -%}\n        {{ eq | stmwrap(80, 8) }}\n    {% endfor %}\n", "new": "    {{ ode.fex | map(\"stmwrap\", 80, 8) | map(\"suffix\", \" + 0.0\\n    \") | join }}\n", "rules": ["R8"]},
    {"name": "signed-chain-of-rows-signs-swapped", "file": T, "old": '            for specidx in rspecidx:\n                rhs[specidx] += f" - {rate_sym}[{rl}]*{rsym_mul}"\n            for specidx in pspecidx:\n                rhs[specidx] += f" + {rate_sym}[{rl}]*{rsym_mul}"\n', "new": '            import itertools\n            for sign, specidx in itertools.chain(zip(itertools.repeat(" + "), rspecidx), zip(itertools.repeat(" - "), pspecidx)):\n                rhs[specidx] += sign + f"{rate_sym}[{rl}]*{rsym_mul}"\n', "rules": ["R2", "R3"]},
    {"name": "reactants-setattr-table-unfiltered", "file": 'naunet/reactions/reaction.py', "old": '        self.reactants = [\n            self._create_species(r.strip())\n            for r in rps[0:3]\n            if self._create_species(r.strip())\n        ]\n', "new": '        for attr, cols in (("reactants", rps[0:3]),):\n            setattr(self, attr, [self._create_species(r.strip()) for r in cols])\n', "rules": ["R6"]},
    {"name": "fex-pasted-by-macro-sliced", "edits": [
        {"file": TEMPLATES["cvode"], "old": "#include <math.h>\n", "new": '{% macro paste(eqs, width, indent) %}{% for line in eqs[:-1] -%}\n        {{ line | stmwrap(width, indent) }}\n    {% endfor %}{% endmacro %}\n#include <math.h>\n', "count": 1},
        {"file": TEMPLATES["cvode"], "old": "    {% for eq in ode.fex -%}\n        {{ eq | stmwrap(80, 8) }}\n    {% endfor %}\n", "new": "    {{ paste(ode.fex, 80, 8) }}\n"}], "rules": ["R8"]},
    {"name": "kernel-replace-swapped", "file": TEMPLATES["cvode"], "old": 'replace("y[IDX", "y_cur[IDX") | stmwrap(80, 12)', "new": 'replace("y_cur[IDX", "y[IDX") | stmwrap(80, 12)', "rules": ["R8"]},
    {"name": "stmwrap-breaks-words", "file": "naunet/utilities.py", "old": "break_long_words=False", "new": "break_long_words=True", "rules": ["R8"]},
    {"name": "textwrapper-breaks-words", "file": "naunet/utilities.py", "old": "wrappedlist = wrap(text, width - indent, break_long_words=False)", "new": "import textwrap\n    wrappedlist = textwrap.TextWrapper(width=width - indent).wrap(text)", "rules": ["R8"]},
    {"name": "kernel-set-drops-rebase", "file": TEMPLATES["cvode"], "old": '            {{ eq | replace("ydot[IDX", "ydot[yistart + IDX") | replace("y[IDX", "y_cur[IDX") | stmwrap(80, 12) }}', "new": '            {% set dev = eq | replace("ydot[IDX", "ydot[yistart + IDX") -%}\n            {{ dev | stmwrap(80, 12) }}', "rules": ["R8"]},
    {"name": "reactants-append-loop-unfiltered", "file": 'naunet/reactions/reaction.py', "old": '        self.reactants = [\n            self._create_species(r.strip())\n            for r in rps[0:3]\n            if self._create_species(r.strip())\n        ]\n', "new": '        found = []\n        for col in rps[0:3]:\n            nm = col.strip()\n            found.append(self._create_species(nm))\n        self.reactants = found\n', "rules": ["R6"]},
    {"name": "rhs-init-comprehension-ones", "file": T, "old": '        rhs = ["0.0"] * n_eqns\n', "new": '        rhs = ["1.0" for _ in range(n_eqns)]\n', "rules": ["R1"]},
    {"name": "lhs-tail-heating-only", "file": T, "old": '        lhs = [f"ydot[IDX_{x.alias}]" for x in species]\n        if has_thermal:\n            lhs.append("ydot[IDX_TGAS]")\n', "new": '        lhs = [f"ydot[IDX_{x.alias}]" for x in species] + (["ydot[IDX_TGAS]"] if netinfo.heating else [])\n        if has_thermal:\n', "rules": ["R4"]},
    {"name": "fex-by-index-swapped", "file": T, "old": 'fex = [f"{l} = {r};" for l, r in zip(lhs, rhs)]', "new": 'fex = [f"{rhs[i]} = {lhs[i]};" for i in range(len(rhs))]', "rules": ["R4"]},
    {"name": "loss-assign-plus-sign", "file": T, "old": 'rhs[specidx] += f" - {rate_sym}[{rl}]*{rsym_mul}"', "new": 'rhs[specidx] = rhs[specidx] + f" + {rate_sym}[{rl}]*{rsym_mul}"', "rules": ["R2"]},
    {"name": "has-thermal-heating-only", "file": T, "old": "has_thermal = True if netinfo.heating or netinfo.cooling else False", "new": "has_thermal = len(netinfo.heating) > 0", "rules": ["R1", "R4", "R7"]},
    {"name": "numdens-includes-temperature", "file": 'naunet/templates/base/cpp/src/naunet_physics.cpp.j2', "old": '    double numdens = 0.0;\n\n    for (int i = 0; i < NSPECIES; i++) numdens += y[i];\n    return numdens;\n', "new": '    double numdens = 0.0;\n\n    for (int i = 0; i < NEQUATIONS; i++) numdens += y[i];\n    return numdens;\n', "rules": ["R7"]},
    {"name": "reaction-loop-by-index-shifted-rate", "edits": [
        {"file": T, "old": 'for rl, react in enumerate(tqdm(reactions, desc="Preparing ODE...")):', "new": 'for rl in range(len(reactions)):\n            react = reactions[rl]'},
        {"file": T, "old": 'rhs[specidx] += f" - {rate_sym}[{rl}]*{rsym_mul}"', "new": 'rhs[specidx] += f" - {rate_sym}[{rl - 1}]*{rsym_mul}"'}], "rules": ["R2"]},
    {"name": "species-len-makes-electron-falsy", "file": "naunet/species.py", "old": "    def __hash__(self) -> int:\n", "new": "    def __len__(self) -> int:\n        return len(self.element_count)\n\n    def __hash__(self) -> int:\n", "rules": ["R6"]},
    {"name": "lhs-sorted", "file": T, "old": 'lhs = [f"ydot[IDX_{x.alias}]" for x in species]', "new": 'lhs = [f"ydot[IDX_{x.alias}]" for x in sorted(species)]', "rules": ["R4"]},
    {"name": "create-species-no-filter", "file": "naunet/reactions/reaction.py", "old": "[self._create_species(r) for r in reactants if self._create_species(r)]", "new": "[self._create_species(r) for r in reactants]", "rules": ["R6"]},
    {"name": "rate-builder-strips-grain-through-alias", "file": "naunet/grains/hh93grain.py", "old": "        [spec] = [s for s in reac.reactants if not s.is_grain]\n", "new": "        others = reac.reactants\n        others.remove(next(s for s in others if s.is_grain))\n        [spec] = others\n", "rules": ["R12"]},
    {"name": "create-species-drops-lowercase-names", "file": "naunet/component.py", "old": "if species_name and species_name not in Species.known_pseudoelements():", "new": "if species_name and species_name not in Species.known_pseudoelements() and not species_name.islower():", "rules": ["R6"]},
    {"name": "thermal-reactants-through-dict", "file": "naunet/thermalprocess.py", "old": "        self._reactants = [\n            self._create_species(r) for r in reactants if self._create_species(r)\n        ]\n", "new": "        created = {r: self._create_species(r) for r in reactants}\n        self._reactants = [spec for spec in created.values() if spec is not None]\n", "rules": ["R6"]},
    {"name": "helper-object-loss-sign", "edits": [
        {"file": T, "old": "# define in this file to avoid circular import\n", "new": "class _Tables:\n    def __init__(self, n):\n        self.n = n\n        self.rhs = [\"0.0\"] * n\n        self.jac = [\"0.0\"] * n * n\n\n    def add(self, row, text):\n        self.rhs[row] += text\n\n\n# define in this file to avoid circular import\n", "count": 1},
        {"file": T, "old": '        rhs = ["0.0"] * n_eqns\n        jacrhs = ["0.0"] * n_eqns * n_eqns\n', "new": '        tabs = _Tables(n_eqns)\n        rhs = tabs.rhs\n        jacrhs = tabs.jac\n'},
        {"file": T, "old": 'rhs[specidx] += f" - {rate_sym}[{rl}]*{rsym_mul}"', "new": 'tabs.add(specidx, f" + {rate_sym}[{rl}]*{rsym_mul}")'}], "rules": ["R2"]},
    {"name": "term-lists-gain-sign", "edits": [
        {"file": T, "old": '        rhs = ["0.0"] * n_eqns\n', "new": '        rhsparts = [["0.0"] for _ in range(n_eqns)]\n'},
        {"file": T, "old": 'rhs[specidx] += f" - {rate_sym}[{rl}]*{rsym_mul}"', "new": 'rhsparts[specidx].append(f" - {rate_sym}[{rl}]*{rsym_mul}")'},
        {"file": T, "old": 'rhs[specidx] += f" + {rate_sym}[{rl}]*{rsym_mul}"', "new": 'rhsparts[specidx].append(f" - {rate_sym}[{rl}]*{rsym_mul}")'},
        {"file": T, "old": 'rhs[sidx] += f" + ({fact}) * {depsym_mul}"', "new": 'rhsparts[sidx].append(f" + ({fact}) * {depsym_mul}")'},
        {"file": T, "old": 'rhs[n_spec] += f" + {hrate_sym}[{hidx}] * {rsym_mul}"', "new": 'rhsparts[n_spec].append(f" + {hrate_sym}[{hidx}] * {rsym_mul}")'},
        {"file": T, "old": 'rhs[n_spec] += f" - {crate_sym}[{cidx}] * {rsym_mul}"', "new": 'rhsparts[n_spec].append(f" - {crate_sym}[{cidx}] * {rsym_mul}")'},
        {"file": T, "old": '        lhs = [f"ydot[IDX_{x.alias}]" for x in species]\n', "new": '        rhs = ["".join(parts) for parts in rhsparts]\n        lhs = [f"ydot[IDX_{x.alias}]" for x in species]\n'}], "rules": ["R3"]},
    {"name": "tgas-macro", "file": "naunet/templates/base/cpp/include/naunet_macros.h.j2", "old": "#define IDX_TGAS NSPECIES", "new": "#define IDX_TGAS NEQUATIONS", "rules": ["R4"]},
]
BENIGN = [
    {"name": "arrays-renamed", "edits": [
        {"file": T, "old": "jacrhs", "new": "jacent", "count": 13},
        {"file": T, "old": "rhs[", "new": "derivs[", "count": 9},
        {"file": T, "old": "        rhs = [\"0.0\"] * n_eqns", "new": "        derivs = [\"0.0\"] * n_eqns"},
        {"file": T, "old": "zip(lhs, rhs)", "new": "zip(lhs, derivs)"}]},
    {"name": "rename-local", "file": T, "old": "rsym_mul", "new": "monomial", "count": 7},
    {"name": "recompute-join", "file": T, "old": 'rhs[specidx] += f" + {rate_sym}[{rl}]*{rsym_mul}"', "new": 'rhs[specidx] += f" + {rate_sym}[{rl}]*{\'*\'.join(rsym)}"'},
    {"name": "concat-instead-of-fstring", "file": T, "old": 'rhs[specidx] += f" - {rate_sym}[{rl}]*{rsym_mul}"', "new": 'rhs[specidx] += " - " + f"{rate_sym}[{rl}]" + "*" + rsym_mul'},
    {"name": "bool-has-thermal", "file": T, "old": "has_thermal = True if netinfo.heating or netinfo.cooling else False", "new": "has_thermal = bool(netinfo.heating or netinfo.cooling)"},
    {"name": "textwrapper-object", "file": "naunet/utilities.py", "old": "wrappedlist = wrap(text, width - indent, break_long_words=False)", "new": "import textwrap\n    wrappedlist = textwrap.TextWrapper(width=width - indent, break_long_words=False).wrap(text)"},
    {"name": "kernel-filters-via-set", "file": TEMPLATES["cvode"], "old": '            {{ eq | replace("ydot[IDX", "ydot[yistart + IDX") | replace("y[IDX", "y_cur[IDX") | stmwrap(80, 12) }}', "new": '            {% set dev = eq | replace("ydot[IDX", "ydot[yistart + IDX") | replace("y[IDX", "y_cur[IDX") -%}\n            {{ dev | stmwrap(80, 12) }}'},
    {"name": "kernel-filters-via-macro", "edits": [
        {"file": TEMPLATES["cvode"], "old": "#include <math.h>\n", "new": '{% macro rebased(t) %}{{ t | replace("ydot[IDX", "ydot[yistart + IDX") | replace("y[IDX", "y_cur[IDX") }}{% endmacro %}\n#include <math.h>\n', "count": 1},
        {"file": TEMPLATES["cvode"], "old": '            {{ eq | replace("ydot[IDX", "ydot[yistart + IDX") | replace("y[IDX", "y_cur[IDX") | stmwrap(80, 12) }}', "new": '            {{ rebased(eq) | stmwrap(80, 12) }}'}]},
    {"name": "reactants-append-loop", "file": 'naunet/reactions/reaction.py', "old": '        self.reactants = [\n            self._create_species(r.strip())\n            for r in rps[0:3]\n            if self._create_species(r.strip())\n        ]\n', "new": '        found = []\n        for col in rps[0:3]:\n            nm = col.strip()\n            if self._create_species(nm):\n                found.append(self._create_species(nm))\n        self.reactants = found\n'},
    {"name": "reactants-filter-conjunction", "file": 'naunet/reactions/reaction.py', "old": '        self.reactants = [\n            self._create_species(r.strip())\n            for r in rps[0:3]\n            if self._create_species(r.strip())\n        ]\n', "new": '        self.reactants = [\n            self._create_species(r.strip())\n            for r in rps[0:3]\n            if r.strip() != "" and self._create_species(r.strip())\n        ]\n'},
    {"name": "rhs-init-comprehension", "file": T, "old": '        rhs = ["0.0"] * n_eqns\n', "new": '        rhs = ["0.0" for _ in range(n_eqns)]\n'},
    {"name": "lhs-tail-concatenated", "file": T, "old": '        lhs = [f"ydot[IDX_{x.alias}]" for x in species]\n        if has_thermal:\n            lhs.append("ydot[IDX_TGAS]")\n', "new": '        lhs = [f"ydot[IDX_{x.alias}]" for x in species] + (["ydot[IDX_TGAS]"] if has_thermal else [])\n        if has_thermal:\n'},
    {"name": "fex-by-index", "file": T, "old": 'fex = [f"{l} = {r};" for l, r in zip(lhs, rhs)]', "new": 'fex = [f"{lhs[i]} = {rhs[i]};" for i in range(len(rhs))]'},
    {"name": "loss-assign-plus", "file": T, "old": 'rhs[specidx] += f" - {rate_sym}[{rl}]*{rsym_mul}"', "new": 'rhs[specidx] = rhs[specidx] + f" - {rate_sym}[{rl}]*{rsym_mul}"'},
    {"name": "has-thermal-by-length", "file": T, "old": "has_thermal = True if netinfo.heating or netinfo.cooling else False", "new": "has_thermal = len(netinfo.heating) + len(netinfo.cooling) > 0"},
    {"name": "n-eqns-int-flag", "file": T, "old": "n_eqns = max(n_spec + has_thermal, 1)", "new": "n_eqns = max(1, n_spec + int(has_thermal))"},
    {"name": "numdens-braced-loop", "file": 'naunet/templates/base/cpp/src/naunet_physics.cpp.j2', "old": '    double numdens = 0.0;\n\n    for (int i = 0; i < NSPECIES; i++) numdens += y[i];\n    return numdens;\n', "new": '    double total = 0.;\n    for (int k = 0; k < NSPECIES; ++k) {\n        total = total + y[k];\n    }\n    return total;\n'},
    {"name": "reaction-loop-by-index", "file": T, "old": 'for rl, react in enumerate(tqdm(reactions, desc="Preparing ODE...")):', "new": 'for rl in range(len(reactions)):\n            react = reactions[rl]'},
    {"name": "fex-map-join-pipeline", "file": TEMPLATES["cvode"], "old": "    {% for eq in ode.fex -%}\n        {{ eq | stmwrap(80, 8) }}\n    {% endfor %}\n", "new": "    {{ ode.fex | map(\"stmwrap\", 80, 8) | map(\"suffix\", \"\\n    \") | join }}\n"},
    {"name": "signed-chain-of-rows", "file": T, "old": '            for specidx in rspecidx:\n                rhs[specidx] += f" - {rate_sym}[{rl}]*{rsym_mul}"\n            for specidx in pspecidx:\n                rhs[specidx] += f" + {rate_sym}[{rl}]*{rsym_mul}"\n', "new": '            import itertools\n            for sign, specidx in itertools.chain(zip(itertools.repeat(" - "), rspecidx), zip(itertools.repeat(" + "), pspecidx)):\n                rhs[specidx] += sign + f"{rate_sym}[{rl}]*{rsym_mul}"\n'},
    {"name": "modifier-terms-from-generator", "edits": [
        {"file": T, "old": '    def _prepare_ode_content(\n', "new": '    def _modifier_terms(self, species, species_kwargs, ode_modifier):\n        for sname, expr in ode_modifier.items():\n            sidx = species.index(Species(sname, **species_kwargs))\n            for fact, dep in zip(expr["factors"], expr["reactants"]):\n                depspec = [Species(d, **species_kwargs) for d in dep]\n                yield sidx, fact, depspec, [f"y[IDX_{d.alias}]" for d in depspec]\n\n    def _prepare_ode_content(\n'},
        {"file": T, "old": '        for sname, expr in ode_modifier.items():\n            spec = Species(sname, **species_kwargs)\n            sidx = species.index(spec)\n            for fact, dep in zip(expr["factors"], expr["reactants"]):\n                depspec = [Species(d, **species_kwargs) for d in dep]\n                depsym = [f"y[IDX_{d.alias}]" for d in depspec]\n', "new": '        for sidx, fact, depspec, depsym in self._modifier_terms(species, species_kwargs, ode_modifier):\n'}]},
    {"name": "reactants-setattr-table", "file": 'naunet/reactions/reaction.py', "old": '        self.reactants = [\n            self._create_species(r.strip())\n            for r in rps[0:3]\n            if self._create_species(r.strip())\n        ]\n', "new": '        for attr, cols in (("reactants", rps[0:3]),):\n            setattr(self, attr, [self._create_species(r.strip()) for r in cols if self._create_species(r.strip())])\n'},
    {"name": "rhs-init-repeat", "file": T, "old": '        rhs = ["0.0"] * n_eqns\n', "new": '        import itertools\n        rhs = list(itertools.repeat("0.0", n_eqns))\n'},
    {"name": "abundance-symbols-percent-format", "file": T, "old": 'y = [f"y[IDX_{x.alias}]" for x in species]', "new": 'y = ["y[IDX_%s]" % x.alias for x in species]'},
    {"name": "fex-pasted-by-macro", "edits": [
        {"file": TEMPLATES["cvode"], "old": "#include <math.h>\n", "new": '{% macro paste(eqs, width, indent) %}{% for line in eqs -%}\n        {{ line | stmwrap(width, indent) }}\n    {% endfor %}{% endmacro %}\n#include <math.h>\n', "count": 1},
        {"file": TEMPLATES["cvode"], "old": "    {% for eq in ode.fex -%}\n        {{ eq | stmwrap(80, 8) }}\n    {% endfor %}\n", "new": "    {{ paste(ode.fex, 80, 8) }}\n"}]},
    {"name": "rate-builder-edits-a-copy", "file": "naunet/grains/hh93grain.py", "old": "        [spec] = [s for s in reac.reactants if not s.is_grain]\n", "new": "        others = list(reac.reactants)\n        others.remove(next(s for s in others if s.is_grain))\n        [spec] = others\n"},
    {"name": "create-species-predicate-helper", "edits": [
        {"file": "naunet/component.py", "old": "if species_name and species_name not in Species.known_pseudoelements():", "new": "if species_name and not _is_pseudo(species_name):"},
        {"file": "naunet/component.py", "old": "class Component:\n", "new": "def _is_pseudo(name):\n    known = Species.known_pseudoelements()\n    if name in known:\n        return True\n    return False\n\n\nclass Component:\n", "count": 1}]},
    {"name": "wrap-by-module-function", "edits": [
        {"file": T, "old": "# define in this file to avoid circular import\n", "new": "def _to_temperature_rate(expr):\n    return f\"(gamma - 1.0) * ( {expr} ) / kerg / npar\"\n\n\n# define in this file to avoid circular import\n", "count": 1},
        {"file": T, "old": 'rhs[n_spec] = f"(gamma - 1.0) * ( {rhs[n_spec]} ) / kerg / npar"', "new": "rhs[n_spec] = _to_temperature_rate(rhs[n_spec])"}]},
    {"name": "fex-loop-over-map-pipeline", "file": TEMPLATES["cvode"], "old": "    {% for eq in ode.fex -%}\n        {{ eq | stmwrap(80, 8) }}\n    {% endfor %}\n", "new": "    {% for stm in ode.fex | map(\"stmwrap\", 80, 8) -%}\n        {{ stm }}\n    {% endfor %}\n"},
    {"name": "reactants-filter-is-not-none", "file": 'naunet/reactions/reaction.py', "old": '        self.reactants = [\n            self._create_species(r.strip())\n            for r in rps[0:3]\n            if self._create_species(r.strip())\n        ]\n', "new": '        self.reactants = [\n            self._create_species(r.strip())\n            for r in rps[0:3]\n            if self._create_species(r.strip()) is not None\n        ]\n'},
    {"name": "fex-loop-with-comment", "file": TEMPLATES["cvode"], "old": "    {% for eq in ode.fex -%}\n        {{ eq | stmwrap(80, 8) }}\n    {% endfor %}\n", "new": "    {% for eq in ode.fex -%}\n        // equation {{ loop.index0 }}\n        {{ eq | stmwrap(80, 8) }}\n    {% endfor %}\n"},
    {"name": "rhs-table-in-helper-object", "edits": [
        {"file": T, "old": "# define in this file to avoid circular import\n", "new": "class _Tables:\n    def __init__(self, n):\n        self.n = n\n        self.rhs = [\"0.0\"] * n\n        self.jac = [\"0.0\"] * n * n\n\n    def add(self, row, text):\n        self.rhs[row] += text\n\n\n# define in this file to avoid circular import\n", "count": 1},
        {"file": T, "old": '        rhs = ["0.0"] * n_eqns\n        jacrhs = ["0.0"] * n_eqns * n_eqns\n', "new": '        tabs = _Tables(n_eqns)\n        rhs = tabs.rhs\n        jacrhs = tabs.jac\n'},
        {"file": T, "old": 'rhs[specidx] += f" - {rate_sym}[{rl}]*{rsym_mul}"', "new": 'tabs.add(specidx, f" - {rate_sym}[{rl}]*{rsym_mul}")'}]},
    {"name": "rhs-term-lists-joined", "edits": [
        {"file": T, "old": '        rhs = ["0.0"] * n_eqns\n', "new": '        rhsparts = [["0.0"] for _ in range(n_eqns)]\n'},
        {"file": T, "old": 'rhs[specidx] += f" - {rate_sym}[{rl}]*{rsym_mul}"', "new": 'rhsparts[specidx].append(f" - {rate_sym}[{rl}]*{rsym_mul}")'},
        {"file": T, "old": 'rhs[specidx] += f" + {rate_sym}[{rl}]*{rsym_mul}"', "new": 'rhsparts[specidx].append(f" + {rate_sym}[{rl}]*{rsym_mul}")'},
        {"file": T, "old": 'rhs[sidx] += f" + ({fact}) * {depsym_mul}"', "new": 'rhsparts[sidx].append(f" + ({fact}) * {depsym_mul}")'},
        {"file": T, "old": 'rhs[n_spec] += f" + {hrate_sym}[{hidx}] * {rsym_mul}"', "new": 'rhsparts[n_spec].append(f" + {hrate_sym}[{hidx}] * {rsym_mul}")'},
        {"file": T, "old": 'rhs[n_spec] += f" - {crate_sym}[{cidx}] * {rsym_mul}"', "new": 'rhsparts[n_spec].append(f" - {crate_sym}[{cidx}] * {rsym_mul}")'},
        {"file": T, "old": '        lhs = [f"ydot[IDX_{x.alias}]" for x in species]\n', "new": '        rhs = ["".join(parts) for parts in rhsparts]\n        lhs = [f"ydot[IDX_{x.alias}]" for x in species]\n'}]},
    {"name": "create-species-guard-clauses-set-lookup", "file": "naunet/component.py", "old": "        if species_name and species_name not in Species.known_pseudoelements():\n            return Species(species_name, **kwargs)\n\n        return None\n", "new": "        if not species_name:\n            return None\n        pseudo = frozenset(Species.known_pseudoelements())\n        if species_name in pseudo:\n            return None\n        return Species(species_name, **kwargs)\n"},
    {"name": "loss-loop-guarded-by-nonempty-list", "file": T, "old": "            for specidx in rspecidx:\n                rhs[specidx] += f\" - {rate_sym}[{rl}]*{rsym_mul}\"\n", "new": "            if rspecidx:\n                for specidx in rspecidx:\n                    rhs[specidx] += f\" - {rate_sym}[{rl}]*{rsym_mul}\"\n"},
    {"name": "species-slots-from-position-table", "edits": [
        {"file": T, "old": '        rhs = ["0.0"] * n_eqns\n', "new": '        position = {s: i for i, s in enumerate(species)}\n        rhs = ["0.0"] * n_eqns\n'},
        {"file": T, "old": "            rspecidx = [species.index(r) for r in react.reactants]\n            pspecidx = [species.index(p) for p in react.products]\n", "new": "            rspecidx = [position[r] for r in react.reactants]\n            pspecidx = [position[p] for p in react.products]\n"}]},
    {"name": "template-reindent", "file": TEMPLATES["cvode"], "old": "    {% for eq in ode.fex -%}\n        {{ eq | stmwrap(80, 8) }}", "new": "    {% for eq in ode.fex -%}\n      {{ eq|stmwrap(80, 6) }}"},
]
