"""C09 -- one index per species: identifiers valid, unique and consistent everywhere."""
from __future__ import annotations

import ast
import re

from .. import jmodel as J
from ..eqmodel import eq_disjuncts, hash_paths, attrs_read
from ..pymodel import package
from ..valueflow import Flow, as_map, match, V, show, simp, subst, walk, acc_comp, expand_dict_loops

EXPLANATION = (
    "R1 every character that can reach Species.alias / an element macro suffix (characters of the default element and pseudo-element symbols, "
    "digits) is a legal C/Python identifier character, or alias sanitises; R2 alias re-encodes every piece it strips whenever Species.__eq__ tells "
    "species apart by it (ice phase -> 'G', charge -> I/M run; the surface group digits are stripped and compared but not re-encoded); R3 a symbol "
    "table that is iterated as regular expressions and also used for literal membership holds no entry whose pattern differs from its literal; R4 "
    "every artefact that defines IDX_<alias> / IDX_ELEM_<e> or a per-species table pairs it with the position in the same unfiltered network."
    "species / network.elements (macro header, Python constants, render.py summary, NetworkConfiguration summary, enzo A_ table), and every use "
    "IDX_{{x.alias}} / IDX_ELEM_{{..}} in a template takes x from that sequence with the same suffix expression; R5 the counts are lengths of "
    "those sequences; R6 one naming convention: the suffix rule of Species.alias ('I'*(charge+1) / 'M'*|charge|, 'G' for ice) reproduces every "
    "alias written by hand (literal IDX_ macros in templates and sources, the grackle alias table, KROME's idx_ suffix rewriting); R7 the species "
    "collection is a set: Species.__hash__ reads only what every satisfied __eq__ disjunct forces equal (shared with C15.R2); R8 no lazily "
    "filtered Jinja sequence (map/select/reject.. without list) is consumed twice without being re-bound; R9 Network.species is a total, "
    "name-tie-broken sort; R13 the order of species (Species.__lt__) compares a key that holds the name, so that no two species tie and sorted() "
    "of a set does not depend on the hash seed.")
ASSUMPTIONS = [
    "uniqueness of aliases for user-defined element lists (e.g. CO vs Co) is not decided",
    "Jinja's map/select/reject/selectattr/rejectattr filters return one-shot generators",
]
ENGINES = ["pymodel", "valueflow", "jmodel", "eqmodel"]

SP = "naunet/species.py"
NETF = "naunet/network.py"
MACROS = "naunet/templates/base/cpp/include/naunet_macros.h.j2"
PYIDX = "naunet/templates/base/cpp/python/pynaunet_model/constant_indexes.py.j2"
PYCONST = "naunet/templates/base/cpp/python/pynaunet_model/constants.py.j2"
ENZOH = "naunet/templates/patches/enzo/naunet_enzo.h.j2"
WRAP = "naunet/templates/patches/enzo/Grid_NaunetWrapper.C.j2"
RENDER = "naunet/console/commands/render.py"
CONF = "naunet/configuration.py"
PATCH = "naunet/patches.py"
KRF = "naunet/reactions/kromereaction.py"
SELF = ("param", "self")
NSPEC = ("attr", ("name", "network"), "species")
NELEM = ("attr", ("name", "network"), "elements")
IDX0 = ("attr", ("name", "loop"), "index0")


def check(ctx):
    pkg = package(ctx.tree)
    rule = _alias_rule(ctx, pkg)
    _r1(ctx, pkg, rule)
    _r2(ctx, pkg)
    _r3(ctx, pkg)
    _r4_defs(ctx, pkg)
    _r4_uses(ctx)
    _r6(ctx, pkg, rule)
    _r7(ctx, pkg)
    _r8(ctx)
    _r9(ctx, pkg)
    # the identifier of a species is a function of the species and of the network's own tables: no class-level cache
    # (symbol tables, parsed species) survives from one network to the next (shared with C17.R3)
    from .c17 import discovered_state
    ctx.absorb(lambda sub: discovered_state(sub, package(sub.tree), "R10"), "R10", only=lambda o: o.outcome != "MISSING")
    _r11(ctx, pkg)
    # the slots follow every edit: the species / element views are live, or reset on every public path that changes what they are
    # computed from (shared with C14.R6) -- a stale view gives a species no slot, or a slot to a species that is gone
    from .c14 import _r6 as live_views
    ctx.absorb(lambda sub: live_views(sub, package(sub.tree)), "R12", only=lambda o: any(k in o.key for k in ("Network.species:", "Network.elements:")) and o.outcome != "MISSING")
    order_key_rule(ctx, pkg, "R13")
    _stable_keys(ctx)


def order_key_rule(ctx, pkg, rule="R13"):
    """Network.species sorts SETS of species (`sorted(members)`, and the species itself as the tie-break of the connectivity key): the
    result is independent of the set's iteration order -- which changes with the hash seed from one process to the next -- only if
    `Species.__lt__` never lets two different species tie.  Species that differ have different names, so: the key `__lt__`
    compares holds the name.  A key made of derived attributes only (basename, charge, alias ..) ties a gas species with its ice
    twin, and their two slots are swapped at random between the run that writes the macro header and the run that writes a patch."""
    from ..valueflow import subst as vsubst
    fn = pkg.cls("Species").methods.get("__lt__")
    K = "Species.__lt__:key holds the name"
    if fn is None:
        ctx.missing(rule, K, (SP, pkg.cls("Species").node.lineno), "Species.__lt__ vanished (sorted(species) needs it)")
        return
    ctx.saw(SP, "Species.__lt__")
    if len(fn.args.args) != 2:
        ctx.unrec(rule, K, (SP, fn.lineno), "unexpected signature of __lt__")
        return
    me, other = ("param", fn.args.args[0].arg), ("param", fn.args.args[1].arg)
    fl = Flow(fn, SP, resolver=lambda name: pkg.resolve("Species", name)[1])

    def leaves(v):
        v = simp(v)
        if v[0] in ("phi", "ifexp") and len(v) == 4:
            return leaves(v[2]) + leaves(v[3])
        return [v]
    cmps = [v for f in fl.facts if f.kind == "return" for v in leaves(f.value) if v not in (("global", "NotImplemented"), ("const", False), ("const", None))]
    if not cmps:
        ctx.unrec(rule, K, (SP, fn.lineno), "no comparison is returned by Species.__lt__")
        return
    verdicts = []
    for v in cmps:
        if not (v[0] == "cmp" and len(v[1]) == 1 and v[1][0] in ("Lt", "Gt")):
            verdicts.append(("unrec", v))
            continue
        a, b = v[2] if v[1][0] == "Lt" else (v[2][1], v[2][0])
        if simp(vsubst(a, {me: other})) != b or not any(x == me for x in walk(a)):
            verdicts.append(("unrec", v))       # the two sides are not one key taken of self and of the other species
            continue
        comps = list(a[1]) if a[0] == "tuple" and not any(e[0] == "star" for e in a[1]) else [a]
        if any(c == ("attr", me, "name") for c in comps):
            verdicts.append(("ok", v))
        elif comps and all(c[0] == "attr" and c[1] == me and c[2] not in ("name", "_name") for c in comps):
            verdicts.append(("bad", v))         # derived attributes only: species that share them tie
        else:
            verdicts.append(("unrec", v))
    bad = [v for k, v in verdicts if k == "bad"]
    unrec = [v for k, v in verdicts if k == "unrec"]
    if bad:
        ctx.bad(rule, K, (SP, fn.lineno), "Species.__lt__ orders by a key that leaves out the name: species that differ only in what the key omits (a gas species and its ice twin, "
                "spellings with another prefix) tie, sorted() keeps them in set-iteration order, and that order -- hence the IDX_ slot of each -- changes with the hash seed from one "
                "process to the next: artefacts written by separate runs (macro header, python constants, enzo tables) disagree",
                expected="self.name < o.name (or a tuple key holding self.name)", found=show(bad[0])[:140])
    elif unrec:
        ctx.unrec(rule, K, (SP, fn.lineno), f"the comparison Species.__lt__ makes is not understood: {show(unrec[0])[:120]}")
    else:
        ctx.ok(rule, K, (SP, fn.lineno), "species are ordered by a key that holds the name: two different species never tie")


def _stable_keys(ctx):
    """The keys of template constructs carry the template line (`file:cfg:line N:what`).  A construct listed in known_findings.json
    is the same construct after lines were inserted above it: among the violations that differ from a listed key only in the line
    number, the k-th (in line order) is the k-th listed one and takes its key; further ones keep their own key and are reported."""
    from ..core import load_known
    strip = lambda k: re.sub(r":line \d+:", ":line *:", k)
    lineno = lambda k: int(re.search(r":line (\d+):", k).group(1))
    listed = {}
    for e in load_known():
        if e.get("property") == "C09" and e.get("status") == "known" and re.search(r":line \d+:", e.get("key", "")):
            listed.setdefault(strip(e["key"]), []).append(e["key"])
    if not listed:
        return
    groups = {}
    for o in ctx.obs:
        if o.outcome == "VIOLATION" and re.search(r":line \d+:", o.key) and strip(o.fkey) in listed:
            groups.setdefault(strip(o.fkey), []).append(o)
    for sk, obs in groups.items():
        keys = sorted(listed[sk], key=lineno)
        if all(o.fkey in keys for o in obs):
            continue
        for o, k in zip(sorted(obs, key=lambda o: o.line), keys):
            o.key = k.split("|", 1)[1]


# ------------------------------------------------------------------ the alias rule (R6 anchor)

def _peel_rewrites(v):
    """strip re.sub(p, r, X) / X.replace(a, b) / X.translate(..) wrappers -> (X, [(what, pattern, replacement|None)])"""
    out = []
    while True:
        if v[0] == "meth" and v[1] == ("global", "re") and v[2] in ("sub", "subn") and len(v[3]) >= 3:
            pat, repl = v[3][0], v[3][1]
            out.append(("re.sub", pat[1] if pat[0] == "const" else show(pat), repl[1] if repl[0] == "const" else None))
            v = v[3][2]
        elif v[0] == "meth" and v[2] == "replace" and len(v[3]) >= 2 and v[1][0] != "global":
            a, b = v[3][0], v[3][1]
            out.append(("replace", a[1] if a[0] == "const" else show(a), b[1] if b[0] == "const" else None))
            v = v[1]
        elif v[0] == "meth" and v[2] == "translate" and v[1][0] != "global":
            out.append(("translate", show(v[3][0])[:40] if v[3] else "", None))
            v = v[1]
        else:
            return v, out

def method_closure(pkg, cname, fn, depth=3):
    """the function and the methods of its class it calls through self (transitively): what it computes is written there"""
    out, todo = [fn], [(fn, 0)]
    while todo:
        f, d = todo.pop()
        if d >= depth:
            continue
        for c in ast.walk(f):
            if isinstance(c, ast.Call) and isinstance(c.func, ast.Attribute) and isinstance(c.func.value, ast.Name) and c.func.value.id in ("self", "cls"):
                g = pkg.resolve(cname, c.func.attr)[1]
                if g is not None and not any(g is x for x in out):
                    out.append(g)
                    todo.append((g, d + 1))
    return out


def _concat_parts(v):
    """the pieces of a string built by `+`, an f-string or str.format, in order"""
    if v[0] == "binop" and v[1] == "Add":
        return _concat_parts(v[2]) + _concat_parts(v[3])
    if v[0] == "fstr":
        out = []
        for p_ in v[1]:
            if p_[0] == "fmt" and p_[2] is None and p_[3] == -1:
                out += _concat_parts(p_[1])
            else:
                out.append(p_)
        return out
    if v == ("const", ""):
        return []
    return [v]


def _alias_rule(ctx, pkg):
    fn = pkg.method("Species", "alias")
    ctx.saw(SP, "Species.alias")
    # the alias may be assembled by helper methods (also ones that loop: the element-case replacement): what they return is followed
    fl = Flow(pkg.expanded("Species", "alias"), SP, resolver=lambda name: pkg.resolve("Species", name)[1], inline_loops=True)
    st = [f for f in fl.facts if f.kind == "attrstore" and f.target == "_alias"]
    out = {"ok": False, "sanitises": False, "line": fn.lineno}
    if not st:
        ctx.unrec("R6", "Species.alias", (SP, fn.lineno), "no assignment of self._alias in the getter")
        return out
    # the first store builds the alias; later stores may only post-process it (value is a function of self._alias)
    post = []
    v = simp(st[0].value)
    for extra in st[1:]:
        w, wr = _peel_rewrites(simp(extra.value))
        if w != ("attr", SELF, "_alias") or not wr:
            ctx.unrec("R6", "Species.alias", (SP, extra.line), f"a second assignment of self._alias is not a rewrite of the first: {show(simp(extra.value))[:100]}")
            return out
        post += [(extra.line, r) for r in wr]
    v, wr = _peel_rewrites(v)
    post += [(st[0].line, r) for r in wr]
    v_inner = v
    _element_case_scope(ctx, fl)
    # two species are one ODE slot exactly when their aliases are equal: every rewrite of the alias must keep distinct
    # names distinct.  Deleting characters does not ('H2*' -> 'H2I' is the alias of 'H2').
    for ln, (what, pat, repl) in post:
        k = f"Species.alias:injective:{what}({pat!r})"
        if repl == "":
            ctx.bad("R6", k, (SP, ln), "the alias is rewritten by DELETING characters: species whose names differ only in the deleted characters (an excited state 'H2*' and 'H2', isomers 'c-C3H2'/'cC3H2') "
                    "get one identifier, hence one IDX_ macro and one ODE variable", expected="an injective function of (surface, basename, charge)", found=f"{what}({pat!r}, '')")
        elif repl is None:
            if re.search(_ELEMENT_TABLES, str(pat)) and any(x in (("attr", SELF, "charge"), ("attr", SELF, "is_surface")) for x in walk(v_inner)):
                ctx.bad("R6", "Species.alias:suffix outside the element-case rewriting", (SP, ln), _FUSE_MSG, expected="the table of element symbols rewrites the base name only; 'G' and the I/M run are attached afterwards",
                        found=f"{what}({pat}) over {show(v_inner)[:80]}")
            else:
                ctx.unrec("R6", k, (SP, ln), "alias rewrite with a non-literal replacement")
        else:
            ctx.ok("R6", k, (SP, ln), f"characters are substituted by {repl!r}, none deleted (collisions between the substituted characters themselves are not decided)")
    out["line"] = st[0].line
    parts = None
    if v[0] == "meth" and v[2] == "format" and v[1][0] == "const" and re.fullmatch(r"(\{\})+", v[1][1] or ""):
        parts = list(v[3])
    elif v[0] == "fstr" or (v[0] == "binop" and v[1] == "Add"):
        parts = [p[1] if p[0] == "fmt" else p for p in _concat_parts(v)]
    elif v[0] == "join" and v[1] == ("const", "") and v[2][0] in ("list", "tuple") and not any(e[0] == "star" for e in v[2][1]):
        parts = list(v[2][1])                       # "".join([a, b, c])
    elif v[0] == "binop" and v[1] == "Mod" and v[2][0] == "const" and isinstance(v[2][1], str) and re.fullmatch(r"(%s)+", v[2][1]) \
            and v[3][0] == "tuple" and len(v[3][1]) == v[2][1].count("%s"):
        parts = list(v[3][1])                       # "%s%s%s" % (a, b, c)
    if not parts or len(parts) < 3:
        ctx.unrec("R6", "Species.alias", (SP, st[0].line), f"alias is not <phase><basename><charge suffix>: {show(v)[:100]}")
        return out
    phase, base, suffix_parts = parts[0], parts[1], parts[2:]
    ch = ("attr", SELF, "charge")
    want_phase = ("ifexp", ("attr", SELF, "is_surface"), ("const", "G"), ("const", ""))
    # constant-fold the suffix for the charges -3..3: it must be 'I'*(c+1) for c >= 0 and 'M'*|c| otherwise
    ok_suffix = True
    witness = ""
    for c in range(-3, 4):
        try:
            got = "".join(str(fold(p_, {ch: c}, fl)) for p_ in suffix_parts)
        except FoldError as ex:
            ctx.unrec("R6", "Species.alias:charge suffix", (SP, st[0].line), f"the charge suffix is not a function of the charge alone: {ex}")
            return out
        want = "I" * (c + 1) if c >= 0 else "M" * (-c)
        if got != want and ok_suffix:
            ok_suffix = False
            witness = f"charge {c:+d}: suffix {got!r}, convention {want!r}"
    suffix = suffix_parts[0] if len(suffix_parts) == 1 else ("tuple", tuple(suffix_parts))
    # the phase marker, evaluated for an ice and a gas species (whatever the spelling: conditional expression, helper with a guard
    # clause, "G" * flag, ("", "G")[flag])
    surf = ("attr", SELF, "is_surface")
    try:
        marks = tuple(str(fold(phase, {surf: flag}, fl)) for flag in (True, False))
    except FoldError as ex:
        ctx.unrec("R6", "Species.alias:phase marker", (SP, st[0].line), f"the phase marker is not a function of is_surface alone: {ex}")
        return out
    want_phase = phase if marks == ("G", "") else want_phase
    ctx.check(marks == ("G", ""), "R6", "Species.alias:phase marker", (SP, st[0].line), "ice species are marked with the prefix 'G'", expected="'G' if self.is_surface else ''", found=show(phase))
    ctx.check(ok_suffix, "R6", "Species.alias:charge suffix", (SP, st[0].line),
              "the charge is encoded injectively: 'I' * (charge + 1) for charge >= 0, 'M' * |charge| otherwise (X- and X-- get different identifiers)" if ok_suffix else
              f"the charge suffix is not the injective I/M run ({witness}): species differing only in charge share an identifier",
              expected="'I' * (self.charge + 1) if self.charge >= 0 else 'M' * abs(self.charge)", found=show(suffix)[:120])
    out["ok"] = phase == want_phase and ok_suffix
    out["base"] = base
    src = "\n".join(ast.unparse(f) for f in method_closure(pkg, "Species", fn))
    out["sanitises"] = bool(re.search(r"re\.sub\(|\.translate\(|isalnum|isidentifier", src))
    return out


class FoldError(Exception):
    pass


_ELEMENT_TABLES = r"_known_elements|known_elements|periodic_table|isotopes_table|\.Symbol|_replacement|_standard_symbols"
_FUSE_MSG = ("the table that re-spells upper-case element symbols is applied to the ASSEMBLED alias: the letters of the charge run (I / M) and of the phase marker (G) take part in the "
             "replacement and fuse with the base name into an element symbol -- 'S+' -> 'SII' -> 'SiI', the alias of neutral 'SI' -- so two species share one IDX_ macro")


def _element_case_scope(ctx, fl):
    """The alias is <phase><base name><charge run>, and two species share a slot exactly when their aliases are equal.  A rewriting
    of the text keyed by ELEMENT SYMBOLS (the upper-case -> standard spelling table: patterns are letters) is therefore confined to
    the base name: run over text that already holds the 'G' / 'I..' / 'M..' letters, a symbol can match across the seam.  By role:
    every local the getter (helpers put back in place) re-binds in a loop to a `.replace(..)` / re.sub of itself whose pattern comes
    from an element table -- the text it starts from must not depend on the charge or the phase."""
    for name, lst in fl.assigns.items():
        for v, loops, guards, line, seq in lst:
            if not loops:
                continue
            w = simp(v)
            pat = None
            if w[0] == "meth" and w[2] == "replace" and len(w[3]) >= 2 and w[1][0] == "carried" and w[1][1] == name:
                pat = w[3][0]
            elif w[0] == "meth" and w[1] == ("global", "re") and w[2] == "sub" and len(w[3]) >= 3 and w[3][2][0] == "carried" and w[3][2][1] == name:
                pat = w[3][0]
            if pat is None or pat[0] == "const" or not re.search(_ELEMENT_TABLES, show(pat)):
                continue
            inits = [e for e in lst if not e[1] and e[4] < seq]
            if not inits:
                continue
            start = simp(inits[-1][0])
            K = "Species.alias:suffix outside the element-case rewriting"
            if any(x in (("attr", SELF, "charge"), ("attr", SELF, "is_surface")) for x in walk(start)):
                ctx.bad("R6", K, (SP, line), _FUSE_MSG, expected="the table of element symbols rewrites the base name only; 'G' and the I/M run are attached afterwards",
                        found=f"{name} = {show(start)[:100]}; then {name} = {show(w)[:80]} in a loop")
            elif any(isinstance(x, tuple) and x and x[0] in ("unknown", "call", "meth", "acc", "carried", "after", "phi") for x in walk(start)) and start != ("attr", SELF, "basename"):
                ctx.unrec("R6", K, (SP, line), f"the text the element-case table rewrites is not understood: {show(start)[:100]}")
            else:
                ctx.ok("R6", K, (SP, line), "the element-case table rewrites the base name before the phase marker and the charge run are attached")


def class_table(pkg, cname, attr):
    """The list a class-level table holds, wherever its entries are written: a literal in the class body, a module-level constant of
    the class's file (bound once) it names, a concatenation / list(..) / tuple(..) / sorted-free combination of such.  Raises
    AnalysisError (UNRECOGNISED) when the table is built in any other way, MISSING when it vanished."""
    from ..core import AnalysisError, MISSING
    ci = pkg.cls(cname)
    owner, node = pkg.resolve_attr(cname, attr)
    if node is None:
        raise AnalysisError(f"class-level table {cname}.{attr} vanished", (ci.file, ci.node.lineno), MISSING)
    mod = pkg.modules[pkg.classes[owner].file]

    def once(name):
        vals = [st.value for st in mod.body if isinstance(st, (ast.Assign, ast.AnnAssign)) and st.value is not None
                for t in (st.targets if isinstance(st, ast.Assign) else [st.target]) if isinstance(t, ast.Name) and t.id == name]
        return vals[0] if len(vals) == 1 else None

    def ev(e, depth=0):
        if depth > 6 or e is None:
            raise ValueError
        try:
            return list(ast.literal_eval(e)) if isinstance(e, (ast.List, ast.Tuple)) else ast.literal_eval(e)
        except Exception:
            pass
        if isinstance(e, (ast.List, ast.Tuple)):
            out = []
            for x in e.elts:
                out += ev(x.value, depth + 1) if isinstance(x, ast.Starred) else [ev(x, depth + 1)]
            return out
        if isinstance(e, ast.Name):
            return ev(pkg.classes[owner].attrs.get(e.id) or once(e.id), depth + 1)
        if isinstance(e, ast.Attribute) and isinstance(e.value, ast.Name) and e.value.id in (cname, owner):
            return ev(pkg.resolve_attr(cname, e.attr)[1], depth + 1)
        if isinstance(e, ast.BinOp) and isinstance(e.op, ast.Add):
            return list(ev(e.left, depth + 1)) + list(ev(e.right, depth + 1))
        if isinstance(e, ast.Call) and isinstance(e.func, ast.Name) and e.func.id in ("list", "tuple") and len(e.args) == 1 and not e.keywords:
            return list(ev(e.args[0], depth + 1))
        raise ValueError
    try:
        return list(ev(node))
    except (ValueError, TypeError):
        raise AnalysisError(f"the class-level table {cname}.{attr} is not a literal (nor built from literal constants): {ast.unparse(node)[:80]}", (ci.file, getattr(node, "lineno", 0)))


def fold(v, env, flow=None):
    """Constant folding of a small IR expression under a binding of some sub-terms (here: the charge)."""
    if v in env:
        return env[v]
    k = v[0]
    if k == "const":
        return v[1]
    if k == "fmt" and v[2] is None:
        return fold(v[1], env, flow)
    if k == "binop":
        a, b = fold(v[2], env, flow), fold(v[3], env, flow)
        try:
            return {"Add": lambda: a + b, "Sub": lambda: a - b, "Mult": lambda: a * b}[v[1]]()
        except Exception as ex:
            raise FoldError(f"cannot fold {show(v)[:60]}: {ex}")
    if k == "unop" and v[1] == "USub":
        return -fold(v[2], env, flow)
    if k == "unop" and v[1] == "Not":
        return not fold(v[2], env, flow)
    if k == "cmp" and len(v[1]) == 1:
        a, b = fold(v[2][0], env, flow), fold(v[2][1], env, flow)
        return {"Lt": a < b, "LtE": a <= b, "Gt": a > b, "GtE": a >= b, "Eq": a == b, "NotEq": a != b}[v[1][0]]
    if k in ("ifexp", "phi"):        # phi: the two returns of an inlined helper `if c: return a` / `return b`
        return fold(v[2], env, flow) if fold(v[1], env, flow) else fold(v[3], env, flow)
    if k == "sub" and v[1][0] in ("tuple", "list") and not any(e[0] == "star" for e in v[1][1]):
        i = fold(v[2], env, flow)
        if isinstance(i, (int, bool)) and -len(v[1][1]) <= int(i) < len(v[1][1]):
            return fold(v[1][1][int(i)], env, flow)
        raise FoldError(f"index out of range in {show(v)[:60]}")
    if k == "bool":
        r = None
        for x in v[2]:
            r = fold(x, env, flow)
            if (v[1] == "And" and not r) or (v[1] == "Or" and r):
                return r
        return r
    if k == "call" and v[1] == ("global", "abs") and len(v[2]) == 1:
        return abs(fold(v[2][0], env, flow))
    if k == "call" and v[1] in (("global", "max"), ("global", "min")):
        f = max if v[1][1] == "max" else min
        return f(fold(a, env, flow) for a in v[2])
    if k == "call" and v[1] in (("global", "int"), ("global", "bool")) and len(v[2]) == 1:
        return (int if v[1][1] == "int" else bool)(fold(v[2][0], env, flow))
    raise FoldError(f"not a function of the charge: {show(v)[:60]}")


def alias_of(name: str) -> str:
    """The convention of Species.alias for a plain gas-phase name (used only after the rule was verified)."""
    m = re.match(r"^(.*?)(\++|-+)?$", name)
    base, ch = m.group(1), m.group(2) or ""
    c = len(ch) if ch.startswith("+") else -len(ch)
    return base + ("I" * (c + 1) if c >= 0 else "M" * (-c))


# ------------------------------------------------------------------ R1

def _unescape(pat):
    import re._parser as sp
    try:
        p = sp.parse(pat)
    except Exception:
        return None
    if all(op is sp.LITERAL for op, _ in p):
        return "".join(chr(a) for _, a in p)
    return None


def _r1(ctx, pkg, rule):
    sp = pkg.cls("Species")
    elems = class_table(pkg, "Species", "default_elements")
    pseudo = class_table(pkg, "Species", "default_pseudoelements")
    ctx.floor("R1", "default symbols", len(elems) + len(pseudo), 30)
    bad = {}
    for s in elems + pseudo:
        lit = _unescape(s)
        text = lit if lit is not None else s
        for ch in text:
            if not re.match(r"[A-Za-z0-9_]", ch):
                bad.setdefault(ch, []).append(s)
    for s in elems + pseudo:
        lit = _unescape(s) or s
        illegal = sorted({c for c in lit if not re.match(r"[A-Za-z0-9_]", c)})
        ok = not illegal or rule.get("sanitises")
        ctx.check(ok, "R1", f"symbol {s!r} in identifiers", (SP, sp.node.lineno),
                  f"symbol {s!r} consists of identifier characters" if ok else
                  f"symbol {s!r} carries {illegal} into Species.alias unchanged: a species named with it gets an illegal C/Python identifier "
                  f"(e.g. {('H2' + lit) if lit in ('*',) else (lit + 'C3H2')!r} -> IDX_{('H2' + lit + 'I') if lit in ('*',) else (lit + 'C3H2I')})",
                  expected="[A-Za-z0-9_] only, or a sanitising substitution in alias", found=lit)


# ------------------------------------------------------------------ R2

def _r2(ctx, pkg):
    bfn = pkg.method("Species", "basename")
    afn = pkg.method("Species", "alias")
    eqf = pkg.method("Species", "__eq__")
    ctx.saw(SP, "Species.basename")
    # what the two properties compute may sit in helper methods they call
    bsrc = "\n".join(ast.unparse(f) for f in method_closure(pkg, "Species", bfn))
    asrc = "\n".join(ast.unparse(f) for f in method_closure(pkg, "Species", afn))
    # the markers are looked for in the text of the getter and of the methods it calls: when the species is handed whole to other code
    # (a module-level function, getattr / vars), what is read there is not in that text
    escapes = re.search(r"[(,=]\s*self\s*[,)]|getattr\(\s*self\b|vars\(\s*self\b|self\.__dict__", re.sub(r"(?m)^\s*def .*$", "", asrc))
    disj, _ = eq_disjuncts(eqf, resolve=lambda name: pkg.resolve("Species", name)[1])
    ice = [d for d in disj if ("both", "is_surface") in d]
    compared = {l[1] for d in ice for l in d if l[0] == "eq"}
    stripped = {"surface_group": "_surface_group" in bsrc or "surface_group" in bsrc, "charge": "charge" in bsrc}
    for attr, marker in (("charge", "self.charge"), ("surface_group", "surface_group")):
        if not stripped.get(attr) or attr not in compared:
            continue
        enc = marker in asrc
        if not enc and escapes:
            ctx.unrec("R2", f"alias re-encodes {attr}", (SP, afn.lineno), f"Species.alias hands the species itself to code outside the class ({escapes.group(0).strip()}): whether `{attr}` is encoded there is not read")
            continue
        ctx.check(enc, "R2", f"alias re-encodes {attr}", (SP, afn.lineno),
                  f"`{attr}` is stripped by basename, compared by __eq__ and re-encoded by alias" if enc else
                  f"`{attr}` is stripped from the name by basename and compared by Species.__eq__/__hash__, but alias does not re-encode it: "
                  "#1H and #2H are different species with the one identifier GHI",
                  expected=f"alias depends on {attr}", found="alias = 'G' + basename + charge suffix")
    if "is_surface" not in asrc and escapes:
        ctx.unrec("R2", "alias re-encodes the ice phase", (SP, afn.lineno), "Species.alias hands the species itself to code outside the class: whether the phase is encoded there is not read")
    else:
        ctx.check("is_surface" in asrc, "R2", "alias re-encodes the ice phase", (SP, afn.lineno), "the surface prefix stripped by basename comes back as 'G'")


# ------------------------------------------------------------------ R3

def _r3(ctx, pkg):
    sp = pkg.cls("Species")
    from ..pymodel import species_count_method, species_parse_method
    _, pfn = species_parse_method(pkg)
    _, afn = species_count_method(pkg)
    uses_regex = any(isinstance(c, ast.Call) and ast.unparse(c.func) in ("re.finditer", "re.search", "re.match", "re.findall") and
                     isinstance(c.args[0], ast.Name) for c in ast.walk(pfn))
    uses_literal = "in self._known_pseudoelements" in ast.unparse(afn)
    if not (uses_regex and uses_literal):
        ctx.ok("R3", "symbol tables", (SP, pfn.lineno), "the symbol tables are no longer used both as patterns and as literals")
        return
    for tab in ("default_elements", "default_pseudoelements"):
        for s in class_table(pkg, "Species", tab):
            lit = _unescape(s)
            ok = lit == s
            ctx.check(ok, "R3", f"{tab}:{s!r}", (SP, sp.node.lineno),
                      "pattern and literal coincide" if ok else
                      f"entry {s!r} matches the text {lit!r} as a regular expression, but the matched text is looked up literally in the same table "
                      f"(`element in self._known_pseudoelements`): {lit!r} is not found there and is counted as a chemical element",
                      expected="an entry equal to the text it matches", found=f"pattern {s!r} vs text {lit!r}")


# ------------------------------------------------------------------ R4 definitions and counts

def _first_key(v):
    return ("filter", "first", ("call", ("attr", ("attr", v, "element_count"), "keys"), (), ()), (), ())


def _r4_items(ctx, rel, cfg):
    """the template as R4 reads it: includes / macros / configuration tests resolved, and a loop over `S | map(attribute="alias")`
    read as the loop over S it is (its variable being `x.alias`) -- which sequence an index is paired with is what matters"""
    # `{% set %}` names are replaced by what they stand for first (also in loop iterables: `{% set members = network.species %}
    # {% for s in members %}` iterates network.species)
    return J._map_exprs(J.unmap_loops(J.propagate_sets(J.flatten(ctx.tree, rel, cfg))), _recanon)


def _recanon(e):
    """the canonical spellings the parser gives an expression as written, given again after names were replaced by what they stand
    for: iterating a dict iterates its keys (`d | first` is `d.keys() | first`), the first / last item of `X | list` is that of X,
    `x["name"]` of an object is `x.name`"""
    if not isinstance(e, tuple) or not e:
        return e
    e = tuple(_recanon(x) if isinstance(x, tuple) else x for x in e)
    if e[0] == "filter" and e[1] in ("first", "last", "length") and not e[3] and not e[4] and e[2][0] == "filter" and e[2][1] == "list" and not e[2][3] and not e[2][4]:
        e = ("filter", e[1], e[2][2], (), ())
    if e[0] == "filter" and e[1] == "attr" and len(e[3]) == 1 and not e[4] and e[3][0][0] == "const" and isinstance(e[3][0][1], str) and e[3][0][1].isidentifier():
        e = ("attr", e[2], e[3][0][1])          # `x | attr("name")` with a literal name is `x.name`
    if e[0] == "filter" and e[1] in ("first", "last", "list", "length", "join", "sort") and e[2][0] == "attr" and e[2][2] == "element_count":
        e = ("filter", e[1], ("call", ("attr", e[2], "keys"), (), ())) + tuple(e[3:])
    if e[0] == "item" and e[2][0] == "const" and isinstance(e[2][1], str) and e[2][1] in ("alias", "name", "element_count"):
        e = ("attr", e[1], e[2][1])
    return e


def _jsubst(e, sets):
    """the expression with the names bound by earlier `{% set %}` / macro parameters replaced by what they stand for"""
    if isinstance(e, tuple) and len(e) == 2 and e[0] == "name" and e[1] in sets:
        return sets[e[1]]
    if isinstance(e, tuple):
        return tuple(_jsubst(x, sets) if isinstance(x, tuple) else x for x in e)
    return e


def _target_names(tg):
    return [tg[1]] if tg[0] == "name" else [n for x in tg[1] for n in _target_names(x)] if tg[0] in ("tuple", "list") else []


def _stream(items):
    """walk_items as the text it writes: yields (item, stack) like J.walk_items, but an output has the `{% set %}` names (macro
    parameters included) it mentions replaced by their values, and `{{ "lit" ~ x }}` / `{{ "lit" }}` arrive as text + output --
    `IDX_{{ "ELEM_" ~ k }}` and `IDX_ELEM_{{ k }}` are the same stream.  `set` items are passed through (value resolved)."""
    sets = {}
    for it, st in J.walk_items(items):
        k = it[0]
        if k == "set":
            v = _jsubst(it[2], sets)
            if it[1][0] == "name":
                sets[it[1][1]] = v
            yield ("set", it[1], v) + tuple(it[3:]), st
        elif k == "for":
            for n in _target_names(it[1]):
                sets.pop(n, None)          # the loop re-binds the name
            yield it, st
        elif k == "out":
            e = _jsubst(it[1], sets)
            for p_ in _printed_parts(e):
                if p_[0] == "const" and isinstance(p_[1], str):
                    yield ("text", p_[1]) + tuple(it[2:]), st
                else:
                    yield ("out", p_) + tuple(it[2:]), st
        else:
            yield it, st


def _printed_parts(e):
    """what `{{ e }}` prints as a sequence of constant texts and printed values, however the line is assembled: `a ~ b`,
    `"IDX_%s = %d" | format(a, b)`, `"IDX_{} = {}".format(a, b)` (plain %s / %d / %i / {} fields only; anything else is one value)"""
    if e[0] == "concat":
        return [q for p_ in e[1] for q in _printed_parts(p_)]
    fmt = args = None
    if e[0] == "filter" and e[1] == "format" and e[2][0] == "const" and isinstance(e[2][1], str) and not e[4]:
        fmt, args = e[2][1], list(e[3])
        pieces = re.split(r"(%[sdi])", fmt)
        if "%" in "".join(pieces[0::2]) or len(pieces[1::2]) != len(args) or len(args) < 2:
            return [e]
        out = []
        for i, t in enumerate(pieces):
            out.append(("const", t) if i % 2 == 0 else args[i // 2])
        return [p_ for p_ in out if p_ != ("const", "")]
    if e[0] == "call" and e[1][0] == "attr" and e[1][2] == "format" and e[1][1][0] == "const" and isinstance(e[1][1][1], str) and not e[3]:
        fmt, args = e[1][1][1], list(e[2])
        pieces = re.split(r"(\{\d*\})", fmt)
        if "{" in "".join(pieces[0::2]) or "}" in "".join(pieces[0::2]) or len(args) < 2:
            return [e]
        out, auto = [], 0
        for i, t in enumerate(pieces):
            if i % 2 == 0:
                out.append(("const", t))
                continue
            j = int(t[1:-1]) if t[1:-1] else auto
            auto += 0 if t[1:-1] else 1
            if j >= len(args):
                return [e]
            out.append(args[j])
        return [p_ for p_ in out if p_ != ("const", "")]
    return [e]


def _loop_stream(loop):
    """the direct body of a for item as [("text", s) | ("out", e)], or None when it holds a nested loop"""
    if any(x[0] == "for" for x in loop[3]):
        return None
    return [x for x, _ in _stream(loop[3]) if x[0] in ("text", "out")]


def _plain(e):
    """the value an output prints, without formatting that does not change the text of an identifier / an integer: `x | int`,
    `x | string`, `x | trim`, `"%d" | format(x)`, `"{}".format(x)`"""
    while True:
        if e[0] == "filter" and e[1] in ("int", "string", "trim") and not e[3] and not e[4]:
            e = e[2]
        elif e[0] == "filter" and e[1] == "format" and e[2][0] == "const" and e[2][1] in ("%d", "%s", "%i") and len(e[3]) == 1 and not e[4]:
            e = e[3][0]
        elif e[0] == "call" and e[1][0] == "attr" and e[1][2] == "format" and e[1][1][0] == "const" and e[1][1][1] in ("{}", "{0}", "{:d}", "{0:d}") and len(e[2]) == 1 and not e[3]:
            e = e[2][0]
        else:
            return e


SELECTING = {"select", "reject", "selectattr", "rejectattr", "sort", "reverse", "unique", "batch", "slice", "first", "last", "random", "groupby", "dictsort"}


def _seq_verdict(e, test, seq):
    """'ok' when a loop over `e` (with the loop filter `test`) visits exactly the members of `seq` in order (`seq`, `seq | list`);
    'wrong' when it is understood and does not: `seq` selected from / re-ordered / sliced, a loop filter, another sequence of the
    same template object (network.elements for network.species);  'unknown' for anything else (a name of unknown origin, a filter
    this rule does not know, a call)"""
    base, fs = J.unfilter(e)
    fs = [f_ for f_ in fs if not (f_[0] in ("list", "tuple") and not f_[1] and not f_[2])]
    if base == seq:
        if not fs:
            return "wrong" if test is not None else "ok"
        return "wrong" if any(f_[0] in SELECTING for f_ in fs) else "unknown"
    if base[0] == "item" and base[1] == seq and base[2][0] == "slice":
        return "wrong"
    if base[0] == "attr" and base[1] == seq[1] and base[2] != seq[2] and base[1][0] == "name":
        return "wrong"
    return "unknown"


def _def_loops(ctx, rel, prefix_re, seq, suffix_of, what, expected):
    """loops `for v in <seq>` whose body writes `<prefix><suffix(v)> <sep> loop.index0` (through {% set %} names or a macro alike)."""
    items = _r4_items(ctx, rel, {})
    ctx.saw(rel)
    hits = []
    for it, st in _stream(items):
        if it[0] == "for":
            body = _loop_stream(it)
            if body is not None and re.search(prefix_re, "".join(x[1] if x[0] == "text" else "\x00" for x in body)):
                hits.append((it, body))
    key = f"{rel.split('/')[-1]}:{what}"
    if len(hits) != 1:
        # several loops (one per kind of species, say).  Understood and wrong: a defining loop that walks a SELECTION of the sequence
        # (`network.species | selectattr(..)`, a slice, a loop filter) -- whatever offset it adds, the position it writes is not the
        # position the member has in the unfiltered sequence, which is what the positional tables of the generator use.  Anything
        # else about several loops is not understood -- no verdict
        sel = [it for it, _ in hits if _seq_verdict(it[2], it[7], seq) == "wrong"]
        if sel:
            ctx.bad("R4", key, (rel, sel[0][5]), f"{expected} is paired with loop.index0 over the unfiltered {J.show(seq)}",
                    expected=f"one loop over {J.show(seq)}", found=f"{len(hits)} loops, one over the selection {J.show(sel[0][2])[:100]}")
            return
        (ctx.unrec if hits else ctx.missing)("R4", key, (rel, hits[0][0][5] if hits else 0), f"expected one loop defining {expected}, found {len(hits)}")
        return
    it, body = hits[0]
    outs = [x for x in body if x[0] == "out"]
    outs = [("out", _plain(x[1])) + tuple(x[2:]) for x in outs]
    ok = _seq_verdict(it[2], it[7], seq) == "ok" and len(outs) == 2 and outs[0][1] == suffix_of(it[1]) and outs[1][1] == IDX0
    if not ok:
        # VIOLATION only for a pairing that is understood and wrong: the right sequence filtered / re-ordered, another attribute of
        # the loop variable, a position computed from the loop counters alone.  Anything else (a counter kept in a namespace, a
        # sequence of unknown origin) is not understood.
        wrong, unknown = [], []
        sv = _seq_verdict(it[2], it[7], seq)
        if sv != "ok":
            (wrong if sv == "wrong" else unknown).append(f"iterates {J.show(it[2])}")
        if not (outs and outs[0][1] == suffix_of(it[1])):
            # another attribute of the loop variable, or an item picked by position out of the right sequence filtered / re-ordered
            resorted = bool(outs) and any(isinstance(x, tuple) and len(x) == 3 and x[0] == "item" and x[1] != seq and J.unfilter(x[1])[0] == seq for x in _walk(outs[0][1]))
            (wrong if outs and (resorted or J.names_of(outs[0][1]) <= set(_target_names(it[1]))) else unknown).append("suffix " + (J.show(outs[0][1]) if outs else "missing"))
        if not (len(outs) == 2 and outs[1][1] == IDX0):
            (wrong if len(outs) == 2 and J.names_of(outs[1][1]) <= {"loop"} else unknown).append("position " + " ".join(J.show(o[1]) for o in outs[1:]))
        if unknown and not wrong:
            ctx.unrec("R4", key, (rel, it[5]), f"the loop defining {expected} is not understood: {'; '.join(unknown)}")
            return
    ctx.check(ok, "R4", key, (rel, it[5]),
              f"{expected} is paired with loop.index0 over the unfiltered {J.show(seq)}",
              expected=f"for v in {J.show(seq)}: {expected.split('<')[0]}{{{{ {J.show(suffix_of(('name', 'v')))} }}}} {{{{ loop.index0 }}}}",
              found=f"for {J.show(it[1])} in {J.show(it[2])}: " + " ".join(J.show(o[1]) for o in outs))


def _partition_count(v, attr, owner):
    """`len(A) + len(B) + ..` with every term a selection `[.. for x in net.<attr> if <test of flags of x>]` of the SAME sequence:
    -> (True, "") when the tests partition the sequence (exactly one holds for every member), (False, witness) when some member is
    counted twice or not at all; None when the value is not such a sum or a test is not a boolean combination of flags `x.<flag>`.
    The flags are taken as independent, except that no species is both a grain and a surface species (the parser sets one kind)."""
    def terms(e):
        if e[0] == "binop" and e[1] == "Add":
            a, b = terms(e[2]), terms(e[3])
            return None if a is None or b is None else a + b
        if e[0] == "call" and e[1] == ("global", "len") and len(e[2]) == 1 and not e[3]:
            return [e[2][0]]
        return None
    ts = terms(v)
    if not ts or len(ts) < 2:
        return None
    tests, flags = [], set()

    def ev(c, x, env):
        if c == ("const", True) or c == ("const", False):
            return c[1]
        if c[0] == "attr" and c[1] == x:
            return env[c[2]]
        if c[0] == "unop" and c[1] == "Not":
            return not ev(c[2], x, env)
        if c[0] == "bool":
            vals = [ev(y, x, env) for y in c[2]]
            return all(vals) if c[1] == "And" else any(vals)
        raise KeyError

    def collect(c, x):
        if c[0] == "attr" and c[1] == x:
            flags.add(c[2])
        elif c[0] == "unop" and c[1] == "Not":
            collect(c[2], x)
        elif c[0] == "bool":
            for y in c[2]:
                collect(y, x)
        else:
            raise KeyError
    for t in ts:
        if t[0] == "acc" and owner is not None:
            t = acc_comp(owner, t[1]) or t
        m = as_map(t)
        if not m or not (m[2][0] == "attr" and m[2][2] == attr):
            return None
        try:
            for c in m[3]:
                collect(c, m[0])
        except KeyError:
            return None
        tests.append((m[0], m[3]))
    if len(flags) > 5 or len({as_map(t if t[0] != "acc" or owner is None else (acc_comp(owner, t[1]) or t))[2] for t in ts}) != 1:
        return None
    fl_ = sorted(flags)
    import itertools as _it
    for bits in _it.product((False, True), repeat=len(fl_)):
        env = dict(zip(fl_, bits))
        if env.get("is_grain") and env.get("is_surface"):
            continue
        hits = sum(1 for x, cs in tests if all(ev(c, x, env) for c in cs))
        if hits != 1:
            return False, f"a member with {', '.join(k + '=' + str(b) for k, b in env.items())} is counted {hits} times"
    return True, ""


def _r4_defs(ctx, pkg):
    alias = lambda v: ("attr", v, "alias")
    for rel in (MACROS, PYIDX):
        _def_loops(ctx, rel, r"IDX_ELEM_\x00", NELEM, _first_key, "IDX_ELEM_ definitions", "IDX_ELEM_<suffix>")
        # species loop: 'IDX_' directly followed by the output, not 'IDX_ELEM_'
        _def_loops(ctx, rel, r"IDX_\x00", NSPEC, alias, "IDX_ definitions", "IDX_<alias>")
    # constants.py: lists and counts
    ctx.saw(PYCONST)
    items = _r4_items(ctx, PYCONST, {})
    lists = {"ALL_ELEMENTS": (NELEM, "name"), "ALL_SPECIES": (NSPEC, "name"), "ALL_ALIAS": (NSPEC, "alias")}
    prev = ""
    found = {}
    for it in items:
        if it[0] == "text":
            prev += it[1]            # (a name printed by a macro from a literal argument arrives as its own piece of text)
        elif it[0] in ("set", "other"):
            continue                 # parameter bindings / markers of a macro expansion print nothing
        elif it[0] == "for":
            m = re.search(r"(\w+)\s*=\s*\[\s*$", prev)
            if m:
                found[m.group(1)] = it
            prev = ""
        elif it[0] == "out":
            m = re.search(r"(\w+)\s*=\s*$", prev)
            if m:
                found[m.group(1)] = it
            prev = ""
    for name, (seq, attr) in lists.items():
        it = found.get(name)
        key = f"constants.py:{name}"
        if it is None:
            ctx.missing("R4", key, (PYCONST, 0), f"no `{name} = [..]` found in the constants module")
            continue
        if it[0] != "for":
            # written in another way (a join over a mapped sequence, a macro): which sequence it lists is not read here
            ctx.unrec("R4", key, (PYCONST, it[2]), f"{name} is not written as a loop over a sequence: {J.show(it[1])[:80]}")
            continue
        outs = [_plain(x[1]) for x, _ in _stream(it[3]) if x[0] == "out"]
        sv = _seq_verdict(it[2], it[7], seq)
        named = len(outs) == 1 and outs[0] == ("attr", it[1], attr)
        other_attr = len(outs) == 1 and outs[0][0] == "attr" and outs[0][1] == it[1] and outs[0][2] != attr
        if sv == "unknown" or not (named or other_attr):
            if sv == "wrong":
                ctx.bad("R4", key, (PYCONST, it[5]), f"{name} lists a selection / another order of {J.show(seq)}: position n is no longer index n", found=J.show(it[2]))
            else:
                ctx.unrec("R4", key, (PYCONST, it[5]), f"what {name} lists is not understood: for {J.show(it[1])} in {J.show(it[2])}: " + " ".join(J.show(o) for o in outs)[:80])
            continue
        ctx.check(sv == "ok" and named, "R4", key, (PYCONST, it[5]),
                  f"{name} lists .{attr} over the unfiltered {J.show(seq)} (position n = index n)", found=f"for {J.show(it[1])} in {J.show(it[2])}: " + " ".join(J.show(o) for o in outs))
    for name, seq in (("NELEM", NELEM), ("NSPEC", NSPEC)):
        it = found.get(name)
        key = f"constants.py:{name}"
        if it is None:
            ctx.missing("R5", key, (PYCONST, 0), f"no `{name} = ..` found in the constants module")
            continue
        if it[0] != "out":
            ctx.unrec("R5", key, (PYCONST, it[5]), f"{name} is not one printed value")
            continue
        c = J.canon(_recanon(it[1]))
        if not (c[0] == "filter" and c[1] == "length"):
            ctx.unrec("R5", key, (PYCONST, it[2]), f"{name} is not the length of a sequence: {J.show(it[1])[:80]}")
            continue
        sv = _seq_verdict(c[2], None, seq)
        if sv == "unknown":
            ctx.unrec("R5", key, (PYCONST, it[2]), f"{name} counts a sequence this rule does not know: {J.show(c[2])[:80]}")
            continue
        ctx.check(sv == "ok", "R5", key, (PYCONST, it[2]), f"{name} = {J.show(seq)} | length", found=J.show(it[1]))
    # render.py summary and NetworkConfiguration
    # by role: the lists are what is stored under summary["list_of_..."], in whichever method of the command builds the table
    # (a `for key, names in {..}.items(): summary[f"list_of_{key}"] = names` loop is one store per entry)
    rc = pkg.cls("RenderCommand")
    h = pkg.method("RenderCommand", "handle")
    ctx.saw(RENDER, "RenderCommand.handle")
    stored, counts = {}, []
    # ... or in a function of the command's module the table was moved to
    scopes = list(rc.methods.values()) + [g for (f_, _), g in pkg.functions.items() if f_ == RENDER]
    flows = [Flow(mfn, RENDER) for mfn in scopes]

    def at_call_site(mfl, val):
        """a value written in terms of the parameters of a helper (`def _summary(species, elements)`) in terms of what its (single)
        call site in the command passes for them"""
        g = mfl.func
        params = [a.arg for a in g.args.args]
        if not any(isinstance(x, tuple) and len(x) == 2 and x[0] == "param" and x[1] in params and x[1] not in ("self", "cls") for x in walk(val)):
            return val
        decs = {ast.unparse(d) for d in g.decorator_list}
        sites = []
        for ofl in flows:
            if ofl is mfl:
                continue
            vals = [v for lst in ofl.assigns.values() for v, *_ in lst] + [f.value for f in ofl.facts if f.value is not None] + [f.index for f in ofl.facts if f.index is not None]
            for v in vals:
                for x in walk(v):
                    if isinstance(x, tuple) and len(x) == 4 and x[0] == "call" and x[1] == ("global", g.name) and x not in sites:
                        sites.append(x)
                    elif isinstance(x, tuple) and len(x) == 5 and x[0] == "meth" and x[2] == g.name and x[1][0] in ("param", "global") and x not in sites:
                        sites.append(x)
        if len(sites) != 1:
            return val
        c = sites[0]
        args, kws = (c[2], c[3]) if c[0] == "call" else (c[3], c[4])
        ps = params if (c[0] == "call" or "staticmethod" in decs) else params[1:]
        if len(args) > len(ps) or any(a[0] == "star" for a in args) or any(k not in ps for k, _ in kws):
            return val
        bind = {("param", p_): a for p_, a in zip(ps, args)}
        bind.update({("param", k): a for k, a in kws})
        return simp(subst(val, bind))
    for mfl in flows:
        for f in mfl.facts:
            if f.kind != "store" or f.index is None:
                continue
            for idx, val in expand_dict_loops(f):
                if idx[0] == "const" and isinstance(idx[1], str) and idx[1].startswith("list_of_"):
                    stored[idx[1]] = (mfl, f, val)
                elif idx[0] == "const" and idx[1] in ("num_of_elements", "num_of_species"):
                    counts.append((idx[1], f, val))
                elif idx[0] != "const" and any(isinstance(x, tuple) and x[:1] == ("const",) and isinstance(x[1], str) and x[1].startswith(("list_of_", "num_of_")) for x in walk(idx)):
                    ctx.unrec("R4", f"render.py summary:{show(idx)[:40]}", (RENDER, f.line), "a summary key that is not a literal (nor a literal-table loop)")
        # the table written as a dict display (`summary = {"num_of_species": len(..), "list_of_species": [..], ..}`, `.update({..})`)
        seen_d = set()
        for v, ln in [(v, ln) for lst in mfl.assigns.values() for v, _, _, ln, _ in lst] + [(f.value, f.line) for f in mfl.facts if f.value is not None]:
            for x in walk(v):
                if isinstance(x, tuple) and len(x) == 2 and x[0] == "dict" and x not in seen_d and x[1] and all(len(e) == 2 for e in x[1]):
                    seen_d.add(x)
                    for k_, val in x[1]:
                        if k_[0] == "const" and isinstance(k_[1], str):
                            fake = type("F", (), {"line": ln})()
                            if k_[1].startswith("list_of_") and k_[1] not in stored:
                                stored[k_[1]] = (mfl, fake, val)
                            elif k_[1] in ("num_of_elements", "num_of_species") and not any(c[0] == k_[1] for c in counts):
                                counts.append((k_[1], fake, val))
    for nm, (skey, attr, fld) in {"all_elements": ("list_of_elements", "elements", "name"), "all_species": ("list_of_species", "species", "name"),
                                  "all_alias": ("list_of_species_alias", "species", "alias")}.items():
        key = f"render.py summary:{nm}"
        if skey not in stored:
            ctx.missing("R4", key, (RENDER, h.lineno), f"no store of summary[{skey!r}] found in RenderCommand")
            continue
        mfl, sf, val = stored[skey]
        val = simp(val)
        if val[0] == "acc":
            # a list filled by `x.append(..)` in a loop next to other statements
            comp = acc_comp(mfl, val[1])
            if comp is None:
                ctx.unrec("R4", key, (RENDER, sf.line), f"the list `{val[1]}` is accumulated in a way that is not understood (not one append in one loop)")
                continue
            val = comp
        val = at_call_site(mfl, val)
        m = as_map(val)
        if m and m[2][0] != "attr":
            # the right sequence re-ordered / de-duplicated / sliced is understood (and wrong: positions no longer agree)
            core = m[2]
            while (core[0] == "call" and core[1] in (("global", "sorted"), ("global", "reversed"), ("global", "set"), ("global", "frozenset")) and core[2]) or \
                    (core[0] == "sub" and core[2][0] == "slice"):
                core = core[2][0] if core[0] == "call" else core[1]
            if core != m[2] and core[0] == "attr" and core[2] == attr:
                ctx.bad("R4", key, (RENDER, sf.line), f"{nm} is built from net.{attr} re-ordered / filtered ({show(m[2])[:80]}): entry n is no longer the species with index n",
                        expected=f"[x.{fld} for x in net.{attr}]", found=show(val)[:120])
                continue
        if not m or m[2][0] not in ("attr",):
            # not a map over an attribute of the network (the result of a call that could not be followed, a parameter with several
            # call sites): where the entries come from is not known
            ctx.unrec("R4", key, (RENDER, sf.line), f"summary[{skey!r}] is not a list built from a network sequence: {show(val)[:100]}")
            continue
        bv, body, base, ifs = m
        ok = body == ("attr", bv, fld) and not ifs and base[0] == "attr" and base[2] == attr and base[1][0] != "const"
        # understood and wrong: one field of each member of a sequence of the network -- another field, another sequence, or a selection.
        # An entry computed in another way (a call on the member, a nested attribute) is not understood.
        if not ok and not (body[0] == "attr" and body[1] == bv and base[0] == "attr"):
            ctx.unrec("R4", key, (RENDER, sf.line), f"summary[{skey!r}]: what is listed per member is not understood: [{show(body)[:60]} for .. in {show(base)[:60]}]")
            continue
        ctx.check(ok, "R4", key, (RENDER, sf.line), f"{nm} = [x.{fld} for x in net.{attr}] (same sequence, same order)",
                  found=f"[{show(body)} for .. in {show(base)}{' if ' + ' and '.join(show(c) for c in ifs) if ifs else ''}]")
    for name, f, v in counts:
        attr = "elements" if "elements" in name else "species"
        v = simp(v)
        owner = next((fl_ for fl_ in flows if any(f_ is f for f_ in fl_.facts)), None)
        if owner is not None:
            v = at_call_site(owner, v)
        ok = False
        m = None
        if v[0] == "call" and v[1] == ("global", "len") and len(v[2]) == 1 and not v[3]:
            # the length of the sequence itself, or of a list with one entry per member of it (unfiltered, one-to-one)
            arg = v[2][0]
            if arg[0] == "acc" and owner is not None:
                arg = acc_comp(owner, arg[1]) or arg
            m = as_map(arg)
            ok = bool(m) and not m[3] and m[2][0] == "attr" and m[2][2] == attr and m[2][1][0] != "const"
        part = _partition_count(v, attr, owner) if not ok else None
        if part is not None:
            okp, why = part
            ctx.check(okp, "R5", f"render.py summary:{name}", (RENDER, f.line),
                      f"{name} adds up the sizes of selections of net.{attr} that partition it" if okp else
                      f"{name} adds up the sizes of selections of net.{attr} that do not partition it ({why}): the count disagrees with NSPECIES / the listed names",
                      expected=f"len(net.{attr})", found=show(v)[:100])
            continue
        if not ok and not (m and m[2][0] == "attr" and m[2][1][0] in ("param", "global", "attr", "call", "meth")):
            # not the length of a list built from an attribute of the network object: what is counted is not understood
            ctx.unrec("R5", f"render.py summary:{name}", (RENDER, f.line), f"{name} is not the length of a network sequence: {show(v)[:80]}")
            continue
        ctx.check(ok, "R5", f"render.py summary:{name}", (RENDER, f.line), f"{name} = len(net.{attr})", found=show(v)[:60])
    ctx.floor("R5", "render.py summary counts", len(counts), 2, (RENDER, h.lineno))
    ci = pkg.cls("NetworkConfiguration")
    init = ci.methods["__init__"]
    ctx.saw(CONF, "NetworkConfiguration.__init__")
    cfl = Flow(init, CONF)
    N = ("param", "network")
    want = {"_network_elements": (("attr", N, "elements"), "name"), "_network_species": (("attr", N, "species"), "name"), "_network_alias": (("attr", N, "species"), "alias")}
    for f in cfl.facts:
        if f.kind == "attrstore" and f.target in want:
            seq, fld = want[f.target]
            val = simp(f.value)
            if val[0] == "acc":
                val = acc_comp(cfl, val[1]) or val           # a list filled by one append in one loop
            m = as_map(val)
            if not m:
                ctx.unrec("R4", f"NetworkConfiguration:{f.target}", (CONF, f.line), f"{f.target} is not a list built from a network sequence: {show(val)[:100]}")
                continue
            ok = bool(m) and m[1] == ("attr", m[0], fld) and m[2] == seq and not m[3]
            # understood and wrong: a list over an attribute of the network argument that is another one / filtered / another field
            if not ok and not (m[2][0] == "attr" and m[2][1] == N and m[1][0] == "attr" and m[1][1] == m[0]):
                ctx.unrec("R4", f"NetworkConfiguration:{f.target}", (CONF, f.line), f"{f.target} is not a list of one field over a sequence of the network argument: {show(val)[:100]}")
                continue
            ctx.check(ok, "R4", f"NetworkConfiguration:{f.target}", (CONF, f.line), f"{f.target} = [x.{fld} for x in network.{seq[2]}]", found=show(simp(f.value))[:80])
    # enzo header
    ctx.saw(ENZOH)
    items = _r4_items(ctx, ENZOH, {})
    # by role: the loops that write `A_<..>` -- the definitions and the positional table
    loops = []
    for it, st in _stream(items):
        if it[0] == "for":
            body = _loop_stream(it)
            if body is not None and re.search(r"\bA_\x00", "".join(x[1] if x[0] == "text" else "\x00" for x in body)):
                loops.append((it, body))
    key = "naunet_enzo.h:A_ table"
    if len(loops) != 2:
        (ctx.unrec if loops else ctx.missing)("R4", key, (ENZOH, loops[0][0][5] if loops else 0), f"expected the A_<alias> definitions and the A_Table loop, found {len(loops)} loops writing A_<..>")
    else:
        verdicts, found = [], []
        for it, body in loops:
            # the value printed right after `A_`
            suffix, prev = None, ""
            for x in body:
                if x[0] == "text":
                    prev += x[1]
                else:
                    if re.search(r"\bA_$", prev) and suffix is None:
                        suffix = _plain(x[1])
                    prev = ""
            sv = _seq_verdict(it[2], it[7], NSPEC)
            found.append(f"for {J.show(it[1])} in {J.show(it[2])}: A_{J.show(suffix) if suffix else '?'}")
            if suffix == ("attr", it[1], "alias") and sv == "ok":
                verdicts.append("ok")
            elif sv == "wrong" or (sv == "ok" and suffix is not None and suffix[0] == "attr" and suffix[1] == it[1]):
                verdicts.append("wrong")
            else:
                verdicts.append("unknown")
        if "wrong" not in verdicts and "unknown" in verdicts:
            ctx.unrec("R4", key, (ENZOH, loops[0][0][5]), "a loop writing A_<..> is not understood: " + "; ".join(found))
        else:
            ctx.check("wrong" not in verdicts, "R4", key, (ENZOH, loops[0][0][5]),
                      "A_<alias> definitions and A_Table[NSPECIES] both range over the unfiltered network.species in order", found="; ".join(found))


# ------------------------------------------------------------------ R4 uses in templates

def _iter_bases(e):
    """network sequences a for-iterable draws its items from, per target position."""
    if e[0] == "call" and e[1] == ("name", "zip"):
        return [J.unfilter(a)[0] for a in e[2]]
    return [J.unfilter(e)[0]]


def _r4_uses(ctx):
    rels = [r for r in J.all_templates(ctx.tree) if "/tests/" not in r and "/data/" not in r]
    nuse = 0
    for rel in rels:
        cfgs = [{}]
        if rel.endswith("Grid_NaunetWrapper.C.j2"):
            cfgs = [{"device": "cpu"}, {"device": "gpu"}]
        for cfg in cfgs:
            items = _r4_items(ctx, rel, cfg)
            prev = ""
            # `{% set elemname = .. %}` / macro parameters: a later {{ elemname }} is that expression; {{ "ELEM_" ~ x }} is text + {{ x }}
            for it, st in _stream(items):
                if it[0] == "text":
                    prev += it[1]
                    continue
                if it[0] != "out":
                    continue
                m = re.search(r"IDX_(ELEM_)?$", prev)
                prev = ""
                if not m:
                    continue
                nuse += 1
                is_elem = bool(m.group(1))
                e = it[1]
                loops = [s for s in st if s[0] == "for"]
                # the loop variable's own name is not part of the construct's identity (`s.alias` and `spec.alias` are the same site)
                shown = J.show(e)
                if e[0] == "attr" and e[1][0] == "name":
                    shown = "s." + e[2] if e[2] == "alias" and not is_elem else shown
                key = f"{rel.split('/')[-1]}:{cfg.get('device', '')}:line {it[2]}:IDX_{'ELEM_' if is_elem else ''}{shown}"
                # which loop variable?
                var = None
                if not is_elem and e[0] == "attr" and e[2] == "alias":
                    var = e[1]
                elif is_elem:
                    var = next((x for x in (v for v in _vars_in(e))), None)
                src = None
                for lp in reversed(loops):
                    tg = lp[1]
                    tgs = list(tg[1]) if tg[0] in ("tuple", "list") else [tg]
                    if var in tgs:
                        bases = _iter_bases(lp[2])
                        src = bases[tgs.index(var)] if len(bases) == len(tgs) else bases[0]
                        break
                want_seq = NELEM if is_elem else NSPEC
                # where the item comes from is not understood (no enclosing loop binds it, the suffix is not an attribute of a loop
                # variable): no verdict.  A VIOLATION needs a source that is understood and is another sequence / another suffix.
                if src is None or var is None or (is_elem and e != _first_key(var) and not (J.names_of(e) <= {var[1]})):
                    ctx.unrec("R4", key, (rel, it[2]), f"IDX_{'ELEM_' if is_elem else ''}{{{{ {J.show(e)} }}}}: the item the suffix is taken from is not a variable of an enclosing loop over a known sequence")
                    continue
                sv = _seq_verdict(src, None, want_seq)
                rooted = src[0] == "attr" and src[1][0] == "name"          # a sequence of a template object: network.x, species.x
                if sv != "ok" and not (rooted or sv == "wrong"):
                    ctx.unrec("R4", key, (rel, it[2]), f"IDX_{'ELEM_' if is_elem else ''}{{{{ {J.show(e)} }}}}: the loop takes its items from {J.show(src)}, a sequence this rule does not know")
                    continue
                if is_elem:
                    ok = src == want_seq and e == _first_key(var)
                    ctx.check(ok, "R4", key, (rel, it[2]), "the element macro used is the one the header defines for an element of network.elements",
                              expected="IDX_ELEM_{{ elem.element_count.keys() | first }} with elem from network.elements", found=f"{J.show(e)} with {J.show(var) if var else '?'} from {J.show(src) if src else '?'}")
                else:
                    ok = src == want_seq and var is not None
                    ctx.check(ok, "R4", key, (rel, it[2]),
                              "the index macro used is IDX_<alias> of a species of network.species (the sequence the header enumerates)" if ok else
                              f"IDX_{{{{ {J.show(e)} }}}} takes the species from {J.show(src) if src else 'an unknown source'}, not from network.species: its alias may have been "
                              "overridden (grackle names such as De) and is then not a macro the header defines",
                              expected="x from network.species", found=J.show(src) if src else "?")
    ctx.floor("R4", "IDX_ uses in templates", nuse, 12)
    # map-filter spellings: network.species | map(attribute="alias") | map("prefix", "y[IDX_") ...
    n2 = 0
    for rel in rels:
        items = _r4_items(ctx, rel, {})
        sets = {}

        def res(e):
            # values are stored resolved: one lookup (a macro parameter bound to the caller's variable of the same name,
            # `{% set x = x %}`, stays the name)
            return _jsubst(e, sets)
        for it, st in J.walk_items(items):
            exprs = []
            if it[0] == "set":
                if it[1][0] == "name":
                    sets[it[1][1]] = res(it[2])
                exprs.append(res(it[2]))
            elif it[0] == "out":
                exprs.append(res(it[1]))
            elif it[0] == "for":
                exprs.append(res(it[2]))
            line = it[5] if it[0] == "for" else it[-2]
            for e in exprs:
                for x in _walk(e):
                    if x[0] == "filter" and x[1] == "map" and x[3] and x[3][0] == ("const", "prefix") and len(x[3]) > 1 and x[3][1][0] == "const" \
                            and re.search(r"IDX_(ELEM_)?$", str(x[3][1][1])):
                        is_elem = "IDX_ELEM_" in x[3][1][1]
                        inner = x[2]
                        while inner[0] == "filter" and inner[1] == "list" and not inner[3] and not inner[4]:
                            inner = inner[2]                    # `| list` in the middle of the chain changes nothing
                        key = f"{rel.split('/')[-1]}:line {line}:map prefix {x[3][1][1]}"
                        n2 += 1
                        if is_elem:
                            want = ("filter", "map", ("filter", "map", NELEM, (), (("attribute", ("const", "element_count")),)), (("const", "first"),), ())
                            ok = inner == want
                            understood = ok or (inner[0] == "filter" and inner[1] == "map" and J.unfilter(inner)[0][0] == "attr" and J.unfilter(inner)[0][1] == ("name", "network"))
                        else:
                            ok_inner = inner[0] == "filter" and inner[1] == "map" and inner[4] == (("attribute", ("const", "alias")),)
                            base = J.unfilter(inner[2])[0] if ok_inner else None
                            ok = ok_inner and base == NSPEC
                            # understood and wrong: another attribute mapped, or the names of another sequence of the network
                            understood = ok or (inner[0] == "filter" and inner[1] == "map" and not inner[3] and len(inner[4]) == 1 and inner[4][0][0] == "attribute"
                                                and J.unfilter(inner[2])[0][0] == "attr" and J.unfilter(inner[2])[0][1] == ("name", "network"))
                        if not understood:
                            ctx.unrec("R4", key, (rel, line), f"the names the macro prefix is mapped over are not understood: {J.show(inner)[:120]}")
                            continue
                        ctx.check(ok, "R4", key, (rel, line),
                                  "the mapped macro names come from (a selection of) the sequence the header enumerates, with the same suffix", found=J.show(inner)[:120])
    ctx.floor("R4", "mapped IDX_ names", n2, 6)


def _vars_in(e):
    if isinstance(e, tuple):
        if len(e) == 2 and e[0] == "name":
            yield e
        for x in e:
            if isinstance(x, tuple):
                yield from _vars_in(x)


def _walk(e):
    if isinstance(e, tuple):
        if e and isinstance(e[0], str):
            yield e
        for x in e:
            if isinstance(x, tuple):
                yield from _walk(x)


# ------------------------------------------------------------------ R6

def _r6(ctx, pkg, rule):
    # literal macros in templates and sources follow the convention
    lits = {}
    for rel in J.all_templates(ctx.tree):
        if "/tests/" in rel:
            continue
        # (template comments {# .. #} print nothing)
        for m in re.finditer(r"\bIDX_(?!ELEM_)([A-Za-z0-9_]+)\b", re.sub(r"\{#.*?#\}", "", ctx.tree.read(rel), flags=re.S)):
            t = m.group(1)
            if t in ("TGAS",):
                continue
            lits.setdefault(t, rel)
    for f in pkg.files:
        # only text the program can print: the string constants of the module (f-string pieces included) -- not its comments, not its
        # docstrings (`# n(IDX_X) -> y[IDX_X]` explains a rewriting, it names no species)
        mod = pkg.modules[f]
        docs = {id(st.value) for n in ast.walk(mod) if isinstance(n, (ast.Module, ast.ClassDef, ast.FunctionDef, ast.AsyncFunctionDef)) for st in n.body[:1]
                if isinstance(st, ast.Expr) and isinstance(st.value, ast.Constant) and isinstance(st.value.value, str)}
        for c in ast.walk(mod):
            if not (isinstance(c, ast.Constant) and isinstance(c.value, str) and id(c) not in docs):
                continue
            for m in re.finditer(r"IDX_(?!ELEM_)([A-Za-z0-9]+)\b", c.value):
                t = m.group(1)
                if t not in ("TGAS",) and not t.startswith("ELEM"):
                    lits.setdefault(t, f)
    n = 0
    for t, where in sorted(lits.items()):
        n += 1
        ok = re.fullmatch(r"G?[A-Za-z0-9]*[A-Za-z0-9](I+|M+)", t) is not None and not re.search(r"[+\-]", t)
        ctx.check(ok, "R6", f"literal IDX_{t}", (where, 0), f"IDX_{t} is an identifier the alias convention can produce (<name><I../M..>)", found=t)
    ctx.floor("R6", "literal IDX_ macros", n, 4)
    # grackle table
    ep = pkg.cls("EnzoPatch")
    ctx.saw(PATCH, "EnzoPatch")
    names = class_table(pkg, "EnzoPatch", "grackle_species_name")
    aliases = class_table(pkg, "EnzoPatch", "grackle_defined_alias")
    ctx.check(len(names) == len(aliases), "R6", "grackle tables:length", (PATCH, ep.node.lineno), "one alias per grackle species", found=f"{len(names)} vs {len(aliases)}")
    if rule.get("ok"):
        for nm, al in zip(names, aliases):
            if nm in ("e-", "E-", "e", "E"):
                ctx.ok("R6", f"grackle alias {nm}->{al}", (PATCH, ep.node.lineno), "electron: grackle's own name (excepted by table)")
                continue
            want = alias_of(nm)
            ctx.check(al == want, "R6", f"grackle alias {nm}->{al}", (PATCH, ep.node.lineno), f"the hand-written alias of {nm} is the one Species.alias produces",
                      expected=want, found=al)
    # KROME suffix rewriting (shared with C12.R3)
    kfn = pkg.method("KROMEReaction", "rateexpr")
    kfile = pkg.cls("KROMEReaction").file
    subs, unresolved = regex_rewrites(pkg, "KROMEReaction", kfn)
    tab = {p[-1] if not p.endswith(r"\)") else ")": r for p, r, _ in subs if p.startswith("(idx_")}
    want = {"p": r"\1II", "m": r"\1M", ")": r"\1I)"}
    if tab != want and unresolved:
        ctx.unrec("R6", "KROME idx_ suffixes", (kfile, unresolved[0][1]), f"a regular-expression rewriting of the rate text has a pattern / replacement that is not a literal: {unresolved[0][0][:80]}")
    elif not tab:
        # no idx_ rewriting was found where this rule looks (rateexpr, the methods / module functions it calls): where the suffixes
        # are translated is not known -- no verdict on how
        ctx.unrec("R6", "KROME idx_ suffixes", (kfile, kfn.lineno), "no regular-expression rewriting of `idx_..` was found in KROMEReaction.rateexpr or the helpers it calls")
    else:
        ctx.check(tab == want, "R6", "KROME idx_ suffixes", (kfile, kfn.lineno),
                  "idx_Xp -> IDX_XII, idx_Xm -> IDX_XM, idx_X) -> IDX_XI): the suffixes Species.alias gives to charge +1, -1, 0", expected=str(want), found=str(tab))


def regex_rewrites(pkg, cname, fn):
    """Every regular-expression substitution a method applies (itself, or in the methods of its class / the functions of its
    module it calls): `re.sub(P, R, ..)`, `re.compile(P).sub(R, ..)`, `pat.sub(R, ..)` with P and R literals -- written in place,
    bound to a name once, or the columns of a literal table (module / class level, or local) the call sits in a loop over.
    -> ([(pattern, replacement, line)], [(source text, line)] of substitutions whose pattern / replacement is not a literal)"""
    file = pkg.cls(cname).file
    mod = pkg.modules[file]
    funcs, todo = [fn], [(fn, 0)]
    while todo:
        f, d = todo.pop()
        if d >= 3:
            continue
        for c in ast.walk(f):
            if not isinstance(c, ast.Call):
                continue
            g = None
            if isinstance(c.func, ast.Attribute) and isinstance(c.func.value, ast.Name) and c.func.value.id in ("self", "cls", cname):
                g = pkg.resolve(cname, c.func.attr)[1]
            elif isinstance(c.func, ast.Name):
                g = pkg.functions.get((file, c.func.id))
            if g is not None and not any(g is x for x in funcs):
                funcs.append(g)
                todo.append((g, d + 1))

    def once(scope_body, name):
        """the single value a name is bound to by plain assignment in a scope, else None"""
        vals = [st.value for st in scope_body if isinstance(st, (ast.Assign, ast.AnnAssign)) and st.value is not None
                for t in (st.targets if isinstance(st, ast.Assign) else [st.target]) if isinstance(t, ast.Name) and t.id == name]
        return vals[0] if len(vals) == 1 else None

    def table(e, f):
        """literal sequence an iterable expression denotes: written in place, a local / module-level name, a class attribute"""
        if isinstance(e, (ast.Tuple, ast.List)):
            return e
        if isinstance(e, ast.Name):
            v = once([n for n in ast.walk(f) if isinstance(n, ast.stmt)], e.id) or once(mod.body, e.id)
            return table(v, f) if v is not None else None
        if isinstance(e, ast.Attribute) and isinstance(e.value, ast.Name) and e.value.id in ("self", "cls", cname):
            v = pkg.resolve_attr(cname, e.attr)[1]
            return table(v, f) if v is not None else None
        if isinstance(e, ast.Call) and isinstance(e.func, ast.Name) and e.func.id in ("list", "tuple", "tqdm") and len(e.args) == 1:
            return table(e.args[0], f)
        return None

    def bindings(c, f):
        """[{loop target name: element expr}] for the literal-table loops the call sits in (one dict per row; [{}] outside loops)"""
        rows = [{}]
        for lp in ast.walk(f):
            if isinstance(lp, ast.For) and any(n is c for b in lp.body for n in ast.walk(b)):
                tab = table(lp.iter, f)
                if tab is None:
                    continue
                new = []
                for el in tab.elts:
                    if isinstance(lp.target, ast.Name):
                        m = {lp.target.id: el}
                    elif isinstance(lp.target, (ast.Tuple, ast.List)) and isinstance(el, (ast.Tuple, ast.List)) and len(el.elts) == len(lp.target.elts) \
                            and all(isinstance(t, ast.Name) for t in lp.target.elts):
                        m = {t.id: x for t, x in zip(lp.target.elts, el.elts)}
                    else:
                        m = {}
                    new += [dict(r, **m) for r in rows]
                rows = new or rows
        # ... or the fold over one: `reduce(lambda text, row: row[0].sub(row[1], text), TABLE, start)` visits the rows in order
        for rd in ast.walk(f):
            if isinstance(rd, ast.Call) and ast.unparse(rd.func) in ("reduce", "functools.reduce") and len(rd.args) == 3 and isinstance(rd.args[0], ast.Lambda) \
                    and len(rd.args[0].args.args) == 2 and any(n is c for n in ast.walk(rd.args[0].body)):
                tab = table(rd.args[1], f)
                if tab is not None:
                    rows = [dict(r, **{rd.args[0].args.args[1].arg: el}) for el in tab.elts for r in rows]
        return rows

    def text(e, env, f, depth=0):
        if isinstance(e, ast.Constant) and isinstance(e.value, str):
            return e.value
        if depth > 4:
            return None
        if isinstance(e, ast.Call) and ast.unparse(e.func) == "re.compile" and e.args:
            return text(e.args[0], env, f, depth + 1)
        if isinstance(e, ast.Subscript) and isinstance(e.value, ast.Name) and e.value.id in env and isinstance(env[e.value.id], (ast.Tuple, ast.List)) \
                and isinstance(e.slice, ast.Constant) and type(e.slice.value) is int and -len(env[e.value.id].elts) <= e.slice.value < len(env[e.value.id].elts):
            return text(env[e.value.id].elts[e.slice.value], env, f, depth + 1)          # row[0] of the table row the loop / fold is at
        if isinstance(e, ast.Name):
            if e.id in env:
                return text(env[e.id], env, f, depth + 1)
            v = once([n for n in ast.walk(f) if isinstance(n, ast.stmt)], e.id) or once(mod.body, e.id)
            return text(v, env, f, depth + 1) if v is not None else None
        if isinstance(e, ast.Attribute) and isinstance(e.value, ast.Name) and e.value.id in ("self", "cls", cname):
            v = pkg.resolve_attr(cname, e.attr)[1]
            return text(v, env, f, depth + 1) if v is not None else None
        return None

    subs, unresolved = [], []
    for f in funcs:
        for c in ast.walk(f):
            if not (isinstance(c, ast.Call) and isinstance(c.func, ast.Attribute) and c.func.attr in ("sub", "subn")):
                continue
            if ast.unparse(c.func.value) == "re":
                if len(c.args) < 3:
                    continue
                pat_e, rep_e = c.args[0], c.args[1]
            else:
                if not c.args:
                    continue
                pat_e, rep_e = c.func.value, c.args[0]
            for env in bindings(c, f):
                pat, rep = text(pat_e, env, f), text(rep_e, env, f)
                if pat is None or rep is None:
                    unresolved.append((ast.unparse(c), c.lineno))
                else:
                    subs.append((pat, rep, c.lineno))
    return subs, unresolved


# ------------------------------------------------------------------ R7 (shared with C15.R2)

def class_constants(pkg, cname):
    """{attribute: literal value} for the class-level names of a class (MRO) that are bound once, in the class body, to a literal
    of immutable kind (str / number / bool / None / tuple of such) and that no statement of the package assigns, augments or
    deletes as an attribute of anything (`x.NAME = ..`, `setattr(x, "NAME", ..)`)"""
    cand = {}
    for c in pkg.mro(cname):
        ci = pkg.classes.get(c)
        if ci is None:
            continue
        counts = {}
        for st in ci.node.body:
            for n in ast.walk(st) if not isinstance(st, (ast.FunctionDef, ast.AsyncFunctionDef, ast.ClassDef)) else []:
                if isinstance(n, ast.Name) and isinstance(n.ctx, (ast.Store, ast.Del)):
                    counts[n.id] = counts.get(n.id, 0) + 1
        for name, node in ci.attrs.items():
            if name in cand or counts.get(name) != 1:
                continue
            try:
                val = ast.literal_eval(node)
            except Exception:
                continue

            def immutable(x):
                return x is None or isinstance(x, (str, int, float, bool, bytes)) or (isinstance(x, tuple) and all(immutable(y) for y in x))
            if immutable(val):
                cand[name] = val
    if not cand:
        return {}
    for f in pkg.files:
        for n in ast.walk(pkg.modules[f]):
            if isinstance(n, ast.Attribute) and isinstance(n.ctx, (ast.Store, ast.Del)):
                cand.pop(n.attr, None)
            elif isinstance(n, ast.Call) and isinstance(n.func, ast.Name) and n.func.id in ("setattr", "delattr") and len(n.args) >= 2:
                if isinstance(n.args[1], ast.Constant):
                    cand.pop(n.args[1].value, None)
                else:
                    return {}            # a computed attribute name: anything may be re-bound
    return cand


def hash_contract(ctx, pkg, rule="R7"):
    eqf = pkg.method("Species", "__eq__")
    hf = pkg.method("Species", "__hash__")
    ctx.saw(SP, "Species.__hash__")
    disj, _ = eq_disjuncts(eqf, resolve=lambda name: pkg.resolve("Species", name)[1])
    paths = hash_paths(hf, resolve=lambda name: pkg.method("Species", name))
    # a class-level constant (bound once in the class body to a literal, assigned nowhere in the package) read through self is that
    # literal, the same for every instance: not an attribute in which two species can differ
    consts = class_constants(pkg, "Species")
    paths = [(c, {a for a in reads if a not in consts}, txt) for c, reads, txt in paths]
    # attributes determined by name (derived from the name by parsing)
    for d in disj:
        lits = set(d)
        label = " & ".join(f"{l[0]}:{l[1]}" for l in sorted(d))
        if lits == {("both", "is_electron")}:
            el = [p for p in paths if p[0] == "self.is_electron"]
            classlevel = {a for c in pkg.mro("Species") if c in pkg.classes for a in pkg.classes[c].attrs}
            if len(el) == 1 and el[0][1] and el[0][1] <= classlevel:
                # reads only names bound in the class body, but they are re-bound somewhere: whether they differ between instances is not decided
                ctx.unrec(rule, f"hash vs eq[{label}]", (SP, hf.lineno), f"the hash of an electron reads class-level names that are not provably constant: {sorted(el[0][1])}")
                continue
            if len(el) != 1:
                # no / several return paths under `self.is_electron`: how electrons are hashed is not read (never a verdict)
                ctx.unrec(rule, f"hash vs eq[{label}]", (SP, hf.lineno), f"expected one return path of __hash__ under `self.is_electron`, found {len(el)}")
                continue
            ctx.check(not el[0][1], rule, f"hash vs eq[{label}]", (SP, hf.lineno), "equal electrons hash to the same constant", found=f"the electron's hash reads {sorted(el[0][1])}")
            continue
        forced = {l[1] for l in d if l[0] == "eq"} | {l[1] for l in d if l[0] == "both"}
        if "name" in forced:
            ctx.ok(rule, f"hash vs eq[{label}]", (SP, hf.lineno),
                   "equal names were parsed with equal prefix/symbol arguments (assumption), so every derived attribute the hash reads is equal")
            continue
        other = [p for p in paths if p[0] != "self.is_electron"]
        reads = set().union(*[p[1] for p in other]) if other else set()
        # is_grain / is_surface flags: a grain is never a surface species and vice versa (set together with the group in _add_element_count)
        implied = set(forced)
        if "is_surface" in forced:
            implied |= {"is_grain", "grain_group"}      # ice species are not grains: both False / None on each side
        if "is_grain" in forced:
            implied |= {"is_surface", "surface_group"}
        loose = sorted(reads - implied)
        ctx.check(not loose, rule, f"hash vs eq[{label}]", (SP, hf.lineno),
                  "the hash reads only attributes this way of being equal forces equal" if not loose else
                  f"two species equal through [{label}] may differ in {loose}, which __hash__ reads: equal objects with different hashes occupy two slots of the species set "
                  "(e.g. a grain spelled with another grain_symbol: equal group and charge, different basename)",
                  expected=f"hash over a subset of {sorted(implied)}", found=f"hash reads {sorted(reads)}")


def _r7(ctx, pkg):
    hash_contract(ctx, pkg, "R7")


# ------------------------------------------------------------------ R8

LAZY = {"map", "select", "reject", "selectattr", "rejectattr"}


def _is_lazy(e, lazy):
    if e[0] == "filter" and e[1] in LAZY:
        return True
    if e[0] == "name" and e[1] in lazy:
        return True
    return False


def _names(e):
    return {x[1] for x in _vars_in(e)}


def _r8(ctx):
    rels = [r for r in J.all_templates(ctx.tree) if "/tests/" not in r and "/data/" not in r]
    nsets = 0
    for rel in rels:
        cfgs = [("", {})]
        src = ctx.tree.read(rel)
        if "device" in src and rel.endswith(".C.j2"):
            cfgs = [("cpu", {"device": "cpu"}), ("gpu", {"device": "gpu"})]
        for label, cfg in cfgs:
            items = J.flatten(ctx.tree, rel, cfg)

            def run(its, state, depth):
                nonlocal nsets
                for it in its:
                    k = it[0]
                    if k == "set" and it[1][0] == "name":
                        name = it[1][1]
                        used = _names(it[2]) & set(state)
                        if _is_lazy(it[2], state):
                            nsets += 1
                            state[name] = {"consumed": False, "depth": depth, "line": it[3], "deps": used}
                        else:
                            for u in used:
                                consume(u, it[3], it, state, depth)
                            state.pop(name, None)
                    elif k == "out":
                        for u in _names(it[1]) & set(state):
                            consume(u, it[2], it, state, depth)
                    elif k == "for":
                        for u in _names(it[2]) & set(state):
                            consume(u, it[5], it, state, depth)
                        run(it[3], state, depth + 1)
                    elif k == "if":
                        s1 = {n: dict(v) for n, v in state.items()}
                        s2 = {n: dict(v) for n, v in state.items()}
                        run(it[2], s1, depth)
                        run(it[3], s2, depth)
                        for n in list(state):
                            if n in s1 and n in s2:
                                state[n]["consumed"] = s1[n]["consumed"] or s2[n]["consumed"]
                        for n in set(s1) | set(s2):
                            if n not in state:
                                state[n] = (s1.get(n) or s2.get(n))

            def consume(name, line, it, state, depth):
                st = state[name]
                key = f"{rel.split('/')[-1]}:{label}:line {line}:{name}"
                if st["consumed"]:
                    ctx.bad("R8", key, (rel, line),
                            f"`{name}` was bound at line {st['line']} to a lazily filtered sequence (a one-shot generator) and has already been consumed "
                            f"at line {st['used']}: this second use iterates nothing -- the loop/join silently emits no text",
                            expected=f"re-bind `{name}` with {{% set %}} before each use (the file's own idiom) or end the chain with | list", found=f"use at line {line}")
                elif depth > st["depth"]:
                    ctx.bad("R8", key, (rel, line),
                            f"`{name}` (lazy, bound at line {st['line']} outside this loop) is consumed inside a loop body: only the first iteration sees any element")
                else:
                    ctx.ok("R8", key, (rel, line), f"first and only use of the generator bound at line {st['line']}")
                st["consumed"] = True
                st["used"] = line
                for d in st.get("deps", ()):
                    if d in state:
                        state[d]["consumed"] = True
                        state[d]["used"] = line
            run(items, {}, 0)
    ctx.floor("R8", "lazy {% set %} bindings", nsets, 25)


# ------------------------------------------------------------------ R9

def _r11(ctx, pkg):
    """Enzo patch: which network species coincide with a predefined Enzo / Grackle field is decided by Species equality -- the
    relation that gives `e-`, `E-`, `E` one slot and that the alias loop just above uses -- not by the spelling."""
    fn = pkg.cls("EnzoPatch").methods.get("render")
    if fn is None:
        ctx.missing("R11", "EnzoPatch.render", (PATCH, 0), "method vanished")
        return
    ctx.saw(PATCH, "EnzoPatch.render")
    fl = Flow(fn, PATCH, resolver=class_resolver(pkg, "EnzoPatch"))
    # by role: the record handed to the templates is the call of the class's SpeciesGroups, wherever it is written (bound to a local
    # or passed on directly); its fields are taken by NAME (positional arguments follow the declared field order)
    calls = []
    vals = [v for lst in fl.assigns.values() for v, *_ in lst] + [f.value for f in fl.facts if f.value is not None]
    for v in vals:
        for x in walk(simp(v)):
            if isinstance(x, tuple) and len(x) == 5 and x[0] == "meth" and x[2] == "SpeciesGroups" and x not in calls:
                calls.append(x)
    order = _record_fields(pkg, "EnzoPatch", "SpeciesGroups")
    fields = None
    if len(calls) == 1 and order:
        call = calls[0]
        if len(call[3]) <= len(order) and not any(a[0] == "star" for a in call[3]) and all(k in order for k, _ in call[4]):
            fields = dict(zip(order, call[3]))
            fields.update(dict(call[4]))
    names = ["intersect_enzo", "intersect_grackle", "diff_enzo", "diff_grackle"]
    fnames = ["network_int_enzo", "network_int_grackle", "network_diff_enzo", "network_diff_grackle"]
    if fields is None or any(f_ not in fields for f_ in fnames):
        ctx.unrec("R11", "EnzoPatch.render:SpeciesGroups", (PATCH, fn.lineno), "the SpeciesGroups(..) construction with its seven groups was not found")
        return
    want = [("In", "enzo_defined_species_name"), ("In", "grackle_species_name"), ("NotIn", "enzo_defined_species_name"), ("NotIn", "grackle_species_name")]
    for a, (op, table), nm in zip([fields[f_] for f_ in fnames], want, names):
        m = as_map(simp(a))
        ok = False
        found = show(simp(a))[:140]
        if m:
            bv, body, base, ifs = m
            if len(ifs) == 1 and ifs[0][0] == "cmp" and ifs[0][1] == (op,):
                lhs, rhs = ifs[0][2]
                mr = as_map(rhs)
                ok = lhs == body and base == ("attr", ("param", "network"), "species") and bool(mr) and mr[1] == ("call", ("global", "Species"), (mr[0],), ()) \
                    and mr[2] in (("attr", ("global", "EnzoPatch"), table), ("attr", SELF, table), ("attr", ("param", "cls"), table)) and not mr[3]
        # understood and wrong: a selection from network.species by a test that compares spellings (an attribute of the species, or the
        # species against raw names), or the opposite membership test.  Anything else is not understood.
        wrong = False
        if m and not ok and len(m[3]) == 1 and m[3][0][0] == "cmp" and len(m[3][0][1]) == 1 and m[3][0][1][0] in ("In", "NotIn") and m[2] == ("attr", ("param", "network"), "species"):
            lhs, rhs = m[3][0][2]
            tab_ir = (("attr", ("global", "EnzoPatch"), table), ("attr", SELF, table), ("attr", ("param", "cls"), table))
            by_text = (lhs[0] == "attr" and lhs[1] == m[1]) or rhs in tab_ir or (rhs[0] == "call" and rhs[1] in (("global", "set"), ("global", "list"), ("global", "tuple")) and rhs[2] and rhs[2][0] in tab_ir)
            mr2 = as_map(rhs)
            by_species = bool(mr2) and mr2[1] == ("call", ("global", "Species"), (mr2[0],), ()) and lhs == m[1]
            wrong = by_text or (by_species and m[3][0][1] != (op,)) or (by_species and mr2[2] not in tab_ir and mr2[2][0] == "attr" and mr2[2][2].endswith("species_name"))
        if not ok and not wrong:
            ctx.unrec("R11", f"EnzoPatch.render:species_{nm}", (PATCH, fn.lineno), f"how the group is selected is not understood: {found}")
            continue
        ctx.check(ok, "R11", f"EnzoPatch.render:species_{nm}", (PATCH, fn.lineno),
                  f"network species {'in' if op == 'In' else 'not in'} the predefined list, by Species equality" if ok else
                  "the group is not `species (not) in [Species(n) for n in <predefined names>]`: compared by spelling, an electron written E- / E (or any species equal but spelled "
                  "differently) is not recognised as predefined and gets a second field slot",
                  expected=f"[s for s in species_network if s {'in' if op == 'In' else 'not in'} [Species(n) for n in EnzoPatch.{table}]]", found=found)


def _record_fields(pkg, cname, rname):
    """field names, in order, of a record type nested in a class: a (data)class / typing.NamedTuple body with annotated fields, or a
    class-level `R = namedtuple("R", "a b c" | ["a", "b", "c"])`; None when it is declared in another way"""
    ci = pkg.classes.get(f"{cname}.{rname}")
    if ci is not None:
        out = [st.target.id for st in ci.node.body if isinstance(st, ast.AnnAssign) and isinstance(st.target, ast.Name)]
        return out or None
    node = pkg.resolve_attr(cname, rname)[1]
    if isinstance(node, ast.Call) and ast.unparse(node.func).split(".")[-1] == "namedtuple" and len(node.args) >= 2:
        try:
            spec = ast.literal_eval(node.args[1])
        except Exception:
            return None
        return spec.replace(",", " ").split() if isinstance(spec, str) else list(spec)
    return None


def class_resolver(pkg, cname):
    """name -> FunctionDef of a method of the class (MRO), for value-flow inlining of small helper methods"""
    def res(name):
        return pkg.resolve(cname, name)[1]
    return res


def _unwrap_seq(v):
    """list(x) / tuple(x) / x.copy() / x[:] are the sequence x"""
    while True:
        if v[0] == "call" and v[1] in (("global", "list"), ("global", "tuple")) and len(v[2]) == 1 and not v[3]:
            v = v[2][0]
        elif v[0] == "meth" and v[2] == "copy" and not v[3]:
            v = v[1]
        elif v[0] == "copy":
            v = v[1]
        else:
            return v


def species_order(pkg):
    """Network.species by ROLE, whatever the locals are called and whether the pieces sit inline or in helper methods:
    -> (fn, flow, [(return fact, layers, members)]) where, for the value a return hands out (through a memo attribute if there is
    one), layers = [key IR | None, ...] of the nested sorted(..) calls from the outermost inwards and members = the collection
    the innermost one sorts."""
    fn = pkg.method("Network", "species")
    fl = Flow(fn, NETF, resolver=class_resolver(pkg, "Network"), func_resolver=lambda name: pkg.functions.get((NETF, name)))
    memo = {f.target: simp(f.value) for f in fl.facts if f.kind == "attrstore" and f.extra.get("obj") == SELF}
    out = []
    for f in fl.facts:
        if f.kind != "return":
            continue
        # (simplified twice: a rewrite that yields a new comprehension -- list(map(f, X)) -- exposes it to the comprehension rules)
        v = _unwrap_seq(_through_helpers(pkg, simp(simp(f.value))))
        if v[0] == "attr" and v[1] == SELF and v[2] in memo:
            v = _unwrap_seq(_through_helpers(pkg, memo[v[2]]))
        layers = []
        while v[0] == "call" and v[1] == ("global", "sorted") and len(v[2]) == 1 and not (set(dict(v[3])) - {"key"}):
            layers.append(dict(v[3]).get("key"))
            v = _unwrap_seq(_through_helpers(pkg, v[2][0]))
        out.append((f, layers, v))
    return fn, fl, out


def _through_helpers(pkg, v, depth=0):
    """A value that is the call of a helper the flow could not inline (a function of network.py or a method of Network that loops,
    fills a table, sorts a local copy in place ..) is what that helper returns for these arguments: the helper is read on its own
    and its parameters are replaced by the arguments.  Anything else -- and a helper with several / conditional returns, *args,
    a parameter it re-binds -- is returned unchanged (the caller then does not understand it)."""
    from ..valueflow import subst as vsubst
    while depth < 3:
        w = _unwrap_seq(v)
        g = args = kws = None
        bare = False
        if w[0] == "call" and w[1][0] == "global":
            g, args, kws, bare = pkg.functions.get((NETF, w[1][1])), w[2], w[3], True
        elif w[0] == "meth" and w[1] in (SELF, ("param", "cls")):
            g, args, kws = pkg.resolve("Network", w[2])[1], w[3], w[4]
        if g is None or g.args.vararg or g.args.kwarg or g.args.kwonlyargs or any(a[0] == "star" for a in args) or any(k == "**" for k, _ in kws):
            return v
        decs = {ast.unparse(d) for d in g.decorator_list}
        if decs - {"staticmethod", "classmethod"}:
            return v
        params = [a.arg for a in g.args.args]
        bind = {}
        if not bare and "staticmethod" not in decs:
            if not params:
                return v
            bind[("param", params[0])] = w[1]
            params = params[1:]
        if len(args) > len(params) or any(k not in params for k, _ in kws):
            return v
        bind.update({("param", p_): a for p_, a in zip(params, args)})
        bind.update({("param", k): a for k, a in kws})
        if any(("param", p_) not in bind for p_ in params):
            return v                                    # a default is used: not followed
        stored = {n.id for n in ast.walk(g) if isinstance(n, ast.Name) and isinstance(n.ctx, (ast.Store, ast.Del))}
        if stored & set(params):
            return v
        gfl = Flow(g, NETF, resolver=class_resolver(pkg, "Network"), func_resolver=lambda name: pkg.functions.get((NETF, name)))
        rets = [f for f in gfl.facts if f.kind == "return"]
        if len(rets) != 1 or rets[0].guards or rets[0].loops:
            return v
        v = simp(vsubst(simp(rets[0].value), bind))
        depth += 1
    return v


def _is_chain(v):
    """arguments of itertools.chain(a, b, ..) (imported either way), else None"""
    if v[0] == "call" and v[1] == ("global", "chain") and not v[3]:
        return v[2]
    if v[0] == "meth" and v[1] == ("global", "itertools") and v[2] == "chain" and not v[4]:
        return v[3]
    return None


def _members_added(x):
    """the sets whose union holds exactly the elements of the iterable x (an argument of set(..) / .union(..) / a starred entry of
    a set display): a set is itself; a concatenation / chain of iterables is each of them; list(..) / tuple(..) / sorted(..) of an
    iterable is that iterable; anything else is the canonical `set(x)`"""
    if _setness(x) == "set":
        return union_operands(x)
    ch = _is_chain(x)
    if ch is not None:
        return [o for a in ch for o in _members_added(a)]
    if x[0] == "binop" and x[1] == "Add":
        return _members_added(x[2]) + _members_added(x[3])
    if x[0] == "call" and x[1] in (("global", "list"), ("global", "tuple"), ("global", "sorted")) and len(x[2]) == 1 and not (set(dict(x[3])) - {"key", "reverse"}):
        return _members_added(x[2][0])
    if x[0] in ("list", "tuple") and x[1] and all(e[0] == "star" for e in x[1]):
        return [o for e in x[1] for o in _members_added(e[1])]
    return [("call", ("global", "set"), (x,), ())]


def union_operands(v):
    """operands of a set union, flattened and in canonical form (a set as itself, any other iterable X as `set(X)`), whatever the
    spelling: `a | b`, `a.union(b, c)`, `set().union(a, b)`, `set(chain(a, b))`, `set(list(a) + b)`, `{*a, *b}`"""
    if v[0] == "binop" and v[1] == "BitOr":
        return union_operands(v[2]) + union_operands(v[3])
    if v[0] == "meth" and v[2] == "union" and not v[4]:
        out = union_operands(v[1])
        for a in v[3]:
            out += _members_added(a)
        return out
    if v[0] == "call" and v[1] in (("global", "set"), ("global", "frozenset")) and not v[3]:
        if not v[2]:
            return []
        if len(v[2]) == 1:
            inner = _members_added(v[2][0])
            return inner if inner != [v] else [v]
    if v[0] == "set" and v[1] and all(e[0] == "star" for e in v[1]):
        return [o for e in v[1] for o in _members_added(e[1])]
    return [v]


def _key_verdict(k):
    """'ok' for a sort key under which no two different species tie: no key at all (the species' own order), or a function whose
    result is / holds as a tuple component the species itself or its name;  'bad' for a key that is understood and under which
    different species do tie: every component is a count / an attribute other than the name;  else 'unrec'"""
    if k is None:
        return "ok"
    if k[0] != "lambda" or len(k[1]) != 1:
        return "unrec"
    x = k[1][0]
    comps = list(k[2][1]) if k[2][0] == "tuple" and not any(e[0] == "star" for e in k[2][1]) else [k[2]]
    if any(c in (x, ("attr", x, "name")) for c in comps):
        return "ok"

    def coarse(c):
        """a value many species share: a number of things, an entry of a table of such, a flag / charge / derived attribute"""
        if c[0] == "const":
            return True
        if c[0] == "call" and c[1] == ("global", "len") and len(c[2]) == 1:
            return True
        if c[0] == "meth" and c[2] == "count":
            return True             # (an entry of a look-up table is not: what the table holds is not read here)
        if c[0] == "attr" and c[1] == x and c[2] not in ("name", "_name"):
            return True
        if c[0] == "unop" and c[1] == "USub":
            return coarse(c[2])
        return False
    return "bad" if comps and all(coarse(c) for c in comps) else "unrec"


def _total_key(k):
    return _key_verdict(k) == "ok"


def _hash_ordered(v):
    """the value is (a list made by iterating) a set that nothing sorted: its order is the set's iteration order"""
    v = _unwrap_seq(v)
    if _setness(v) == "set" and v[0] != "comp":
        return True
    if v[0] == "comp" and v[1] in ("list", "gen", "set") and len(v[3]) == 1 and v[3][0][0] is not None:
        return v[1] == "set" or _hash_ordered(v[3][0][1])
    return False


def _setness(v):
    """'set' when the value is a set by construction (set(..), set comprehension / display, union / intersection / difference of
    such, the cached species sets), 'list' when it is a sequence that keeps duplicates, else None (not understood)"""
    k = v[0]
    if k == "call" and v[1] in (("global", "set"), ("global", "frozenset")):
        return "set"
    if k == "set" or (k == "comp" and v[1] == "set"):
        return "set"
    if k == "comp" and v[1] in ("list", "gen") and len(v[3]) == 1 and v[3][0][0] is not None and v[2] == v[3][0][0] and _setness(_unwrap_seq(v[3][0][1])) == "set":
        return "set"            # [s for s in <set> if ..]: a selection of the members of a set holds none of them twice
    if k == "attr" and v[1] == SELF and v[2] in ("_reactants", "_products"):
        return "set"
    if k == "binop" and v[1] in ("BitOr", "BitAnd", "Sub", "BitXor"):
        a, b = _setness(v[2]), _setness(v[3])
        return "set" if a == "set" or b == "set" else a if a == b else None
    if k == "meth" and v[2] in ("union", "intersection", "difference", "symmetric_difference") and not v[4]:
        return _setness(v[1])
    if k == "comp" and v[1] in ("list", "gen") and len(v[3]) == 1 and v[3][0][0] is not None:
        return "list" if _setness(_unwrap_seq(v[3][0][1])) == "list" else None         # over something unknown: unknown
    if k in ("list", "tuple") or (k == "comp" and v[1] in ("list", "gen")) or (k == "binop" and v[1] == "Add"):
        return "list"
    if k == "attr" and v[1] == SELF and v[2] == "_required_species":
        return "list"
    if _is_chain(v) is not None:
        return "list"           # one iterable after the other: every entry is kept
    return None


def _opaque(v):
    """not a collection whose kind (set / duplicate-keeping sequence) is understood: a helper method that could not be followed, a
    loop-carried local, .. -- nothing is known about it"""
    return _setness(v) is None


def _r9(ctx, pkg):
    fn, fl, rets = species_order(pkg)
    ctx.saw(NETF, "Network.species")
    found = "; ".join(show(simp(f.value))[:100] for f, _, _ in rets)
    if not rets:
        ctx.unrec("R9", "Network.species:total order", (NETF, fn.lineno), "Network.species has no return statement")
        return
    # the value handed out is sorted(.., key=K) with K total.  VIOLATION only for a key (or an unsorted collection) that is understood
    verdicts = []
    for f, layers, members in rets:
        if layers and layers[0] is not None:
            verdicts.append(_key_verdict(layers[0]))  # a key function that is not defined here / not understood: unrec
        elif layers:
            verdicts.append("bad")                  # sorted(..) without the connectivity / species key
        else:
            verdicts.append("bad" if _hash_ordered(members) else "unrec")      # a set handed out as it iterates / something else
    key = "Network.species:total order"
    if "bad" not in verdicts and "unrec" in verdicts:
        ctx.unrec("R9", key, (NETF, fn.lineno), f"what Network.species returns is not understood: {found}")
    else:
        ok = "bad" not in verdicts
        ctx.check(ok, "R9", key, (NETF, fn.lineno),
                  "species are ordered by sorted(.., key=(connectivity, species)): ties are broken by the species' own order, so the order does not depend on set iteration" if ok else
                  "the species order is not a total order (no tie-break by the species itself): slots depend on set iteration order, which varies with the hash seed -- "
                  "artefacts rendered in different processes (macro header vs patch tables) disagree",
                  expected="sorted(speclist, key=lambda x: (len(connection[x]), x))", found=found)
    # the unordered inputs are sorted before anything iterates them: what the final sort receives is itself a sorted(..) of the sets
    verdicts = []
    for f, layers, members in rets:
        if len(layers) >= 2:
            verdicts.append(_key_verdict(layers[1]))
        else:
            verdicts.append("bad" if _hash_ordered(members) else "unrec")
    key = "Network.species:sorted input"
    where = (NETF, rets[0][0].line)
    if "bad" not in verdicts and "unrec" in verdicts:
        ctx.unrec("R9", key, where, "what the final sort of Network.species receives is not understood: " + "; ".join(show(m)[:100] for _, _, m in rets))
    else:
        ctx.check("bad" not in verdicts, "R9", key, where, "the union of the reactant/product/required sets is sorted before use",
                  found="; ".join(show(m)[:100] for _, _, m in rets))
    # ... and what is sorted is a SET of species: two entries that are equal (one species spelled twice, e- / E) are one member
    for f, layers, members in rets[:1]:
        kind = _setness(members) if layers else None
        key = "Network.species:members are a set"
        if kind == "set":
            ctx.ok("R9", key, (NETF, f.line), "the species are collected in a set (Species equality decides what is one species)")
        elif kind == "list":
            ctx.bad("R9", key, (NETF, f.line), "the species are collected in a list, not a set: an entry that occurs twice (a species required twice, or spelled e- and E) "
                    "gets two slots and two IDX_ macros", expected="sorted(self._reactants | self._products | set(self._required_species))", found=show(members)[:140])
        else:
            ctx.unrec("R9", key, (NETF, f.line), f"the collection that is sorted into the species list is not understood: {show(members)[:140]}")


SPEC_UNION = "        speclist = sorted(\n            self._reactants | self._products | set(self._required_species)\n        )\n\n        connection = {sp: set() for sp in speclist}\n"
MUTANTS = [
    {"name": "enzo-groups-by-name", "file": PATCH, "old": "species_intersect_enzo = [s for s in species_network if s in species_enzo]", "new": "species_intersect_enzo = [s for s in species_network if s.name in set(EnzoPatch.enzo_defined_species_name)]", "rules": ["R11"]},
    {"name": "alias-symbol-table-memo", "edits": [
        {"file": SP, "old": "    _replacement = {}\n", "new": "    _replacement = {}\n    _symtab = None\n"},
        {"file": SP, "old": "        if not self._alias:\n            basename = self.basename\n", "new": "        if not self._alias:\n            if Species._symtab is None:\n                Species._symtab = {}\n            basename = self.basename\n"}], "rules": ["R10"]},
    {"name": "macro-loop-index1", "file": MACROS, "old": "#define IDX_{{ spec.alias }} {{ loop.index0 }}", "new": "#define IDX_{{ spec.alias }} {{ loop.index }}", "rules": ["R4"]},
    {"name": "py-index-sorted", "file": PYIDX, "old": "{% for spec in network.species %}", "new": '{% for spec in network.species | sort(attribute="name") %}', "rules": ["R4"]},
    {"name": "macro-rejects-surface", "file": MACROS, "old": "{% for spec in network.species %}\n#define IDX_", "new": '{% for spec in network.species | rejectattr("is_surface") %}\n#define IDX_', "rules": ["R4"]},
    {"name": "alias-I-times-charge", "file": SP, "old": '"I" * (self.charge + 1) if self.charge >= 0', "new": '"I" * self.charge if self.charge >= 0', "rules": ["R6"]},
    {"name": "alias-strip-nonword", "file": SP, "old": "        return self._alias\n\n    @alias.setter", "new": "        self._alias = re.sub(r'\\W', '', self._alias)\n        return self._alias\n\n    @alias.setter", "rules": ["R6"]},
    {"name": "alias-strip-star-inline", "file": SP, "old": '"M" * abs(self.charge),\n            )', "new": '"M" * abs(self.charge),\n            ).replace("*", "")', "rules": ["R6"]},
    {"name": "alias-suffix-helper-single-M", "edits": [
        {"file": SP, "old": '                "I" * (self.charge + 1) if self.charge >= 0 else "M" * abs(self.charge),\n', "new": "                self._charge_run(),\n"},
        {"file": SP, "old": "    @alias.setter\n", "new": '    def _charge_run(self):\n        q = self.charge\n        if q >= 0:\n            return "I" * (q + 1)\n        return "M"\n\n    @alias.setter\n'}], "rules": ["R6"]},
    {"name": "krome-cation-suffix-single-I", "file": KRF, "old": 'rate = re.sub(r"(idx_.?)p", r"\\1II", rate)', "new": 'rate = re.sub(r"(idx_.?)p", r"\\1I", rate)', "rules": ["R6"]},
    {"name": "summary-alias-loop-skips-ice", "file": RENDER, "old": "        all_species = [x.name for x in net.species]\n        all_alias = [x.alias for x in net.species]\n",
     "new": "        all_species = []\n        all_alias = []\n        for sp in net.species:\n            all_species.append(sp.name)\n            if not sp.is_surface:\n                all_alias.append(sp.alias)\n", "rules": ["R4"]},
    {"name": "alias-single-M", "file": SP, "old": 'else "M" * abs(self.charge),', "new": 'else "M",', "rules": ["R6"]},
    {"name": "grackle-HeII", "file": PATCH, "old": '        "HeII",\n        "HeIII",', "new": '        "HeI",\n        "HeIII",', "rules": ["R6"]},
    {"name": "wrapper-set-deleted", "file": WRAP, "old": "        {% set specnum = species.network | map(attribute='alias') | map('suffix', \"Num\") -%}\n        {% for s, n in zip(network.species, specnum) -%}\n          BaryonField", "new": "        {% for s, n in zip(network.species, specnum) -%}\n          BaryonField", "rules": ["R8"]},
    {"name": "species-members-listed-not-set", "file": NETF, "old": SPEC_UNION,
     "new": "        speclist = sorted(\n            [*(self._reactants | self._products), *[s for s in self._required_species if s not in self._reactants | self._products]]\n        )\n\n"
            "        connection = {sp: set() for sp in speclist}\n", "rules": ["R9"]},
    {"name": "macro-index-by-macro-loop-index1", "edits": [
        {"file": MACROS, "old": "// clang-format off\n", "new": "{% macro define_index(label, slot) %}#define IDX_{{ label }} {{ slot }}{% endmacro %}\n// clang-format off\n"},
        {"file": MACROS, "old": "#define IDX_{{ spec.alias }} {{ loop.index0 }}", "new": "{{ define_index(spec.alias, loop.index) }}"}], "rules": ["R4"]},
    {"name": "species-order-not-total", "file": NETF, "old": "speclist = sorted(speclist, key=lambda x: (len(connection[x]), x))", "new": "speclist = sorted(speclist, key=lambda x: len(connection[x]))", "rules": ["R9"]},
    {"name": "elem-macro-by-name", "file": MACROS, "old": "#define IDX_ELEM_{{ spec.element_count.keys() | first }} {{ loop.index0 }}", "new": "#define IDX_ELEM_{{ spec.name }} {{ loop.index0 }}", "rules": ["R4"]},
    {"name": "config-alias-from-gas", "file": CONF, "old": "self._network_alias = [x.alias for x in species]", "new": "self._network_alias = [x.alias for x in species if not x.is_surface]", "rules": ["R4"]},
    {"name": "enzo-table-sorted", "file": ENZOH, "old": "const float A_Table[NSPECIES] = {\n    {% for s in network.species -%}", "new": "const float A_Table[NSPECIES] = {\n    {% for s in network.species | sort(attribute='alias') -%}", "rules": ["R4"]},
    {"name": "hash-reads-name", "file": SP, "old": '                f"{self.basename}"\n                f"{self.charge}"', "new": '                f"{self.name}"\n                f"{self.charge}"', "rules": ["R7"]},
]
BENIGN = [
    {"name": "species-helper-method-and-named-key", "edits": [
        {"file": NETF, "old": SPEC_UNION, "new": "        speclist = self._members_by_name()\n\n        connection = {sp: set() for sp in speclist}\n"},
        {"file": NETF, "old": "        speclist = sorted(speclist, key=lambda x: (len(connection[x]), x))\n\n        return speclist\n",
         "new": "        def by_connectivity(sp):\n            return len(connection[sp]), sp\n\n        return sorted(speclist, key=by_connectivity)\n\n"
                "    def _members_by_name(self):\n        members = self._reactants.union(self._products) | set(self._required_species)\n        return sorted(members)\n"}]},
    {"name": "alias-concatenated-with-suffix-helper", "edits": [
        {"file": SP, "old": '            self._alias = "{}{}{}".format(\n                "G" if self.is_surface else "",\n                basename,\n                "I" * (self.charge + 1) if self.charge >= 0 else "M" * abs(self.charge),\n            )\n',
         "new": '            prefix = "G" if self.is_surface else ""\n            self._alias = prefix + basename + self._charge_run()\n'},
        {"file": SP, "old": "    @alias.setter\n", "new": '    def _charge_run(self):\n        q = self.charge\n        if q >= 0:\n            return "I" * (q + 1)\n        return "M" * abs(q)\n\n    @alias.setter\n'}]},
    {"name": "krome-rewrites-as-compiled-table", "file": KRF,
     "old": '        rate = re.sub(r"(\\d\\.?)d(\\-?\\d)", r"\\1e\\2", self.rate_string)\n        rate = re.sub(r"(idx_.?)p", r"\\1II", rate)\n        rate = re.sub(r"(idx_.?)m", r"\\1M", rate)\n        rate = re.sub(r"(idx_.?)\\)", r"\\1I)", rate)\n',
     "new": '        rate = self.rate_string\n        for pat, rep in ((re.compile(r"(\\d\\.?)d(\\-?\\d)"), r"\\1e\\2"), (re.compile(r"(idx_.?)p"), r"\\1II"), (re.compile(r"(idx_.?)m"), r"\\1M"), (re.compile(r"(idx_.?)\\)"), r"\\1I)")):\n            rate = pat.sub(rep, rate)\n'},
    {"name": "summary-lists-filled-in-one-loop", "file": RENDER, "old": "        all_species = [x.name for x in net.species]\n        all_alias = [x.alias for x in net.species]\n",
     "new": "        all_species = []\n        all_alias = []\n        for sp in net.species:\n            all_species.append(sp.name)\n            all_alias.append(sp.alias)\n"},
    {"name": "elem-symbol-through-set", "file": MACROS, "old": "{% for spec in network.elements %}\n#define IDX_ELEM_{{ spec.element_count.keys() | first }} {{ loop.index0 }}",
     "new": "{% for elem in network.elements %}\n{% set symbol = elem.element_count | first %}\n#define IDX_ELEM_{{ symbol }} {{ loop.index0 }}"},
    {"name": "index-macro", "edits": [
        {"file": MACROS, "old": "// clang-format off\n", "new": "{% macro define_index(label, slot) %}#define IDX_{{ label }} {{ slot }}{% endmacro %}\n// clang-format off\n"},
        {"file": MACROS, "old": "#define IDX_ELEM_{{ spec.element_count.keys() | first }} {{ loop.index0 }}", "new": "{{ define_index(\"ELEM_\" ~ (spec.element_count | first), loop.index0) }}"},
        {"file": MACROS, "old": "#define IDX_{{ spec.alias }} {{ loop.index0 }}", "new": "{{ define_index(spec.alias, loop.index0) }}"}]},
    {"name": "loop-var-renamed", "file": MACROS, "old": "{% for spec in network.species %}\n#define IDX_{{ spec.alias }} {{ loop.index0 }}", "new": "{% for sp in network.species %}\n#define IDX_{{ sp.alias }} {{ loop.index0 }}"},
    {"name": "suffix-commuted", "file": SP, "old": '"I" * (self.charge + 1) if self.charge >= 0', "new": '(self.charge + 1) * "I" if self.charge >= 0'},
]

# --- spellings accepted since the second hardening wave (each with the defect it must still see) ---------------------------------
_ALIAS_INLINE = '            basename = self.basename\n            # TODO: The replacement does not guarantee the correctness\n            # e.g. CO could be replaced by Co if Co exists in the known element list\n            replacement = {\n                e.Symbol.upper(): e.Symbol\n                for e in chemistrydata.periodic_table + chemistrydata.isotopes_table\n                if e.Symbol.upper() in self._known_elements\n            }\n            for key, value in replacement.items():\n                basename = basename.replace(key, value)\n            self._alias = "{}{}{}".format(\n                "G" if self.is_surface else "",\n                basename,\n                "I" * (self.charge + 1) if self.charge >= 0 else "M" * abs(self.charge),\n            )\n'


def _alias_helper(suffix_neg):
    return ("    def _default_alias(self):\n        text = self.basename\n        table = {e.Symbol.upper(): e.Symbol for e in chemistrydata.periodic_table + chemistrydata.isotopes_table "
            "if e.Symbol.upper() in self._known_elements}\n        for upper, symbol in table.items():\n            text = text.replace(upper, symbol)\n"
            "        q = self.charge\n        tail = \"I\" * (q + 1) if q >= 0 else " + suffix_neg + "\n        return (\"G\" if self.is_surface else \"\") + text + tail\n\n    @alias.setter\n")


_SUMMARY_OLD = ("        summary = tomlkit.table()\n        all_elements = [e.name for e in net.elements]\n        all_species = [x.name for x in net.species]\n"
                "        all_alias = [x.alias for x in net.species]\n")
_SUMMARY_STORES = ('        summary["num_of_elements"] = len(net.elements)\n        summary["num_of_species"] = len(net.species)\n')
_SUMMARY_LISTS = ('        summary["list_of_elements"] = all_elements\n        summary["list_of_species"] = all_species\n        summary["list_of_species_alias"] = all_alias\n')


def _summary_tables(alias_filter=""):
    return [
        {"file": RENDER, "old": "import tomlkit\n", "new": "import itertools\nimport tomlkit\n"},
        {"file": RENDER, "old": _SUMMARY_OLD, "new": "        summary = tomlkit.table()\n        members = net.species\n        names = {\"list_of_elements\": [e.name for e in net.elements], "
         "\"list_of_species\": [x.name for x in members], \"list_of_species_alias\": [x.alias for x in members" + alias_filter + "]}\n"
         "        sizes = {\"num_of_elements\": len(names[\"list_of_elements\"]), \"num_of_species\": len(members)}\n"
         "        for label, entry in itertools.chain(sizes.items(), names.items()):\n            summary[label] = entry\n"},
        {"file": RENDER, "old": _SUMMARY_STORES, "new": ""},
        {"file": RENDER, "old": _SUMMARY_LISTS, "new": ""}]


_HASH_OLD = '            hash("Electron")\n            if self.is_electron\n'
_EQ_GRAIN = ("                or (\n                    self.is_grain\n                    and o.is_grain\n                    and self.grain_group == o.grain_group\n"
             "                    and self.charge == o.charge\n                )\n")


def _eq_helper(with_charge=True):
    return [{"file": SP, "old": _EQ_GRAIN, "new": "                or self._grain_twin(o)\n"},
            {"file": SP, "old": "    def __hash__(self) -> int:\n", "new": "    def _grain_twin(self, o):\n        if not (self.is_grain and o.is_grain):\n            return False\n"
             "        return self.grain_group == o.grain_group" + (" and self.charge == o.charge" if with_charge else "") + "\n\n    def __hash__(self) -> int:\n"}]


_SORT_OLD = "        speclist = sorted(speclist, key=lambda x: (len(connection[x]), x))\n\n        return speclist\n"
MUTANTS += [
    {"name": "dsu-sort-by-count-only", "file": NETF, "old": _SORT_OLD,
     "new": "        ranked = sorted(((len(connection[sp]), sp) for sp in speclist), key=lambda t: t[0])\n\n        return [sp for _, sp in ranked]\n", "rules": ["R9"]},
    {"name": "alias-looping-helper-single-M", "edits": [{"file": SP, "old": _ALIAS_INLINE, "new": "            self._alias = self._default_alias()\n"},
                                                         {"file": SP, "old": "    @alias.setter\n", "new": _alias_helper('"M"')}], "rules": ["R6"]},
    {"name": "summary-chained-tables-alias-skips-ice", "edits": _summary_tables(" if not x.is_surface"), "rules": ["R4"]},
    {"name": "mapped-alias-loop-over-sorted-species", "file": MACROS, "old": "{% for spec in network.species %}\n#define IDX_{{ spec.alias }} {{ loop.index0 }}",
     "new": '{% for tag in network.species | sort(attribute="name") | map(attribute="alias") %}\n#define IDX_{{ tag }} {{ loop.index - 1 }}', "rules": ["R4"]},
    {"name": "index-one-based-minus-nothing", "file": PYIDX, "old": "IDX_{{ spec.alias }} = {{ loop.index0 }}", "new": "IDX_{{ spec.alias }} = {{ loop.index - 0 }}", "rules": ["R4"]},
    {"name": "electron-hash-by-spelling", "file": SP, "old": _HASH_OLD, "new": '            hash(self.name.upper())\n            if self.is_electron\n', "rules": ["R7"]},
    {"name": "eq-grain-helper-ignores-charge", "edits": _eq_helper(False), "rules": ["R7"]},
]
BENIGN += [
    {"name": "decorate-sort-undecorate", "file": NETF, "old": _SORT_OLD,
     "new": "        ranked = sorted((len(connection[sp]), sp) for sp in speclist)\n\n        return [sp for _, sp in ranked]\n"},
    {"name": "decorate-sort-undecorate-by-subscript", "file": NETF, "old": _SORT_OLD,
     "new": "        ranked = sorted([(len(connection[sp]), sp) for sp in speclist])\n\n        return [pair[-1] for pair in ranked]\n"},
    {"name": "alias-looping-helper", "edits": [{"file": SP, "old": _ALIAS_INLINE, "new": "            self._alias = self._default_alias()\n"},
                                                {"file": SP, "old": "    @alias.setter\n", "new": _alias_helper('"M" * abs(q)')}]},
    {"name": "summary-chained-tables", "edits": _summary_tables()},
    {"name": "mapped-alias-loop-index-minus-one", "edits": [
        {"file": MACROS, "old": "{% for spec in network.species %}\n#define IDX_{{ spec.alias }} {{ loop.index0 }}",
         "new": '{% for tag in network.species | map(attribute="alias") %}\n#define IDX_{{ tag }} {{ loop.index - 1 }}'},
        {"file": PYCONST, "old": "NSPEC = {{ network.species | length }}", "new": "NSPEC = {{ network.species | count }}"}]},
    {"name": "electron-hash-key-class-constant", "edits": [
        {"file": SP, "old": "    _replacement = {}\n", "new": "    _replacement = {}\n    _ELECTRON_KEY = \"Electron\"\n"},
        {"file": SP, "old": _HASH_OLD, "new": '            hash(self._ELECTRON_KEY)\n            if self.is_electron\n'}]},
    {"name": "eq-grain-predicate-helper", "edits": _eq_helper(True)},
]
_POOL_OLD = "        speclist = sorted(\n            self._reactants | self._products | set(self._required_species)\n        )\n\n        connection = {sp: set() for sp in speclist}\n"
BENIGN += [
    {"name": "species-pool-by-set-method", "file": NETF, "old": _POOL_OLD,
     "new": "        speclist = sorted(set().union(self._reactants, self._products, self._required_species))\n\n        connection = {sp: set() for sp in speclist}\n"},
    {"name": "species-pool-by-set-display", "file": NETF, "old": _POOL_OLD,
     "new": "        speclist = sorted({*self._reactants, *self._products, *self._required_species})\n\n        connection = {sp: set() for sp in speclist}\n"},
]
MUTANTS += [
    {"name": "species-pool-chained-list", "file": NETF, "old": _POOL_OLD,
     "new": "        speclist = sorted(itertools.chain(self._reactants | self._products, self._required_species))\n\n        connection = {sp: set() for sp in speclist}\n", "rules": ["R9"]},
]
BENIGN += [
    {"name": "index-loop-over-positions", "file": MACROS, "old": "{% for spec in network.species %}\n#define IDX_{{ spec.alias }} {{ loop.index0 }}",
     "new": "{% for slot in range(network.species | length) %}\n#define IDX_{{ network.species[slot].alias }} {{ slot }}"},
]
MUTANTS += [
    {"name": "index-loop-over-positions-one-based", "file": MACROS, "old": "{% for spec in network.species %}\n#define IDX_{{ spec.alias }} {{ loop.index0 }}",
     "new": "{% for slot in range(network.species | length) %}\n#define IDX_{{ network.species[slot].alias }} {{ slot + 1 }}", "rules": ["R4"]},
    {"name": "index-loop-over-positions-of-other-sequence", "file": MACROS, "old": "{% for spec in network.species %}\n#define IDX_{{ spec.alias }} {{ loop.index0 }}",
     "new": "{% for slot in range(network.species | length) %}\n#define IDX_{{ (network.species | sort(attribute='name') | list)[slot].alias }} {{ slot }}", "rules": ["R4"]},
]
BENIGN += [
    {"name": "pseudo-element-table-from-module-constants", "edits": [
        {"file": SP, "old": '        "c-",\n        "l-",\n        r"\\*",\n        "g",\n    ]\n', "new": '    ] + _ISOMER_MARKS + [r"\\*", "g"]\n'},
        {"file": SP, "old": "class Species:\n", "new": '_ISOMER_MARKS = ["c-", "l-"]\n\n\nclass Species:\n'}]},
]
_GROUPS_CALL = ("        species_group = self.SpeciesGroups(\n            species_enzo,\n            species_grackle,\n            species_network,\n            species_intersect_enzo,\n"
                "            species_intersect_grackle,\n            species_diff_enzo,\n            species_diff_grackle,\n        )\n")
_GROUPS_CLASS = ("    @dataclass\n    class SpeciesGroups:\n        enzo: list[Species]\n        grackle: list[Species]\n        network: list[Species]\n        network_int_enzo: list[Species]\n"
                 "        network_int_grackle: list[Species]\n        network_diff_enzo: list[Species]\n        network_diff_grackle: list[Species]\n")
BENIGN += [
    {"name": "enzo-groups-by-keyword-namedtuple", "edits": [
        {"file": PATCH, "old": _GROUPS_CLASS, "new": '    SpeciesGroups = namedtuple(\n        "SpeciesGroups",\n        "enzo grackle network network_int_enzo network_int_grackle network_diff_enzo network_diff_grackle",\n    )\n'},
        {"file": PATCH, "old": _GROUPS_CALL, "new": "        species_group = self.SpeciesGroups(\n            network=species_network,\n            enzo=species_enzo,\n            grackle=species_grackle,\n"
         "            network_diff_enzo=species_diff_enzo,\n            network_diff_grackle=species_diff_grackle,\n            network_int_enzo=species_intersect_enzo,\n            network_int_grackle=species_intersect_grackle,\n        )\n"}]},
]
MUTANTS += [
    {"name": "enzo-groups-keyword-swapped", "file": PATCH, "old": _GROUPS_CALL, "new": "        species_group = self.SpeciesGroups(\n            network=species_network,\n            enzo=species_enzo,\n            grackle=species_grackle,\n"
     "            network_diff_enzo=species_intersect_enzo,\n            network_diff_grackle=species_diff_grackle,\n            network_int_enzo=species_diff_enzo,\n            network_int_grackle=species_intersect_grackle,\n        )\n", "rules": ["R11"]},
]
_SUMMARY_ALL = ('        summary["num_of_elements"] = len(net.elements)\n        summary["num_of_species"] = len(net.species)\n        summary["num_of_grains"] = len(net.grains)\n'
                '        summary["num_of_gas_species"] = len(gas_species)\n        summary["num_of_ice_species"] = len(ice_species)\n        summary["num_of_grain_species"] = len(grain_species)\n'
                '        summary["num_of_reactions"] = len(net.reactions)\n        summary["list_of_elements"] = all_elements\n        summary["list_of_species"] = all_species\n'
                '        summary["list_of_species_alias"] = all_alias\n        summary["list_of_gas_species"] = gas_species\n        summary["list_of_ice_species"] = ice_species\n'
                '        summary["list_of_grain_species"] = grain_species\n')


def _summary_display(alias="all_alias", nspec="len(net.species)"):
    return {"file": RENDER, "old": _SUMMARY_ALL, "new": '        summary.update({\n            "num_of_elements": len(all_elements),\n            "num_of_species": ' + nspec + ',\n            "num_of_grains": len(net.grains),\n'
            '            "num_of_gas_species": len(gas_species),\n            "num_of_ice_species": len(ice_species),\n            "num_of_grain_species": len(grain_species),\n'
            '            "num_of_reactions": len(net.reactions),\n            "list_of_elements": all_elements,\n            "list_of_species": all_species,\n'
            '            "list_of_species_alias": ' + alias + ',\n            "list_of_gas_species": gas_species,\n            "list_of_ice_species": ice_species,\n'
            '            "list_of_grain_species": grain_species,\n        })\n'}


BENIGN += [dict(_summary_display(), name="summary-as-dict-display")]
MUTANTS += [dict(_summary_display(alias="[x.alias for x in net.species if not x.is_surface]"), name="summary-dict-display-alias-skips-ice", rules=["R4"]),
            dict(_summary_display(nspec="len(gas_species)"), name="summary-dict-display-counts-gas-only", rules=["R5"])]
BENIGN += [
    {"name": "phase-marker-by-multiplication", "file": SP, "old": '                "G" if self.is_surface else "",\n', "new": '                "G" * bool(self.is_surface),\n'},
    {"name": "charge-suffix-by-table-lookup", "file": SP, "old": '                "I" * (self.charge + 1) if self.charge >= 0 else "M" * abs(self.charge),\n',
     "new": '                ("M" * abs(self.charge), "I" * (self.charge + 1))[self.charge >= 0],\n'},
]
MUTANTS += [
    {"name": "phase-marker-inverted", "file": SP, "old": '                "G" if self.is_surface else "",\n', "new": '                "G" * (not self.is_surface),\n', "rules": ["R6"]},
]
BENIGN += [
    {"name": "species-sorted-in-place", "file": NETF, "old": _SORT_OLD, "new": "        speclist.sort(key=lambda x: (len(connection[x]), x))\n\n        return speclist\n"},
]
MUTANTS += [
    {"name": "species-sorted-in-place-by-count-only", "file": NETF, "old": _SORT_OLD, "new": "        speclist.sort(key=lambda x: len(connection[x]))\n\n        return speclist\n", "rules": ["R9"]},
]
_WRAP_HEAD = "/***********************************************************************\n/\n/  GRID CLASS (WRAP THE NAUNET CHEMISTRY SOLVER)\n"
BENIGN += [
    {"name": "wrapper-lines-shifted", "file": WRAP, "old": _WRAP_HEAD, "new": '{% set wrapper_note = "the known findings below are the same constructs, further down" %}\n{% set wrapper_rev = 2 %}\n' + _WRAP_HEAD},
]
MUTANTS += [
    {"name": "wrapper-shifted-and-one-more-overridden-alias-use", "edits": [
        {"file": WRAP, "old": _WRAP_HEAD, "new": '{% set wrapper_note = "shifted" %}\n' + _WRAP_HEAD},
        {"file": WRAP, "old": "        data[sidx].Tgas = temperature[igrid];\n\n        {% for s, n in zip(species.network, specnum) -%}\n",
         "new": "        data[sidx].Tgas = temperature[igrid];\n\n        {% for s in species.network -%}\n          y[sidx + IDX_{{ s.alias }}] = 0.0;\n        {% endfor %}\n        {% for s, n in zip(species.network, specnum) -%}\n"}], "rules": ["R4"]},
]
BENIGN += [{"name": "count-of-listed-names", "file": PYCONST, "old": "NSPEC = {{ network.species | length }}", "new": 'NSPEC = {{ network.species | map(attribute="name") | list | count }}'}]
MUTANTS += [{"name": "count-of-gas-species", "file": PYCONST, "old": "NSPEC = {{ network.species | length }}", "new": 'NSPEC = {{ network.species | rejectattr("is_surface") | list | count }}', "rules": ["R5"]}]
BENIGN += [{"name": "index-loop-over-a-named-sequence", "file": MACROS, "old": "{% for spec in network.species %}\n#define IDX_{{ spec.alias }} {{ loop.index0 }}",
            "new": '{% set members = network.species %}\n{% for spec in members %}\n#define IDX_{{ spec.alias }} {{ loop.index0 }}'}]
MUTANTS += [{"name": "index-loop-over-a-named-filtered-sequence", "file": MACROS, "old": "{% for spec in network.species %}\n#define IDX_{{ spec.alias }} {{ loop.index0 }}",
             "new": '{% set members = network.species | rejectattr("is_grain") | list %}\n{% for spec in members %}\n#define IDX_{{ spec.alias }} {{ loop.index0 }}', "rules": ["R4"]}]
_FORMAT_OLD = ('            self._alias = "{}{}{}".format(\n                "G" if self.is_surface else "",\n                basename,\n'
               '                "I" * (self.charge + 1) if self.charge >= 0 else "M" * abs(self.charge),\n            )\n')
BENIGN += [
    {"name": "alias-joined-from-a-list", "file": SP, "old": _FORMAT_OLD, "new": '            self._alias = "".join([\n                "G" if self.is_surface else "",\n                basename,\n'
     '                "I" * (self.charge + 1) if self.charge >= 0 else "M" * abs(self.charge),\n            ])\n'},
    {"name": "alias-by-percent-formatting", "file": SP, "old": _FORMAT_OLD, "new": '            self._alias = "%s%s%s" % (\n                "G" if self.is_surface else "",\n                basename,\n'
     '                "I" * (self.charge + 1) if self.charge >= 0 else "M" * abs(self.charge),\n            )\n'},
]
MUTANTS += [
    {"name": "alias-joined-without-charge-run", "file": SP, "old": _FORMAT_OLD, "new": '            self._alias = "".join([\n                "G" if self.is_surface else "",\n                basename,\n'
     '                "I" if self.charge >= 0 else "M" * abs(self.charge),\n            ])\n', "rules": ["R6"]},
]
BENIGN += [{"name": "summary-lists-by-map-attrgetter", "edits": [
    {"file": RENDER, "old": "import tomlkit\n", "new": "import operator\nimport tomlkit\n"},
    {"file": RENDER, "old": "        all_species = [x.name for x in net.species]\n        all_alias = [x.alias for x in net.species]\n",
     "new": '        all_species = list(map(operator.attrgetter("name"), net.species))\n        all_alias = list(map(lambda sp: sp.alias, net.species))\n'}]}]
MUTANTS += [{"name": "summary-alias-by-map-over-filter", "file": RENDER, "old": "        all_alias = [x.alias for x in net.species]\n",
             "new": '        all_alias = list(map(lambda sp: sp.alias, filter(lambda sp: not sp.is_surface, net.species)))\n', "rules": ["R4"]}]


def _summary_by_parameters(alias_iter="members"):
    return [
        {"file": RENDER, "old": _SUMMARY_OLD, "new": "        summary = _summary_of(net.species, net.elements)\n        all_elements = summary[\"list_of_elements\"]\n        all_species = summary[\"list_of_species\"]\n        all_alias = summary[\"list_of_species_alias\"]\n"},
        {"file": RENDER, "old": _SUMMARY_STORES, "new": ""},
        {"file": RENDER, "old": _SUMMARY_LISTS, "new": ""},
        {"file": RENDER, "old": "class RenderCommand(Command):\n", "new": "def _summary_of(members, atoms):\n    table = tomlkit.table()\n    table[\"num_of_elements\"] = len(atoms)\n    table[\"num_of_species\"] = len(members)\n"
         "    table[\"list_of_elements\"] = [a.name for a in atoms]\n    table[\"list_of_species\"] = [m.name for m in members]\n    table[\"list_of_species_alias\"] = [m.alias for m in " + alias_iter + "]\n    return table\n\n\nclass RenderCommand(Command):\n"}]


BENIGN += [{"name": "summary-helper-takes-the-sequences", "edits": _summary_by_parameters()}]
MUTANTS += [{"name": "summary-helper-alias-from-sorted-members", "edits": _summary_by_parameters("sorted(members)"), "rules": ["R4"]}]
BENIGN += [{"name": "index-printed-through-format", "edits": [
    {"file": MACROS, "old": "#define IDX_{{ spec.alias }} {{ loop.index0 }}", "new": '#define IDX_{{ spec.alias }} {{ "%d" | format(loop.length - loop.revindex) }}'},
    {"file": PYIDX, "old": "IDX_{{ spec.alias }} = {{ loop.index0 }}", "new": 'IDX_{{ spec.alias }} = {{ "{}".format(loop.index0) }}'}]}]
MUTANTS += [{"name": "index-printed-through-format-one-based", "file": MACROS, "old": "#define IDX_{{ spec.alias }} {{ loop.index0 }}", "new": '#define IDX_{{ spec.alias }} {{ "%d" | format(loop.index) }}', "rules": ["R4"]}]

# --- third hardening wave ---------------------------------------------------------------------------------------------------------
_LT_OLD = "            return self.name < o.name\n        return NotImplemented\n\n    def __repr__"
MUTANTS += [
    {"name": "species-ordered-by-basename-and-charge", "file": SP, "old": _LT_OLD, "new": "            return (self.basename, self.charge) < (o.basename, o.charge)\n        return NotImplemented\n\n    def __repr__", "rules": ["R13"]},
    {"name": "species-ordered-by-alias", "file": SP, "old": _LT_OLD, "new": "            return o.alias > self.alias\n        return NotImplemented\n\n    def __repr__", "rules": ["R13"]},
]
BENIGN += [
    {"name": "species-ordered-by-name-then-charge", "file": SP, "old": _LT_OLD, "new": "            return (self.name, self.charge) < (o.name, o.charge)\n        return NotImplemented\n\n    def __repr__"},
    {"name": "species-order-guard-clause-and-swapped-sides", "file": SP, "old": "        if isinstance(o, Species):\n" + _LT_OLD,
     "new": "        if not isinstance(o, Species):\n            return NotImplemented\n        return o.name > self.name\n\n    def __repr__"},
]
_ALIAS_FORMAT = ('            self._alias = "{}{}{}".format(\n                "G" if self.is_surface else "",\n                basename,\n'
                 '                "I" * (self.charge + 1) if self.charge >= 0 else "M" * abs(self.charge),\n            )\n')
_ALIAS_LOOP = "            for key, value in replacement.items():\n                basename = basename.replace(key, value)\n"
MUTANTS += [
    {"name": "element-case-table-applied-to-the-assembled-alias", "edits": [
        {"file": SP, "old": _ALIAS_LOOP, "new": ""},
        {"file": SP, "old": _ALIAS_FORMAT, "new": '            text = "{}{}{}".format(\n                "G" if self.is_surface else "",\n                basename,\n'
         '                "I" * (self.charge + 1) if self.charge >= 0 else "M" * abs(self.charge),\n            )\n'
         "            for key, value in replacement.items():\n                text = text.replace(key, value)\n            self._alias = text\n"}], "rules": ["R6"]},
]
_NSPEC_OLD = '        summary["num_of_species"] = len(net.species)\n'
MUTANTS += [{"name": "summary-count-adds-overlapping-groups", "file": RENDER, "old": _NSPEC_OLD, "new": '        summary["num_of_species"] = len(gas_species) + len(ice_species) + len(grain_species)\n', "rules": ["R5"]}]
BENIGN += [{"name": "summary-count-adds-gas-and-ice", "file": RENDER, "old": _NSPEC_OLD, "new": '        summary["num_of_species"] = len(gas_species) + len(ice_species)\n'}]
