"""C15 -- duplicate detection reports exactly the repeated reactions (hash/equality contract + first-seen table)."""
from __future__ import annotations

import ast
import re

from ..eqmodel import attrs_read, attrs_read_deep, classify, dnf, eq_disjuncts, returned_bool
from ..pymodel import package
from ..valueflow import Flow, as_map, match, V, show, simp, subst, walk, norm_guard, record_fields, projection
from .c09 import hash_contract

EXPLANATION = (
    "R1 Reaction.__hash__ is a function of the __eq__ class: every attribute it reads is compared by __eq__ (through rpeq), and it applies no "
    "canonicalising order whose key Species.__eq__ can equate across different values (an order-free multiset hash, or a sort whose key every "
    "disjunct of Species.__eq__ forces equal); R2 Species.__hash__ reads only attributes that every satisfied disjunct of Species.__eq__ forces "
    "equal; R3 find_duplicate_reaction: a key is stored in `seen` only in the not-seen arm (as a non-empty list), reported only in the seen arm, any "
    "further guard on the report is a tautology there, the index is appended in the seen arm, the loop covers the whole check list, `first` is the "
    "first index of every key seen more than once, brief mode compares Reaction(reactants, products) (multiplicity kept), string modes format each "
    "reaction with names in a total (name) order -- and, whatever the shape of the table, no entry is overwritten for a key already present; "
    "R4 remove_reaction(list[int]) keeps exactly the positions not listed, and callers that remove duplicates pass the position list; R5 the "
    "comparison methods (Reaction.__eq__/__hash__/__format__, Species.__eq__/__hash__/__lt__) write nothing into the instance and are not memoised; "
    "R7 Species.__lt__ (the order sorted() lists the formatted names in) compares a key that contains the name itself on both sides, so that two species "
    "with different names never tie and permuted reactants / products format identically.")
ASSUMPTIONS = [
    "the result on a given list and transitivity effects of the UNKNOWN wildcard in Reaction.__eq__ are not decided",
    "equal species names were parsed with equal prefix/symbol arguments",
]
ENGINES = ["pymodel", "valueflow", "eqmodel"]

RF = "naunet/reactions/reaction.py"
NF = "naunet/network.py"
SELF = ("param", "self")


def check(ctx):
    pkg = package(ctx.tree)
    _r1(ctx, pkg)
    hash_contract(ctx, pkg, "R2")
    _r3(ctx, pkg)
    _r4(ctx, pkg)
    _r4_callers(ctx, pkg)
    _r5(ctx, pkg)
    _r7(ctx, pkg)
    # the duplicate report is computed from the reactions the network holds NOW: no memo of comparison keys survives an edit
    # (shared with C14.R6, which covers every method of Network that keeps a memo of its own)
    from .c14 import _r6 as live_views
    ctx.absorb(lambda sub: live_views(sub, package(sub.tree)), "R6", only=lambda o: "find_duplicate_reaction" in o.key and o.outcome != "MISSING")


def _r1(ctx, pkg):
    hf0, ef0, rp0 = (pkg.method("Reaction", m) for m in ("__hash__", "__eq__", "rpeq"))
    # read with the small helpers they were split into put back (methods / staticmethods of the class, functions of the module): a
    # key or a comparison moved into `_multiset(species)` / `_same_species(a, b)` is the same key, the same comparison
    hf = pkg.expanded("Reaction", "__hash__", keep=("rpeq",))
    ef = pkg.expanded("Reaction", "__eq__", keep=("rpeq",))
    rp = pkg.expanded("Reaction", "rpeq")
    ctx.saw(RF, "Reaction.__hash__")

    def res(name):
        return pkg.resolve("Reaction", name)[1]
    # what the methods read, looking through predicate / key helpers of the class they call
    def pieces(fn):
        """the method and the helper methods of the class it calls on self (transitively): one body split in pieces"""
        out, todo = [fn], [fn]
        while todo:
            x = todo.pop()
            for c in ast.walk(x):
                # a helper called on self, or read as an attribute (a property of the class that returns the key)
                if isinstance(c, ast.Attribute) and isinstance(c.value, ast.Name) and c.value.id == "self":
                    h = res(c.attr)
                    if h is not None and not any(h is y for y in out) and h not in (hf, ef, rp, hf0, ef0, rp0):
                        out.append(h)
                        todo.append(h)
        return out
    def reads_of(fn):
        """self.<attr> reads of the method and of the helpers / properties of the class it goes through (their names are not attributes)"""
        out = set()
        for part in pieces(fn):
            me = part.args.args[0].arg if part.args.args else "self"
            out |= {a for a in attrs_read(part, me) if res(a) is None}
        return out
    reads = reads_of(hf)
    compared = reads_of(ef) | reads_of(rp) | attrs_read_deep(ef0, res) | attrs_read_deep(rp0, res)
    extra = sorted(reads - compared)

    def opaque(*fns):
        """calls through which a method may read attributes this rule does not see: a function that is neither a builtin of the
        list below nor a helper method of the class (followed by attrs_read_deep), or getattr with a computed name"""
        KNOWN = {"hash", "tuple", "frozenset", "Counter", "sorted", "list", "set", "len", "sum", "str", "repr", "isinstance", "type", "all", "any", "zip",
                 "map", "iter", "next", "min", "max", "bool", "int", "float", "enumerate", "reversed", "dict", "super", "id", "print", "NotImplemented"}
        out = []
        for fn in fns:
            for part in pieces(fn):
                raised = {id(c) for r in ast.walk(part) if isinstance(r, ast.Raise) for c in ast.walk(r)}
                for c in ast.walk(part):
                    if not isinstance(c, ast.Call) or id(c) in raised:
                        continue
                    f = c.func
                    if isinstance(f, ast.Name) and f.id in KNOWN:
                        continue
                    root = f
                    while isinstance(root, (ast.Attribute, ast.Subscript, ast.Call)):
                        root = root.value if not isinstance(root, ast.Call) else root.func
                    imported = isinstance(root, ast.Name) and root.id in pkg.imports.get(RF, {}) and root.id not in KNOWN
                    if isinstance(f, ast.Attribute) and not imported and not (isinstance(f.value, ast.Name) and f.value.id == "self" and res(f.attr) is None and f.attr not in ("rpeq",)):
                        continue        # a method of some value (x.items()), or a helper of the class that was followed
                    out.append(ast.unparse(f)[:40])
        return sorted(set(out))
    if extra and opaque(ef, rp):
        ctx.unrec("R1", "Reaction.__hash__:reads", (RF, hf.lineno), f"the hash reads {extra}; whether equality compares them is hidden behind {opaque(ef, rp)}")
    else:
        ctx.check(not extra, "R1", "Reaction.__hash__:reads", (RF, hf.lineno),
                  "the hash reads only what __eq__/rpeq compare" if not extra else f"the hash reads {extra}, which equality ignores: equal reactions get different hashes",
                  expected=f"subset of {sorted(compared)}", found=str(sorted(reads)))
    if not {"reactants", "products"} <= reads and opaque(hf):
        ctx.unrec("R1", "Reaction.__hash__:covers both sides", (RF, hf.lineno), f"what the hash reads is hidden behind {opaque(hf)}")
    else:
        ctx.check({"reactants", "products"} <= reads, "R1", "Reaction.__hash__:covers both sides", (RF, hf.lineno), "reactants and products both enter the hash")
    # rpeq itself: the two sides are compared as multisets under Species equality (Counter), or through a canonical order
    # whose key equal species share -- a name order does not (e- / E, #CO / GCO sort apart and misalign the lists)
    rsorts = [c for part in pieces(rp) for c in ast.walk(part) if isinstance(c, ast.Call) and ast.unparse(c.func) == "sorted"]
    rsrc = ast.unparse(rp)
    EXP = "Counter(self.reactants) == Counter(o.reactants) and Counter(self.products) == Counter(o.products)"
    if rsorts:
        lt0 = pkg.method("Species", "__lt__")
        keyset = attrs_read(lt0)
        for c in rsorts:
            k = next((kw.value for kw in c.keywords if kw.arg == "key"), None)
            if k is not None:
                keyset = {n.attr for n in ast.walk(k) if isinstance(n, ast.Attribute)}
        disj0, _ = eq_disjuncts(pkg.method("Species", "__eq__"))
        loose0 = [" & ".join(f"{l[0]}:{l[1]}" for l in sorted(d)) for d in disj0 if not keyset <= {l[1] for l in d if l[0] == "eq"}]
        ctx.check(not loose0, "R1", "Reaction.rpeq:multiset comparison", (RF, rp.lineno),
                  "the canonical order uses a key that equal species share" if not loose0 else
                  f"rpeq compares lists sorted by {sorted(keyset)}, but Species.__eq__ equates species whose {sorted(keyset)} differ (disjuncts {loose0}): with a partner that "
                  "sorts between the two spellings the lists misalign, == is False while the hashes agree, and the repeat is entered as a new key",
                  expected=EXP, found=" ".join(rsrc.split())[-160:])
    else:
        # the value rpeq returns as one expression (guard clauses, locals and predicate helpers folded): a conjunction in which
        # each side is compared as Counter(self.X) == Counter(o.X)
        rx = returned_bool(rp, res)
        K = "Reaction.rpeq:multiset comparison"
        if rx is None:
            ctx.unrec("R1", K, (RF, rp.lineno), "the value rpeq returns is not understood as one boolean expression")
        else:
            args = [a.arg for a in rp.args.args]
            conj = dnf(rx)
            lits = classify(conj[0], args[0], args[1]) if len(conj) == 1 and len(args) == 2 else None
            found = " ".join(ast.unparse(rx).split())[-160:]
            if lits is None:
                # a disjunction: some way of being "equal" does not compare both sides
                sides = [{a for a in ("reactants", "products") if any(a in ast.unparse(x) for x in c)} for c in conj]
                if all(s_ == {"reactants", "products"} for s_ in sides) or opaque(rp):
                    ctx.unrec("R1", K, (RF, rp.lineno), f"rpeq is a disjunction this rule does not read: {found}")
                else:
                    ctx.bad("R1", K, (RF, rp.lineno), "rpeq holds in a case that does not compare both the reactants and the products", expected=EXP, found=found)
            else:
                okc = all(("eq", f"Counter({a})") in lits for a in ("reactants", "products"))
                if okc:
                    ctx.ok("R1", K, (RF, rp.lineno), "both sides are compared as Counters (multisets under Species equality and hash)")
                else:
                    # positive evidence: the side is compared, but not as a multiset (set / frozenset / list / tuple / len ...), or is
                    # not compared at all in a conjunction that is otherwise understood
                    # (every literal of the conjunction must be understood -- `self.X == o.X` over attribute reads and builtin
                    # containers; a call of anything else may well be the comparison that seems to be missing)
                    bad_side = [a for a in ("reactants", "products") if ("eq", f"Counter({a})") not in lits]
                    CONT = {"Counter", "set", "frozenset", "sorted", "list", "tuple", "len", "sum", "str"}
                    unread = [l for l in lits if l[0] != "eq" or any(isinstance(c, ast.Call) and not (isinstance(c.func, ast.Name) and c.func.id in CONT)
                                                                     for c in ast.walk(ast.parse(l[1], mode="eval")))]
                    if unread or opaque(rp):
                        ctx.unrec("R1", K, (RF, rp.lineno), f"comparison of {bad_side} not recognised: {found}")
                    else:
                        ctx.bad("R1", K, (RF, rp.lineno), "both sides are compared as Counters (multisets under Species equality and hash)", expected=EXP, found=found)
    # canonicalising order
    sorts = [c for part in pieces(hf) for c in ast.walk(part) if isinstance(c, ast.Call) and ast.unparse(c.func) == "sorted"]
    if not sorts:
        src = "\n".join(ast.unparse(part) for part in pieces(hf))
        multiset = "Counter(" in src or "frozenset" in src
        # understood and wrong: a side enters the hash as the sequence it is (bare, or under tuple / list / str / repr / a slice);
        # any other way of combining the species (a sum / xor of their hashes ...) is not read
        ordered = re.search(r"\b(tuple|list|str|repr)\(self\.(reactants|products)\)|hash\(\(?\s*self\.(reactants|products)\b|[(,]\s*self\.(reactants|products)\s*[,)]", src)
        if not multiset and (opaque(hf) or not ordered):
            ctx.unrec("R1", "Reaction.__hash__:order-free", (RF, hf.lineno), f"how the hash combines the species is not read ({opaque(hf) or src[-80:]})")
        else:
          ctx.check(multiset, "R1", "Reaction.__hash__:order-free", (RF, hf.lineno),
                    "the hash is built from order-free multisets of species (consistent with rpeq's Counter comparison)" if multiset else
                    "the hash depends on the order of reactants/products", found=src[-120:])
        # multiplicity must be kept: a plain frozenset of species loses it but is still consistent (coarser); accept
    else:
        lt = pkg.method("Species", "__lt__")
        key_attrs = attrs_read(lt)
        for c in sorts:
            if c.keywords:
                k = next((kw.value for kw in c.keywords if kw.arg == "key"), None)
                if k is not None:
                    key_attrs = {n.attr for n in ast.walk(k) if isinstance(n, ast.Attribute)}
        disj, _ = eq_disjuncts(pkg.method("Species", "__eq__"))
        loose = []
        for d in disj:
            forced = {l[1] for l in d if l[0] == "eq"}
            if not key_attrs <= forced:
                loose.append(" & ".join(f"{l[0]}:{l[1]}" for l in sorted(d)))
        ctx.check(not loose, "R1", "Reaction.__hash__:sort key", (RF, hf.lineno),
                  "the canonical order uses a key that equal species share" if not loose else
                  f"species are sorted by {sorted(key_attrs)} before hashing, but Species.__eq__ equates species with different {sorted(key_attrs)} "
                  f"(disjuncts {loose}): H+ + e- and H+ + E are == with different hashes, so duplicates across spellings are missed",
                  expected="an order-free hash (multisets), as rpeq compares", found=ast.unparse(hf.body[-1])[:120])


def _mode_value(c, m):
    """truth of a condition on the `mode` parameter for the abstract mode m in ("none", "brief", "text"); None = not decided"""
    MODE = ("param", "mode")
    if c[0] == "unop" and c[1] == "Not":
        x = _mode_value(c[2], m)
        return None if x is None else not x
    if c[0] == "bool":
        vals = [_mode_value(x, m) for x in c[2]]
        if c[1] == "And":
            return False if any(v is False for v in vals) else None if any(v is None for v in vals) else True
        return True if any(v is True for v in vals) else None if any(v is None for v in vals) else False
    if c[0] == "cmp" and len(c[1]) == 1 and len(c[2]) == 2:
        op, (a, b) = c[1][0], c[2]
        if b == MODE and a[0] == "const":
            a, b = b, a
        if a == MODE and b[0] == "const":
            if op in ("Eq", "NotEq", "Is", "IsNot"):
                if b[1] is None:
                    r = m == "none"
                elif b[1] == "brief":
                    r = m == "brief"
                elif isinstance(b[1], str) and b[1]:
                    r = False if m in ("none", "brief") else None       # some other text mode: "text" stands for all of them
                else:
                    return None
                if r is None:
                    return None
                return r if op in ("Eq", "Is") else not r
    return None


def _mode_leaf(v, m):
    """the value a phi / ifexp tree over conditions on `mode` takes for the abstract mode m; None when a condition is not decided"""
    while v[0] in ("phi", "ifexp"):
        t = _mode_value(v[1], m)
        if t is None:
            return None
        v = v[2] if t else v[3]
    return v


def _setdefault_as_branches(fn):
    """A copy of the function in which the statement `T.setdefault(K, []).append(X)` (T, K plain names) is written as the two arms
    it abbreviates -- `if K not in T: T[K] = [X]` / `else: T[K].append(X)` -- so that the table idiom is read like the explicit test."""
    import copy

    def name(e):
        return isinstance(e, ast.Name)

    class T(ast.NodeTransformer):
        def visit_Expr(self, st):
            c = st.value
            if isinstance(c, ast.Call) and isinstance(c.func, ast.Attribute) and c.func.attr == "append" and len(c.args) == 1 and not c.keywords \
                    and isinstance(c.func.value, ast.Call) and isinstance(c.func.value.func, ast.Attribute) and c.func.value.func.attr == "setdefault" \
                    and len(c.func.value.args) == 2 and not c.func.value.keywords and name(c.func.value.func.value) and name(c.func.value.args[0]):
                tab, key, dflt = c.func.value.func.value, c.func.value.args[0], c.func.value.args[1]
                empty = (isinstance(dflt, ast.List) and not dflt.elts) or (isinstance(dflt, ast.Call) and name(dflt.func) and dflt.func.id == "list" and not dflt.args and not dflt.keywords)
                if empty and not any(isinstance(n, ast.Name) and n.id == tab.id for n in ast.walk(c.args[0])):
                    L, S = ast.Load(), ast.Store()
                    new = ast.If(test=ast.Compare(left=ast.Name(id=key.id, ctx=L), ops=[ast.NotIn()], comparators=[ast.Name(id=tab.id, ctx=L)]),
                                 body=[ast.Assign(targets=[ast.Subscript(value=ast.Name(id=tab.id, ctx=L), slice=ast.Name(id=key.id, ctx=L), ctx=S)],
                                                  value=ast.List(elts=[copy.deepcopy(c.args[0])], ctx=L))],
                                 orelse=[ast.Expr(value=ast.Call(func=ast.Attribute(value=ast.Subscript(value=ast.Name(id=tab.id, ctx=L), slice=ast.Name(id=key.id, ctx=L), ctx=L),
                                                                                    attr="append", ctx=L), args=[copy.deepcopy(c.args[0])], keywords=[]))])
                    return ast.fix_missing_locations(ast.copy_location(new, st))
            return st
    if not any(isinstance(n, ast.Attribute) and n.attr == "setdefault" for n in ast.walk(fn)):
        return fn
    return T().visit(copy.deepcopy(fn))


def _tests_after_store(fn, st, facts, table):
    """statements of the scan loop's body that follow the one holding the store `st` (whose arm does not leave the iteration), test
    the table by name and hold one of `facts`"""
    def holds(stmt, f):
        if f.node is not None and any(n is f.node for n in ast.walk(stmt)):
            return True
        return f.node is None and stmt.lineno <= f.line <= getattr(stmt, "end_lineno", stmt.lineno)
    loops = [n for n in ast.walk(fn) if isinstance(n, ast.For) and any(holds(x, st) for x in n.body)]
    if not loops:
        return []
    loop = min(loops, key=lambda n: sum(1 for _ in ast.walk(n)))
    i = next(k for k, x in enumerate(loop.body) if holds(x, st))
    top = loop.body[i]
    if isinstance(top, ast.If):
        arm = top.body if any(holds(x, st) for x in top.body) else top.orelse
        if arm and isinstance(arm[-1], (ast.Continue, ast.Return, ast.Break, ast.Raise)):
            return []
    out = []
    for later in loop.body[i + 1:]:
        tests = [n.test for n in ast.walk(later) if isinstance(n, (ast.If, ast.IfExp, ast.While))]
        if any(isinstance(x, ast.Name) and x.id == table for t in tests for x in ast.walk(t)) and any(holds(later, f) for f in facts):
            out.append(later)
    return out


def _r3(ctx, pkg):
    pkg.method("Network", "find_duplicate_reaction")
    ctx.saw(NF, "Network.find_duplicate_reaction")
    # the scan with the private helpers it was split into put back (statement helpers: the loop over the check list); small pure
    # helpers of the class (e.g. the construction of the check list) are read through as values
    fn = _setdefault_as_branches(pkg.expanded("Network", "find_duplicate_reaction"))
    fl = Flow(fn, NF, resolver=lambda name: pkg.resolve("Network", name)[1], func_resolver=lambda name: pkg.functions.get((NF, name)))
    W = (NF, fn.lineno)
    RL = ("attr", SELF, "reaction_list")
    # the locals by role: (DUPES, DUPIDX, first) is the returned tuple; SEEN is the table `first` is read from (or, failing
    # that, the one the report is guarded by)
    DUPES, DUPIDX, SEEN = "dupes", "dupidx", "seen"
    derived = None          # DUPES computed from DUPIDX after the loop: its value
    rets0 = [simp(f.value) for f in fl.facts if f.kind == "return"]
    if len(rets0) == 1 and rets0[0][0] == "tuple" and len(rets0[0][1]) == 3:
        a0, b0, c0 = rets0[0][1]
        if b0[0] == "acc":
            DUPIDX = b0[1]
        if a0[0] == "acc":
            DUPES = a0[1]
        elif a0[0] == "comp":
            DUPES, derived = None, a0
        tabs = [x[1][1] for x in walk(c0) if isinstance(x, tuple) and len(x) == 5 and x[0] == "meth" and x[2] in ("items", "values") and x[1][0] == "acc"]
        if tabs:
            SEEN = tabs[0]
    ACC_SEEN = ("acc", SEEN)

    def isseen(k):
        return ("cmp", ("In",), (k, ACC_SEEN))        # guards are kept in positive form: unseen = (isseen, False)

    # locals standing for the entry of the current key: `members = seen.get(chk)` / `seen[chk]`, bound once
    entry = {}
    for nm in {f.target for f in fl.facts if f.kind == "init"}:
        ini = [f for f in fl.facts if f.kind == "init" and f.target == nm]
        if len(ini) == 1 and ini[0].loops:
            v = simp(ini[0].value)
            if v[0] == "meth" and v[1] == ACC_SEEN and v[2] == "get" and not v[4] and (len(v[3]) == 1 or (len(v[3]) == 2 and v[3][1] == ("const", None))):
                entry[("acc", nm)] = v[3][0]
            elif v[0] == "sub" and v[1] == ACC_SEEN:
                entry[("acc", nm)] = v[2]
    for nm, lst in fl.assigns.items():
        if ("acc", nm) not in entry and len(lst) == 1 and lst[0][1]:
            v = simp(lst[0][0])
            if v[0] == "meth" and v[1] == ACC_SEEN and v[2] == "get" and not v[4] and (len(v[3]) == 1 or (len(v[3]) == 2 and v[3][1] == ("const", None))):
                entry[v] = v[3][0]

    def cguard(g, p):
        """guard in canonical form: tests of the current entry (`seen.get(k) is None`, truthiness of the fetched entry -- stored
        values are non-empty lists, checked below) are membership tests of the key"""
        g, p = norm_guard((simp(g), p))
        for e, k in entry.items():
            get = e if e[0] == "meth" else None
            if g == e or (get is None and g == ("meth", ACC_SEEN, "get", (k,), ())):
                return (isseen(k), p)
            for lhs in (e, ("meth", ACC_SEEN, "get", (k,), ()), ("meth", ACC_SEEN, "get", (k, ("const", None)), ())):
                if g == ("cmp", ("Is",), (lhs, ("const", None))) or g == ("cmp", ("Eq",), (lhs, ("const", None))):
                    return (isseen(k), not p)
        m_ = {e: ("sub", ACC_SEEN, k) for e, k in entry.items()}
        return (simp(subst(g, m_)), p) if m_ else (g, p)

    def cguards(f):
        return [cguard(g, p) for g, p in f.guards]

    def about_table(g):
        return any(x == ACC_SEEN or x in entry for x in walk(g))

    def entry_of(x):
        """the key whose table entry the value x denotes (`seen[k]`, `seen.get(k)`, a local bound to either), else None"""
        x = simp(x)
        if x in entry:
            return entry[x]
        if x[0] == "sub" and x[1] == ACC_SEEN:
            return x[2]
        if x[0] == "meth" and x[1] == ACC_SEEN and x[2] == "get" and not x[4] and (len(x[3]) == 1 or (len(x[3]) == 2 and x[3][1] == ("const", None))):
            return x[3][0]
        return None

    def class_of(name):
        ci = pkg.classes.get(name)
        if ci is not None:
            return ci.node
        for st in pkg.modules[NF].body:
            if isinstance(st, ast.Assign) and len(st.targets) == 1 and isinstance(st.targets[0], ast.Name) and st.targets[0].id == name and isinstance(st.value, ast.Call):
                return st.value
        return None

    ONE = ("const", 1)
    stores = [f for f in fl.facts if f.kind == "store" and f.target == SEEN]
    reports = [f for f in fl.facts if f.kind == "append" and f.target in (DUPES, DUPIDX)]
    # What happens to the ENTRY of a key after it was created, by projection (valueflow.record_fields paths): ("len",) grows by
    # one with every append; a field / slot is incremented (`e.count += 1`, `e[1] += 1`) or set.  The table may hold the list of
    # positions, or any record of (first position, number of occurrences) -- only those two projections are ever read.
    mods = []            # (key, path, "inc" | "set", value, fact)
    opaque = False
    fresh = []           # stores that create an entry (their value does not build on the old one)
    for f in fl.facts:
        if f.kind == "call" and f.value is not None and f.value[0] == "meth" and entry_of(f.value[1]) is not None:
            if f.target == "append" and len(f.value[3]) == 1:
                mods.append((simp(entry_of(f.value[1])), ("len",), "inc", simp(f.value[3][0]), f))
            elif f.target in ("extend", "insert", "pop", "remove", "clear", "sort", "reverse", "update", "setdefault", "add"):
                opaque = True
        elif f.kind == "append" and ("acc", f.target) in entry:
            mods.append((simp(entry[("acc", f.target)]), ("len",), "inc", simp(f.value), f))
        elif f.kind in ("mutate", "remove") and ("acc", f.target) in entry:
            opaque = True
        elif f.kind == "attrstore" and f.extra.get("obj") is not None and entry_of(f.extra["obj"]) is not None:
            inc = f.op == "Add" and simp(f.value) == ONE
            mods.append((simp(entry_of(f.extra["obj"])), ("attr", f.target), "inc" if inc else "set", simp(f.value), f))
        elif f.kind in ("store", "augstore") and f.target != SEEN:
            b = f.extra.get("base")
            k_ = entry_of(b) if b is not None else entry.get(("acc", f.target))
            if k_ is not None:
                ix = simp(f.index)
                if ix[0] != "const":
                    opaque = True
                else:
                    inc = f.kind == "augstore" and f.op == "Add" and simp(f.value) == ONE
                    mods.append((simp(k_), ("sub", ix[1]), "inc" if inc else "set", simp(f.value), f))
    for st in stores:
        v_ = simp(st.value)
        k_ = simp(st.index)
        old = [x for x in walk(v_) if isinstance(x, tuple) and x and (x == ACC_SEEN or x in entry)]
        if not old:
            fresh.append(st)
            continue
        # an immutable record replaced by its successor: `seen[k] = e._replace(count=e.count + 1)`, `seen[k] = (e[0], e[1] + 1)`,
        # `seen[k] = seen[k] + [idx]` -- projection by projection: unchanged, incremented, or set
        E = ("sub", ACC_SEEN, k_)
        v2 = simp(subst(v_, {e: E for e in entry if entry[e] == k_} | {("meth", ACC_SEEN, "get", (k_,), ()): E, ("meth", ACC_SEEN, "get", (k_, ("const", None)), ()): E}))
        new = None
        if v2[0] == "meth" and v2[1] == E and v2[2] == "_replace" and not v2[3]:
            new = {("attr", k): x for k, x in v2[4]}
        elif v2[0] == "binop" and v2[1] == "Add" and v2[2] == E and v2[3][0] in ("list", "tuple") and len(v2[3][1]) == 1:
            mods.append((k_, ("len",), "inc", v2[3][1][0], st))
            continue
        else:
            new = record_fields(v2, class_of)
            if new is not None:
                new.pop(("len",), None)
        if new is None:
            opaque = True
            continue
        for path, x in new.items():
            cur = ("sub", E, ("const", path[1])) if path[0] == "sub" else ("attr", E, path[1])
            if x == cur:
                continue
            inc = x in (("binop", "Add", cur, ONE), ("binop", "Add", ONE, cur))
            mods.append((k_, path, "inc" if inc else "set", x, st))
    tries = [t for lp_ in ast.walk(fn) if isinstance(lp_, (ast.For, ast.While)) for t in ast.walk(lp_) if isinstance(t, ast.Try)]
    if tries and any(t.lineno <= f.line <= getattr(t, "end_lineno", t.lineno) for t in tries for f in stores + reports):
        ctx.unrec("R3", "find_duplicate_reaction", (NF, tries[0].lineno), "the scan decides with exception handling (try / except), which this rule does not read as a test of the table")
        return
    # whatever the shape of the table: an entry written for a key that is already there, with a value that does not
    # build on the old entry, forgets the first occurrence -- and `first` / the report are derived from the table
    for st in fresh:
        k_ = simp(st.index)
        g_ = cguards(st)
        if (isseen(k_), False) in g_:
            continue
        if any(about_table(g) and g != isseen(k_) for g, _ in g_):
            opaque = True        # guarded by a test of the table this rule does not read: not evidence of an overwrite
            continue
        ctx.bad("R3", "store only when unseen", (NF, st.line), "the first-seen table is overwritten for a key that is already in it: the recorded occurrence is the previous one, not the first "
                "(classes of three or more members report a wrong first member)", expected="if chk not in seen: seen[chk] = [idx]",
                found="; ".join(("" if p else "not ") + show(g)[:60] for g, p in g_) or "unguarded store")
    # guards are read without regard to the order of statements: a test of the table that runs AFTER the statement that enters the key
    # in the same iteration (`seen.setdefault(k, []).append(i)` first, `if k in seen:` later) sees the table already changed -- not read
    if len(fresh) == 1:
        stale = _tests_after_store(fn, fresh[0], [f for f in fl.facts if f.kind in ("append", "call", "store", "augstore", "attrstore") and f is not fresh[0]], SEEN)
        if stale:
            ctx.unrec("R3", "find_duplicate_reaction", (NF, stale[0].lineno), f"`{SEEN}` is tested again after the statement that enters the key in the same iteration: the order of the two is not read")
            return
    nrep = 2 if derived is None else 1
    if len(fresh) != 1 or len(reports) != nrep or not mods or opaque:
        ctx.unrec("R3", "find_duplicate_reaction", W, f"first-seen table not recognised (stores {len(fresh)}, report appends {len(reports)}, growth {len(mods)})")
        return
    st = fresh[0]
    key = simp(st.index)
    lp = st.loops[0] if len(st.loops) == 1 else None
    SEENK = isseen(key)
    ENTRY = ("sub", ACC_SEEN, key)
    # loop
    it = simp(lp.iter) if lp else None
    chk = it[2][0] if it and it[0] == "call" and it[1] == ("global", "enumerate") and len(it[2]) == 1 else ("const", None)
    ok_loop = lp is not None and it == ("call", ("global", "enumerate"), (chk,), ())
    if ok_loop:
        ctx.ok("R3", "loop", (NF, lp.line), "every entry of the check list is visited once, in order, with its index")
    else:
        # understood and wrong: enumerate over a slice / reversed view of the list, or counting from another start; anything else
        # (zip with a range, a generator helper, two nested loops) is a spelling this rule does not read
        inner = it[2][0] if it and it[0] == "call" and it[1] == ("global", "enumerate") and it[2] else None
        wrong = inner is not None and ((len(it[2]) == 2 and it[2][1] != ("const", 0)) or any(k == "start" and v != ("const", 0) for k, v in it[3])
                                      or (inner[0] == "sub" and inner[2][0] == "slice") or (inner[0] == "call" and inner[1] == ("global", "reversed")))
        if wrong:
            ctx.bad("R3", "loop", (NF, lp.line), "every entry of the check list is visited once, in order, with its index", found=show(it)[:100])
        else:
            ctx.unrec("R3", "loop", (NF, lp.line if lp else fn.lineno), f"the scan is not a loop over enumerate(<check list>): {show(it)[:100] if it else 'no single loop around the store'}")
            return
    # understood and wrong: ONE test that has nothing to do with the table stands in front of everything the scan does with an entry (the
    # store, the reports and the growth alike): entries of the check list are skipped before they are looked up -- the original visits all
    scan_facts = [st] + list(reports) + [m[4] for m in mods]
    common = [g for g in cguards(st) if g[0] != SEENK and not about_table(g[0]) and all(g in cguards(f) for f in scan_facts)]
    if common:
        ctx.bad("R3", "loop", (NF, lp.line if lp else st.line), "entries of the check list are skipped by a test that does not concern the first-seen table, before they are looked up: "
                "a repeated reaction that fails the test is neither entered nor reported", expected="every entry of the check list is looked up in `seen`",
                found="; ".join(("" if p_ else "not ") + show(g)[:70] for g, p_ in common))
        return
    # (the store IS in the not-seen arm -- checked above; a further guard on it is not evaluated: it may always hold)
    if cguards(st) == [(SEENK, False)] or all(g == (SEENK, False) for g in cguards(st)):
        ctx.ok("R3", "store only when unseen", (NF, st.line), "a key enters `seen` exactly when it was not there")
    else:
        ctx.unrec("R3", "store only when unseen", (NF, st.line), "the store of a new key is additionally guarded by a test this rule does not evaluate: " +
                  "; ".join(("" if p_ else "not ") + show(g)[:60] for g, p_ in cguards(st) if (g, p_) != (SEENK, False)))
    idx = ("idx", chk, lp.id) if lp else None
    # the two projections `first` reads off an entry: FIRST (the position the key was entered at) and COUNT (compared with 1)
    rets = [f for f in fl.facts if f.kind == "return"]
    P_first = P_count = None
    c = None
    shape = False
    thr_ok = False
    if len(rets) == 1 and simp(rets[0].value)[0] == "tuple" and len(simp(rets[0].value)[1]) == 3:
        a, b, c = simp(rets[0].value)[1]
        if c[0] == "comp" and len(c[3]) == 1 and (a == ("acc", DUPES) or derived is not None) and b == ("acc", DUPIDX):
            tg, itr, ifs = c[3][0]
            idxes = None
            body_, ifs_ = c[2], tuple(ifs)
            if itr == ("meth", ACC_SEEN, "items", (), ()) and tg[0] == "tuple" and len(tg[1]) == 2:
                idxes = tg[1][1]
            elif itr == ("meth", ACC_SEEN, "values", (), ()):
                idxes = tg
            elif itr == ACC_SEEN and tg[0] == "bv":
                # iterating the keys and looking each entry up
                idxes = ("sub", ACC_SEEN, tg)
            if idxes is not None and idxes[0] == "tuple" and all(x[0] == "bv" for x in idxes[1]):
                # the entry destructured in the loop target: `for first, count in seen.values()`
                e_ = ("bv", "_entry", 0)
                m_ = {x: ("sub", e_, ("const", i_)) for i_, x in enumerate(idxes[1])}
                body_, ifs_, idxes = simp(subst(body_, m_)), tuple(simp(subst(x, m_)) for x in ifs_), e_
            if idxes is not None and body_[0] == "sub" and body_[1] == RL and len(ifs_) == 1:
                P_first = projection(body_[2], idxes)
                t = norm_guard((ifs_[0], True))
                b_ = match(("cmp", (V("op"),), (V("y"), ("const", V("n")))), t[0])
                if t[0] in (idxes, ("call", ("global", "len"), (idxes,), ())):
                    # truthiness of the entry / of its size: "at least one occurrence" (every entry), or -- negated -- none
                    P_count, thr_ok = ("len",), False
                elif b_ and isinstance(b_["n"], int):
                    P_count = projection(b_["y"], idxes)
                    op_, n_ = b_["op"], b_["n"]
                    # count > 1  in any of its spellings
                    # (a count is at least 1: `!= 1` says the same)
                    thr_ok = (t[1] and ((op_ == "Gt" and n_ == 1) or (op_ == "GtE" and n_ == 2))) or (not t[1] and ((op_ == "LtE" and n_ == 1) or (op_ == "Lt" and n_ == 2) or (op_ == "Eq" and n_ == 1)))
                shape = bool(P_first) and bool(P_count)
    WF = (NF, rets[0].line if rets else fn.lineno)
    EXPF = "[reactions[idxes[0]] for _, idxes in seen.items() if len(idxes) > 1]"
    if not shape:
        nofilter = c is not None and c[0] == "comp" and len(c[3]) == 1 and not c[3][0][2] and c[3][0][1][0] == "meth" and c[3][0][1][1] == ACC_SEEN \
            and c[3][0][1][2] in ("items", "values") and c[2][0] == "sub" and c[2][1] == RL
        if nofilter:
            # understood and wrong: one reaction per key of the table, repeated or not
            ctx.bad("R3", "first", WF, "`first` = reactions[idxes[0]] for every key seen more than once, in insertion order", expected=EXPF, found=show(c)[:140])
        else:
            ctx.unrec("R3", "first", WF, f"the list of first occurrences is not a selection from the first-seen table: {show(c)[:120] if c else 'no 3-tuple returned'}")
        return
    fields = record_fields(st.value, class_of)
    # a namedtuple row that normalisation already wrote as the tuple of its values (normalize.namedtuple_rows) keeps its field names
    nt = getattr(getattr(st.node, "value", None), "_nt_fields", None)
    if fields is not None and nt:
        for i_, f_ in enumerate(nt):
            if ("sub", i_) in fields:
                fields.setdefault(("attr", f_), fields[("sub", i_)])
    if fields is None:
        ctx.unrec("R3", "stored list non-empty", (NF, st.line), f"the entry created for a new key is not a display / record constructor this rule reads: {show(simp(st.value))[:80]}")
        return
    if P_first not in fields or P_count not in fields:
        ctx.unrec("R3", "stored list non-empty", (NF, st.line), f"the entry created for a new key has no projection {P_first if P_first not in fields else P_count}: {show(simp(st.value))[:80]}")
        return
    # understood and wrong: the count starts at another constant, the first position is a constant / arithmetic on the counter; other values are not read
    f1_, c1_ = fields.get(P_first), fields.get(P_count)
    if not (f1_ == idx and c1_ == ONE) and not ((f1_ == idx or f1_[0] in ("const", "binop")) and (c1_ == ONE or c1_[0] == "const")):
        ctx.unrec("R3", "stored list non-empty", (NF, st.line), f"the entry created for a new key is not read as (current position, one occurrence): {show(simp(st.value))[:80]}")
        return
    ctx.check(fields.get(P_first) == idx and fields.get(P_count) == ONE, "R3", "stored list non-empty", (NF, st.line),
              "a new entry records the current position as the first one and counts one occurrence ([idx], or a record (idx, 1))",
              expected="seen[chk] = [idx]", found=f"{show(simp(st.value))[:60]}: first position {show(fields[P_first])[:30] if P_first in fields else '?'}, "
                                                  f"count {show(fields[P_count])[:20] if P_count in fields else '?'}")
    touched_first = [m for m in mods if m[1] == P_first]
    ctx.check(not touched_first, "R3", "first position kept", (NF, touched_first[0][4].line if touched_first else st.line),
              "the recorded first position of a key is never changed afterwards" if not touched_first else
              "the recorded first position is overwritten at a later occurrence: `first` reports a later member of the class", found=show(touched_first[0][3])[:60] if touched_first else "")
    cnt = [m for m in mods if m[1] == P_count]
    if not cnt:
        ctx.unrec("R3", "seen arm appends index", (NF, st.line), f"nothing this rule reads makes the projection {P_count} of an entry grow")
        return
    for f in reports:
        g = cguards(f)
        base_ok = g and g[0] == (SEENK, True)
        extra = g[1:]
        taut = True
        why = ""
        for x, p in extra:
            # len(seen[chk]) >= 1  /  > 0  (count >= 1 ...): true for every entry (created with one occurrence, only grows)
            b = match(("cmp", (V("op"),), (V("y"), ("const", V("n")))), x)
            if b and p and isinstance(b["n"], int) and projection(b["y"], ENTRY) == P_count and ((b["op"] == "GtE" and b["n"] <= 1) or (b["op"] == "Gt" and b["n"] <= 0)):
                continue
            if p and x == ENTRY:
                continue        # the same test in its canonical spelling: the stored entry is non-empty (truthy)
            if x == SEENK and p:
                continue        # the membership test repeated
            taut = False
            why = show(x)[:80]
        role = "dupes" if f.target == DUPES else "dupidx"
        # positive evidence: the report sits in the not-seen arm / outside any test of the table, or the extra guard is a test of
        # the entry's size this rule evaluates (len(entry) > 1 ..); any other extra guard is not read
        sized = [x for x, p in extra if match(("cmp", (V("op"),), (V("y"), ("const", V("n")))), x) and projection(match(("cmp", (V("op"),), (V("y"), ("const", V("n")))), x)["y"], ENTRY) == P_count]
        if not (bool(base_ok) and taut) and base_ok and not sized:
            ctx.unrec("R3", f"report:{role}", (NF, f.line), f"the report is additionally guarded by `{why}`, which this rule does not evaluate")
            continue
        if not base_ok and any(about_table(x) and x != SEENK for x, _ in g):
            ctx.unrec("R3", f"report:{role}", (NF, f.line), "the report is guarded by a test of the table this rule does not read: " + "; ".join(show(x)[:50] for x, _ in g))
            continue
        ctx.check(bool(base_ok) and taut, "R3", f"report:{role}", (NF, f.line),
                  "a reaction is reported iff its key was seen before" if base_ok and taut else
                  f"the report is additionally guarded by `{why}`, which is not always true in the seen arm: the second member of a repeated class is not reported",
                  expected="report in the `else` of `chk not in seen` (any extra guard a tautology such as len(seen[chk]) >= 1)", found="; ".join(("" if p else "not ") + show(x)[:50] for x, p in g))
    i = [f for f in reports if f.target == DUPIDX][0]
    if derived is None:
        d = [f for f in reports if f.target == DUPES][0]
        iv, dv = simp(i.value), simp(d.value)
        okv = iv == idx and dv == ("sub", RL, idx)
        # understood and wrong: another position (arithmetic on the counter, a constant, the entry's first position), or an element of
        # another list at the counter; anything else (an element handed over by zip, a helper) is not read
        wrong_i = iv != idx and (iv[0] in ("const", "binop", "sub") or entry_of(iv) is not None)
        wrong_d = dv[0] == "sub" and (dv[1] != RL or dv[2] != idx) and (dv[1] == RL or dv[2] == idx)
        if okv or wrong_i or wrong_d:
            ctx.check(okv, "R3", "report values", (NF, d.line), "the reported pair is (reactions[idx], idx) of the current entry", found=f"{show(dv)[:60]} / {show(iv)[:40]}")
        else:
            ctx.unrec("R3", "report values", (NF, d.line), f"the reported pair is not read as (reactions[idx], idx): {show(dv)[:60]} / {show(iv)[:40]}")
    else:
        # the reported reactions are read off the reported positions after the loop
        m = as_map(derived)
        if not m or m[2] != ("acc", DUPIDX):
            ctx.unrec("R3", "report values", (NF, i.line), f"the reported reactions are neither appended with the positions nor a map over them: {show(derived)[:100]}")
        else:
            iv = simp(i.value)
            okv = iv == idx and m[1] == ("sub", RL, m[0]) and not m[3]
            wrong = (iv != idx and (iv[0] in ("const", "binop", "sub") or entry_of(iv) is not None)) or bool(m[3]) or \
                (iv == idx and m[1][0] == "sub" and (m[1][1] == RL or m[1][2] == m[0]))
            if not okv and not wrong:
                ctx.unrec("R3", "report values", (NF, i.line), f"the reported pair is not read as (reactions[idx], idx): {show(derived)[:60]} / {show(iv)[:40]}")
            else:
              ctx.check(simp(i.value) == idx and m[1] == ("sub", RL, m[0]) and not m[3], "R3", "report values", (NF, i.line),
                      "the reported pair is (reactions[idx], idx) of the current entry", found=f"{show(derived)[:60]} / {show(simp(i.value))[:40]}")
    # the count grows by exactly one at every later occurrence: one increment, in the seen arm, unconditionally
    if len(cnt) != 1:
        ctx.unrec("R3", "seen arm appends index", (NF, cnt[0][4].line), f"the count of an entry is changed at {len(cnt)} places: which runs when is not decided")
        return
    gk, _, gkind, gv, g = cnt[0]
    gg = cguards(g)
    ok_g = len(cnt) == 1 and gkind == "inc" and gg == [(SEENK, True)] and gk == key and (P_count != ("len",) or gv == idx)
    # understood and wrong: the count is set instead of incremented, grows outside the seen arm / in the not-seen arm, or another value
    # than the position is appended; a further guard in the seen arm, or another key, is not evaluated
    unread_g = [x for x in gg if x[0] != SEENK]
    def sized_(x):
        b_ = match(("cmp", (V("op"),), (V("y"), ("const", V("n")))), x)
        return bool(b_) and projection(b_["y"], ENTRY) == P_count
    # (a guard that compares the entry's own count with a constant IS read: the count then stops growing at some point)
    unread_g = [x for x in unread_g if not sized_(x[0])]
    if not ok_g and gkind == "inc" and (unread_g or gk != key):
        ctx.unrec("R3", "seen arm appends index", (NF, g.line), "the growth of an entry is guarded by a test this rule does not evaluate: " + "; ".join(("" if p_ else "not ") + show(x)[:60] for x, p_ in unread_g))
        return
    ctx.check(ok_g, "R3", "seen arm appends index", (NF, g.line), "every later occurrence appends its index to the key's list (adds one to the key's count), unconditionally",
              found="; ".join(f"line {m[4].line}: {m[2]} {show(m[3])[:30]} if " + " and ".join(("" if p_ else "not ") + show(x)[:40] for x, p_ in cguards(m[4])) for m in cnt))
    # first
    ctx.check(thr_ok, "R3", "first", WF, "`first` = reactions[idxes[0]] for every key seen more than once, in insertion order", expected=EXPF, found=show(c)[:140])
    # check list per mode: whatever the spelling of the dispatch, the list for mode None / "brief" / any other text
    leaves = {m: _mode_leaf(chk, m) for m in ("none", "brief", "text")}
    if chk[0] in ("phi", "ifexp") and all(v is not None for v in leaves.values()):
        brief = leaves["brief"]
        m = as_map(brief)

        def sides_call(c):
            """Reaction(x.reactants, x.products) in any argument spelling -> the two arguments by role, else None"""
            if c[0] != "call" or c[1] != ("global", "Reaction"):
                return None
            kw = dict(c[3])
            a = list(c[2]) + [kw[k] for k in ("reactants", "products")[len(c[2]):] if k in kw]
            return tuple(a) if len(a) == 2 and len(c[2]) + len(kw) == 2 else None
        ok_b = bool(m) and m[2] == RL and not m[3] and sides_call(m[1]) == (("attr", m[0], "reactants"), ("attr", m[0], "products"))
        if not ok_b and not (m and m[2] == RL and not any(x[0] in ("call", "meth") and x[1] != ("global", "Reaction") and x[1] not in (("global", "frozenset"), ("global", "set"), ("global", "tuple"), ("global", "sorted"), ("global", "list"), ("global", "Counter"))
                                                           for x in walk(m[1]) if isinstance(x, tuple) and x and x[0] in ("call", "meth"))):
            # not a map over the reactions built from builtin containers of their attributes: a spelling this rule does not read
            ctx.unrec("R3", "mode brief", (NF, fn.lineno), f"the keys compared in brief mode are not read: {show(brief)[:120]}")
        else:
          ctx.check(ok_b, "R3", "mode brief", (NF, fn.lineno),
                    "brief mode compares Reaction(reactants, products): the multisets of species, nothing else" if ok_b else
                    "brief mode does not compare the reactant/product lists themselves (multiplicity or order information is lost or added)",
                    expected="[Reaction(re.reactants, re.products) for re in reactions]", found=show(brief)[:120])
        none_ = leaves["none"]
        if none_[0] == "copy" or (none_[0] == "call" and none_[1] in (("global", "list"), ("global", "tuple")) and len(none_[2]) == 1 and not none_[3]) \
                or (none_[0] == "sub" and none_[2] == ("slice", ("const", None), ("const", None), ("const", None))):
            none_ = none_[1] if none_[0] in ("copy", "sub") else none_[2][0]          # the same elements in the same order
        ok_s = none_ == RL
        if ok_s:
            m2 = as_map(leaves["text"])
            ok_s = bool(m2) and m2[2] == RL and not m2[3] and m2[1][0] == "fstr" and len(m2[1][1]) == 1 and m2[1][1][0][0] == "fmt" and m2[1][1][0][1] == m2[0]
            # format(react, mode) is f"{react:{mode}}"
            if not ok_s and bool(m2) and m2[2] == RL and not m2[3] and m2[1][0] == "call" and m2[1][1] == ("global", "format") and len(m2[1][2]) == 2 and not m2[1][3] \
                    and m2[1][2][0] == m2[0] and m2[1][2][1] == ("param", "mode"):
                ok_s = True
        m3 = as_map(leaves["text"])
        read = leaves["none"][0] in ("attr", "comp", "list", "call") and bool(m3) and m3[2] == RL and m3[1][0] in ("fstr", "attr", "const", "tuple")
        if ok_s or read:
            ctx.check(bool(ok_s), "R3", "mode string/default", (NF, fn.lineno), "string modes compare f'{react:{mode}}' of every reaction; the default compares the reactions themselves",
                      found=f"{show(leaves['text'])[:100]} / {show(leaves['none'])[:40]}")
        else:
            ctx.unrec("R3", "mode string/default", (NF, fn.lineno), f"the keys compared in the string / default modes are not read: {show(leaves['text'])[:100]} / {show(leaves['none'])[:40]}")
    else:
        ctx.unrec("R3", "check_list", W, f"mode dispatch not recognised: {show(chk)[:100]}")
    # the formatted names are in a total order (by name)
    _format_order(ctx, pkg)


def _names_order(v, attr):
    """How the list of names `v` printed for self.<attr> is ordered: True = in name order (sorted() of the species -- Species.__lt__,
    R7 -- or of the names, or an explicit key that is the name); False = understood and NOT a total order on the names (input order, or
    an explicit key that is another attribute); None = not a list of the names of self.<attr> this rule reads."""
    SIDE = ("attr", SELF, attr)

    def key_is_name(k):
        """True: the key is the name; False: another attribute of the species; None: not read"""
        if k[0] == "lambda" and len(k[1]) == 1 and k[2][0] == "attr" and k[2][1] == k[1][0]:
            return k[2][2] == "name"
        if k[0] == "call" and k[1] in (("global", "attrgetter"), ("attr", ("global", "operator"), "attrgetter")) and len(k[2]) == 1 and not k[3] \
                and k[2][0][0] == "const" and isinstance(k[2][0][1], str):
            return k[2][0][1] == "name"
        return None

    def ordered(base):
        """the species of the side, ordered: True / False / None as above"""
        if base == SIDE:
            return False                                   # input order
        if base[0] == "copy" and base[1] == SIDE:
            return False
        if base[0] == "call" and base[1] == ("global", "sorted") and len(base[2]) == 1 and base[2][0] in (SIDE, ("copy", SIDE)):
            kw = dict(base[3])
            if not kw:
                return True
            if set(kw) == {"key"}:
                return key_is_name(kw["key"])
        return None
    m = as_map(v)
    if m and m[1] == ("attr", m[0], "name") and not m[3]:
        return ordered(m[2])
    if v[0] == "call" and v[1] == ("global", "sorted") and len(v[2]) == 1 and not v[3]:
        m = as_map(v[2][0])
        if m and m[1] == ("attr", m[0], "name") and not m[3] and m[2] == SIDE:
            return True                                    # the names themselves, sorted
    return None


def _format_order(ctx, pkg):
    ff0 = pkg.method("Reaction", "__format__")
    ctx.saw(RF, "Reaction.__format__")
    # with the helpers it was split into put back (a `_sorted_names(species)` method / staticmethod / module function, properties of
    # the class that return the lists): the same statements wherever they were moved
    ff = pkg.expanded("Reaction", "__format__")
    res = lambda name: pkg.resolve("Reaction", name)[1]
    ffl = Flow(ff, RF, resolver=res, func_resolver=lambda name: pkg.functions.get((RF, name)))
    ci = pkg.cls("Reaction")
    props = {}
    for c in pkg.mro("Reaction"):
        cc = pkg.classes.get(c)
        for nm, fn in (cc.methods.items() if cc else ()):
            if nm not in props and isinstance(fn, ast.FunctionDef) and any(ast.unparse(d) in ("property", "functools.cached_property", "cached_property") for d in fn.decorator_list):
                props[nm] = fn

    def through_props(v, depth=0):
        """`self.<property>` replaced by the value the property returns (one return, read by Flow)"""
        hit = {x for x in walk(v) if isinstance(x, tuple) and len(x) == 3 and x[0] == "attr" and x[1] == SELF and x[2] in props}
        if not hit or depth > 2:
            return v
        m = {}
        for x in hit:
            pf = Flow(props[x[2]], RF, resolver=res, func_resolver=lambda name: pkg.functions.get((RF, name)))
            rets = [simp(f.value) for f in pf.facts if f.kind == "return"]
            if len(rets) == 1:
                m[x] = through_props(rets[0], depth + 1)
        return simp(subst(v, m)) if m else v
    for nm, attr in (("rnames", "reactants"), ("pnames", "products")):
        # by role: the locals whose FIRST value is a list of names of self.<attr> (intermediate locals -- the sorted species, the side
        # itself -- are substituted into it by Flow); every such list must be in name order
        cands = []
        for lst in ffl.assigns.values():
            if not lst:
                continue
            v = through_props(simp(lst[0][0]))
            if any(x == ("attr", SELF, attr) for x in walk(v)):
                cands.append((v, lst[0][3]))
        verdicts = [(_names_order(v, attr), v, ln) for v, ln in cands]
        read = [x for x in verdicts if x[0] is not None]
        K = f"__format__:{nm} order"
        if not read:
            found = show(cands[0][0])[:100] if cands else "no local built from self." + attr
            ctx.unrec("R3", K, (RF, cands[0][1] if cands else ff0.lineno), f"how the printed {attr} are ordered is not read: {found}")
            continue
        ok = all(x[0] for x in read)
        _, v, ln = next((x for x in read if not x[0]), read[0])
        ctx.check(ok, "R3", K, (RF, ln),
                  f"formatted {attr} are listed in name order (a total order on the printed tokens, so permutations format identically)" if ok else
                  f"the {attr} are not sorted by the printed name itself: two species that tie under the sort key keep their input order and permuted duplicates format differently",
                  expected=f"[x.name for x in sorted(self.{attr})]", found=show(v)[:100])


def _flat_cases(v, conds=()):
    """a phi / ifexp tree as [(conditions, leaf)]"""
    if v[0] in ("phi", "ifexp") and len(v) == 4:
        return _flat_cases(v[2], conds + ((v[1], True),)) + _flat_cases(v[3], conds + ((v[1], False),))
    return [(conds, v)]


def _pred_cases(v):
    """[(conditions, leaf)] of a list value: the arms of a phi / ifexp tree, and -- for a comprehension filtered by a predicate that was
    itself CHOSEN by a chain of tests (`keep = <lambda per argument type>; [.. if keep(i, r)]`) -- one comprehension per predicate,
    with the chosen predicate's body as the filter; an arm of the chain that raises builds no list"""
    out = []
    for conds, leaf in _flat_cases(v):
        if leaf[0] == "comp" and len(leaf[3]) == 1:
            tg, it, ifs = leaf[3][0]
            calls = [c for c in ifs if c[0] == "call" and c[1][0] in ("phi", "ifexp") and not c[3]]
            if len(calls) == 1:
                c = calls[0]
                done = True
                sub = []
                for conds2, fv in _flat_cases(c[1]):
                    if fv[0] == "raise":
                        continue
                    if fv[0] != "lambda" or len(fv[1]) != len(c[2]):
                        done = False
                        break
                    test = simp(subst(fv[2], dict(zip(fv[1], c[2]))))
                    sub.append((conds + conds2, ("comp", leaf[1], leaf[2], ((tg, it, tuple(test if x is c else x for x in ifs)),))))
                if done and sub:
                    out.extend(sub)
                    continue
        out.append((conds, leaf))
    return out


def _r4(ctx, pkg, rule="R4"):
    """What happens to self.reaction_list when the argument is a list of positions: every statement that can run in that
    scenario (guards and value-selecting conditions evaluated with `reaction` a non-empty list of ints, unknown tests left open)
    and changes the list must be the one rebuild `[r for idx, r in enumerate(self.reaction_list) if idx not in reaction]`."""
    from ..valueflow import _bool_atoms, guards_satisfiable, split_guard
    fn = pkg.method("Network", "remove_reaction")
    try:
        fn = pkg.expanded("Network", "remove_reaction")      # branches moved into helper procedures are put back
    except RecursionError:
        pass
    ctx.saw(NF, "Network.remove_reaction")
    # type tests moved into a small predicate (a method of the class or a function of the module) are read through
    fl = Flow(fn, NF, resolver=lambda name: pkg.resolve("Network", name)[1], func_resolver=lambda name: pkg.functions.get((NF, name)), raise_arms=True,
              proc_resolver=lambda name: pkg.resolve("Network", name)[1])
    RL = ("attr", SELF, "reaction_list")
    P = fn.args.args[1].arg if len(fn.args.args) > 1 else "reaction"
    R = ("param", P)
    K = "remove_reaction:list of indices"
    p_ = re.escape(P)
    SCEN = [(rf"^isinstance\({p_}, int\)$", False), (rf"^isinstance\({p_}, list\)$", True), (rf"^all\(\[isinstance\(\w+, int\) for \w+ in {p_}\]\)$", True),
            (rf"^isinstance\({p_}, Reaction\)$", False), (rf"^all\(\[isinstance\(\w+, Reaction\) for \w+ in {p_}\]\)$", False)]

    undecided = []

    # the scenario, evaluated on the IR: `reaction` is a non-empty list of ints
    def scen_val(v):
        while v[0] in ("ifexp", "phi") and len(v) == 4:
            t = scen(v[1])
            if t is None:
                break
            v = v[2] if t else v[3]
        return v

    def scen(c, ints=frozenset()):
        c = simp(c)
        if c[0] == "unop" and c[1] == "Not":
            x = scen(c[2], ints)
            return None if x is None else not x
        if c[0] == "bool":
            vals = [scen(x, ints) for x in c[2]]
            if c[1] == "And":
                return False if any(x is False for x in vals) else None if any(x is None for x in vals) else True
            return True if any(x is True for x in vals) else None if any(x is None for x in vals) else False
        if c[0] == "call" and c[1] == ("global", "isinstance") and len(c[2]) == 2 and not c[3]:
            x, T = c[2]
            types = list(T[1]) if T[0] == "tuple" else [T]
            if not all(t[0] == "global" for t in types):
                return None
            names = {t[1] for t in types}
            if scen_val(x) == R:
                return "list" in names
            if x in ints:
                return "int" in names
            return None
        if c[0] == "call" and c[1] in (("global", "all"), ("global", "any")) and len(c[2]) == 1 and not c[3]:
            comp = c[2][0]
            if comp[0] == "comp" and len(comp[3]) == 1 and not comp[3][0][2] and comp[3][0][0] is not None and comp[3][0][0][0] == "bv" and scen_val(comp[3][0][1]) == R:
                return scen(comp[2], ints | {comp[3][0][0]})        # over a non-empty list of ints, every element alike: the body for an int element
        return None

    def reachable(guards):
        gs = []
        for g, pol in guards:
            gs.extend(split_guard((simp(g), pol)))
        atoms = set()
        for c, _ in gs:
            _bool_atoms(c, atoms)
        extra = []
        for a_ in atoms:
            hit = False
            val = scen(a_)
            if val is not None:
                extra.append((a_, val))
                hit = True
            for pat, val in (SCEN if not hit else ()):
                if re.search(pat, show(a_)):
                    extra.append((a_, val))
                    hit = True
            if not hit and any(x == R for x in walk(a_)):
                undecided.append(a_)        # a test of the argument this rule cannot evaluate for a list of positions
        return guards_satisfiable(gs, extra)

    # everything that changes self.reaction_list, case by case
    cases = []          # (kind, leaf | None, fact, every test of the argument on the way was evaluated)
    for f in fl.facts:
        if f.kind == "attrstore" and f.target == "reaction_list" and f.extra.get("obj") == SELF:
            for conds, leaf in _pred_cases(simp(f.value)):
                del undecided[:]
                if reachable(tuple(f.guards) + conds):
                    cases.append(("rebuild" if f.op == "=" else "inplace", leaf, f, not undecided))
        elif f.kind == "call" and f.value is not None and f.value[0] == "meth" and simp(f.value[1]) == RL and f.target in ("pop", "remove", "clear", "insert", "append", "extend", "sort", "reverse"):
            del undecided[:]
            if reachable(f.guards):
                cases.append(("inplace", None, f, not undecided))
        elif f.kind == "store" and f.target == "self.reaction_list" and f.index is not None and simp(f.index) == ("slice", ("const", None), ("const", None), ("const", None)):
            # `self.reaction_list[:] = <list>`: the whole content replaced -- the same rebuild, kept in the same list object
            for conds, leaf in _pred_cases(simp(f.value)):
                del undecided[:]
                if reachable(tuple(f.guards) + conds):
                    cases.append(("rebuild", leaf, f, not undecided))
        elif (f.kind == "delete" and f.target.replace(" ", "").startswith("self.reaction_list")) or (f.kind in ("store", "augstore") and f.target == "self.reaction_list"):
            del undecided[:]
            if reachable(f.guards):
                cases.append(("inplace", None, f, not undecided))
    W = (NF, cases[0][2].line if cases else fn.lineno)
    inplace = [c for c in cases if c[0] == "inplace"]
    EXP = "[r for idx, r in enumerate(self.reaction_list) if idx not in reaction]"
    BADMSG = "the index-list branch does not rebuild the list from `idx not in reaction`: in-place deletion shifts positions / mishandles repeated indices"
    if inplace:
        sure = [c for c in inplace if c[3]]
        f = (sure or inplace)[0][2]
        if sure:
            ctx.bad(rule, K, (NF, f.line), BADMSG, expected=EXP, found="; ".join(f"{c[2].kind} {c[2].target}@{c[2].line}" for c in cases))
        else:
            # the branch is chosen by a test of the argument that was not evaluated: it may be the branch of another argument type
            ctx.unrec(rule, K, (NF, f.line), "cannot tell whether the in-place change of self.reaction_list is reached for a list of positions (a test of the argument is not understood)")
        return
    if not cases:
        ctx.unrec(rule, K, W, "no statement that changes self.reaction_list for a list of positions was found")
        return
    verdicts = []
    for _, v, f, sure in cases:
        ok = wrong = False
        if v[0] == "comp" and len(v[3]) == 1:
            tg, it, ifs = v[3][0]
            ok = it == ("call", ("global", "enumerate"), (RL,), ()) and tg[0] == "tuple" and v[2] == tg[1][1] and tuple(ifs) == (("cmp", ("NotIn",), (tg[1][0], R)),)
            # a filter over the list itself with another test is understood -- and wrong (by value, by `idx in`, ...)
            # (positive evidence only when the statement is known to run for a list of positions)
            # positive evidence only when the statement is known to run for a list of positions and the filter is ONE comparison this
            # rule reads: the ELEMENT compared with anything (removal by value: equal copies go too / nothing matches the integers),
            # or the position tested with `in` / `==` (the listed ones are kept).  `idx not in <set / tuple / list view of the
            # argument>` is the same selection as `idx not in reaction`.  A predicate that is called is not understood, not wrong.
            over = it in (RL, ("call", ("global", "enumerate"), (RL,), ()))
            elem_bv = tg if it == RL else tg[1][1] if tg[0] == "tuple" and len(tg[1]) == 2 else None
            idx_bv = tg[1][0] if it != RL and tg[0] == "tuple" and len(tg[1]) == 2 else None
            c = ifs[0] if len(ifs) == 1 else None
            if not ok and over and c is not None and c[0] == "cmp" and len(c[1]) == 1 and v[2] == elem_bv:
                op, (lhs, rhs) = c[1][0], c[2]
                view = rhs[2][0] if rhs[0] == "call" and rhs[1] in (("global", "set"), ("global", "frozenset"), ("global", "tuple"), ("global", "list")) and len(rhs[2]) == 1 and not rhs[3] else rhs
                if lhs == idx_bv and idx_bv is not None and op == "NotIn" and view == R:
                    ok = True
                elif sure and lhs == elem_bv and op in ("NotIn", "In", "NotEq", "Eq"):
                    wrong = True
                elif sure and lhs == idx_bv and idx_bv is not None and op in ("In", "Eq") and any(x == R for x in walk(rhs)):
                    wrong = True
        verdicts.append((ok, wrong, v, f))
    if all(o for o, _, _, _ in verdicts):
        ctx.ok(rule, K, W, "exactly the reactions whose position is not listed survive (repeated indices are harmless)")
    elif any(w for _, w, _, _ in verdicts):
        _, _, v, f = next(x for x in verdicts if x[1])
        ctx.bad(rule, K, (NF, f.line), BADMSG, expected=EXP, found=show(v)[:120])
    else:
        _, _, v, f = next(x for x in verdicts if not x[0])
        ctx.unrec(rule, K, (NF, f.line), f"the list built for a list of positions is not recognised: {show(v)[:120]}")


def _r5(ctx, pkg):
    """The comparison keys (==, hash, the formatted strings of the string modes, the species ordering used inside them)
    are computed from the reaction's current fields on every call: the methods keep nothing in the instance."""
    from .c05 import CACHES
    from .c14 import _self_writes
    n = 0
    for cls, meths in (("Reaction", ("__eq__", "__hash__", "__format__")), ("Species", ("__eq__", "__hash__", "__lt__"))):
        ci = pkg.cls(cls)
        for m in meths:
            fn = ci.methods.get(m)
            if fn is None:
                ctx.missing("R5", f"{cls}.{m}", (ci.file, ci.node.lineno), "comparison method vanished")
                continue
            n += 1
            ctx.saw(ci.file, f"{cls}.{m}")
            w = _self_writes(fn)
            decs = [ast.unparse(d) for d in fn.decorator_list if any(c in ast.unparse(d) for c in CACHES)]
            ok = not w and not decs
            ctx.check(ok, "R5", f"{cls}.{m}:keeps nothing", (ci.file, min(w.values()) if w else fn.lineno),
                      "the key is recomputed from the current fields on every call" if ok else
                      f"`{cls}.{m}` stores into the instance ({sorted(w) or decs}): a key computed once (e.g. while the reaction is still being parsed, or before an edit) is compared ever after",
                      expected="no write to self.* and no cache decorator", found=", ".join(sorted(w)) or ", ".join(decs))
    ctx.floor("R5", "comparison methods", n, 6)


def _r7(ctx, pkg, rule="R7", consequence=None):
    """(Shared with C17, which adopts it for the order of Network.species: `consequence` is what a tie means there.)
    The string modes compare the formatted reactions, and `Reaction.__format__` makes that text independent of the order of
    the reactants / products by listing the names in `sorted()` order -- the order `Species.__lt__` defines.  That text is canonical
    only if two species with DIFFERENT names never tie (a tie keeps the input order: `H + #H` and `#H + H` format differently and
    the permuted copy is entered as a new key).  Necessary and checked: the key `__lt__` compares contains the name itself, on
    both sides, on every path (directly, as a component of a tuple, or through a property of the class that returns it)."""
    SF = "naunet/species.py"
    ci = pkg.cls("Species")
    lt = ci.methods.get("__lt__")
    K = "Species.__lt__:distinct names never tie"
    if lt is None:
        ctx.missing(rule, K, (SF, ci.node.lineno), "Species.__lt__ vanished (sorted() of species in Reaction.__format__ depends on it)")
        return
    ctx.saw(SF, "Species.__lt__")
    rx = returned_bool(lt, lambda name: pkg.resolve("Species", name)[1])
    args = [a.arg for a in lt.args.args]
    cmp_ = None
    if rx is not None and len(args) == 2:
        leaves = [x for c in dnf(rx) for x in c]
        cands = [x for x in leaves if isinstance(x, ast.Compare) and len(x.ops) == 1 and isinstance(x.ops[0], (ast.Lt, ast.Gt))]
        rest = [x for x in leaves if x not in cands and not (isinstance(x, ast.Call) and ast.unparse(x.func) == "isinstance")]
        if len(cands) == 1 and not rest and len(dnf(rx)) == 1:
            cmp_ = cands[0]
    if cmp_ is None:
        ctx.unrec(rule, K, (SF, lt.lineno), f"the value __lt__ returns is not one `<` comparison of two keys: {ast.unparse(rx)[:100] if rx is not None else 'not understood'}")
        return
    props = {m: fn for m, fn in ci.methods.items() if isinstance(fn, ast.FunctionDef) and any(ast.unparse(d) in ("property", "functools.cached_property", "cached_property") for d in fn.decorator_list)}

    def has_name(e, var, depth=0, fn=None):
        """True: the species' name ITSELF is a component of the key `e` on every path;  False: on some path it is not (another
        attribute, a constant, a value computed from the name that drops part of it);  None: not decided (the name under a wrapper
        such as str(..) / .lower(), a helper this rule does not follow)"""
        def every(vals):
            return True if vals and all(v is True for v in vals) else None if any(v is None for v in vals) else False
        if isinstance(e, ast.Constant):
            return False
        if isinstance(e, ast.Attribute) and isinstance(e.value, ast.Name) and e.value.id == var:
            if e.attr == "name":
                return True
            if e.attr in props and depth < 4:
                p_ = props[e.attr]
                rets = [r.value for r in ast.walk(p_) if isinstance(r, ast.Return) and r.value is not None]
                return every([has_name(r, p_.args.args[0].arg, depth + 1, p_) for r in rets]) if rets else None
            return False if e.attr not in ci.methods else None
        if isinstance(e, ast.Name) and fn is not None and e.id != var:
            # a local of the property: every value it is bound to
            vals = [n.value for n in ast.walk(fn) if isinstance(n, ast.Assign) and any(isinstance(t, ast.Name) and t.id == e.id for t in n.targets)]
            other = [n for n in ast.walk(fn) if isinstance(n, ast.Name) and n.id == e.id and isinstance(n.ctx, ast.Store)]
            if not vals or len(other) != len(vals) or depth > 6:
                return None
            return every([has_name(v, var, depth + 1, None if any(isinstance(x, ast.Name) and x.id == e.id for x in ast.walk(v)) else fn) for v in vals])
        if isinstance(e, (ast.Tuple, ast.List)):
            vals = [has_name(x, var, depth, fn) for x in e.elts]
            return True if any(v is True for v in vals) else None if any(v is None for v in vals) else False
        if isinstance(e, ast.IfExp):
            return every([has_name(e.body, var, depth, fn), has_name(e.orelse, var, depth, fn)])
        if isinstance(e, ast.Call):
            # str(x.name), x.name.lower(): the name under a wrapper -- not decided;  anything else computed is not the name itself
            direct = list(e.args) + ([e.func.value] if isinstance(e.func, ast.Attribute) else [])
            if any(isinstance(a, ast.Attribute) and isinstance(a.value, ast.Name) and a.value.id == var and a.attr == "name" for a in direct):
                return None
            if isinstance(e.func, ast.Attribute) and isinstance(e.func.value, ast.Name) and e.func.value.id == var:
                return None          # a helper method of the class: not followed
            return False
        if not any(isinstance(n, ast.Name) and n.id == var for n in ast.walk(e)):
            return False
        return None
    l, r = cmp_.left, cmp_.comparators[0]
    sides = {}
    for e in (l, r):
        names = {n.id for n in ast.walk(e) if isinstance(n, ast.Name)} & set(args)
        if len(names) == 1:
            sides[names.pop()] = e
    if set(sides) != set(args):
        ctx.unrec(rule, K, (SF, cmp_.lineno), f"the comparison does not have one key per operand: {ast.unparse(cmp_)[:100]}")
        return
    got = {v: has_name(e, v) for v, e in sides.items()}
    found = " ".join(ast.unparse(cmp_).split())[:120]
    if any(x is None for x in got.values()):
        ctx.unrec(rule, K, (SF, cmp_.lineno), f"cannot tell whether the compared key contains the name: {found}")
    else:
        ok = all(got.values())
        ctx.check(ok, rule, K, (SF, cmp_.lineno), "the order of species is decided by a key that contains the name: two species with different names never tie" if ok else
                  "Species.__lt__ compares a key that does not contain the name: species with different names can tie (H / #H, #1H / #2H under basename and charge), sorted() "
                  "then keeps their input order, " + (consequence or "`Reaction.__format__` prints permuted copies of a reaction differently and the string modes of find_duplicate_reaction miss them"),
                  expected="self.name < o.name (or a tuple key with the name as a component)", found=found)


def _r4_callers(ctx, pkg, rule="R4"):
    """De-duplication removes the LATER copies: callers hand remove_reaction the position list of find_duplicate_reaction,
    not the duplicate objects (removal by object is removal by equality, which also removes the copy to keep)."""
    pkg.method("Network", "find_duplicate_reaction")
    # by role: the element of the returned tuple that is a list grown by appending the loop's own position counter (read on the
    # function with its private helpers put back, so that a scan extracted into a helper is the same scan)
    fd = pkg.expanded("Network", "find_duplicate_reaction")
    ffl = Flow(fd, NF, resolver=lambda name: pkg.resolve("Network", name)[1])
    rets = [simp(f.value) for f in ffl.facts if f.kind == "return"]
    pos = set()
    if len(rets) == 1 and rets[0][0] == "tuple":
        for i, e in enumerate(rets[0][1]):
            if e[0] == "acc":
                apps = [f for f in ffl.facts if f.kind == "append" and f.target == e[1]]
                if apps and all(simp(f.value)[0] == "idx" for f in apps):
                    pos.add(i)
    if len(pos) != 1:
        # by role, with the scan possibly moved into helper methods (put back by pkg.expanded): the element of the returned tuple
        # that is a list filled only by appending the position counter of an enumerate loop
        efl = Flow(pkg.expanded("Network", "find_duplicate_reaction"), NF)
        rv = [simp(f.value) for f in efl.facts if f.kind == "return"]
        pos = set()
        if len(rv) == 1 and rv[0][0] == "tuple":
            for i, e in enumerate(rv[0][1]):
                apps = [f for f in efl.facts if e[0] == "acc" and f.target == e[1] and f.kind in ("append", "mutate", "store", "augstore", "remove")]
                if apps and all(f.kind == "append" and f.op == "append" and simp(f.value)[0] == "idx" for f in apps):
                    pos.add(i)
    if len(pos) != 1:
        # by use: the element E of the returned tuple that another element reads the reactions WITH -- `[reactions[i] for i in E]` --
        # is a list of positions into the reaction list (the others are lists of reactions), however it was collected
        from ..valueflow import as_map
        RLS = (("attr", SELF, "reaction_list"),)
        for fl_ in (ffl,):
            rv = [simp(f.value) for f in fl_.facts if f.kind == "return"]
            pos = set()
            if len(rv) == 1 and rv[0][0] == "tuple":
                elts = [simp(simp(e)) for e in rv[0][1]]
                for j, e in enumerate(elts):
                    m = as_map(e) if e[0] in ("comp", "copy") else None
                    if m and not m[3] and m[1][0] == "sub" and m[1][2] == m[0] and m[1][1] in RLS:
                        pos |= {i for i, x in enumerate(elts) if i != j and x == m[2]}
    if len(pos) != 1:
        ctx.unrec(rule, "find_duplicate_reaction:position list", (NF, fd.lineno), f"cannot tell which element of the returned tuple is the list of positions ({sorted(pos)})")
        return
    (ipos,) = pos
    n = 0
    for f in pkg.files:
        if not f.endswith(".py") or f.startswith("naunet/examples/"):
            continue
        for fn in ast.walk(pkg.modules[f]):
            if not isinstance(fn, (ast.FunctionDef, ast.AsyncFunctionDef)):
                continue
            names = {}
            calls = {}
            for st in ast.walk(fn):
                if isinstance(st, ast.Assign) and isinstance(st.value, ast.Call) and isinstance(st.value.func, ast.Attribute) and st.value.func.attr == "find_duplicate_reaction":
                    t = st.targets[0]
                    if isinstance(t, ast.Tuple):
                        for i, e in enumerate(t.elts):
                            if isinstance(e, ast.Name) and e.id != "_":
                                names[e.id] = i
                                calls[e.id] = st.value
                    elif isinstance(t, ast.Name):
                        names[t.id] = None
                        calls[t.id] = st.value
            for c in ast.walk(fn):
                if isinstance(c, ast.Call) and isinstance(c.func, ast.Attribute) and c.func.attr == "remove_reaction" and c.args:
                    a = c.args[0]
                    while isinstance(a, ast.Call) and isinstance(a.func, ast.Name) and a.func.id in ("list", "sorted", "tuple", "set") and len(a.args) == 1 and not a.keywords:
                        a = a.args[0]           # the same positions
                    got = None
                    if isinstance(a, ast.Name) and a.id in names:
                        got = names[a.id]
                    elif isinstance(a, ast.Subscript) and isinstance(a.value, ast.Name) and names.get(a.value.id, 0) is None and isinstance(a.slice, ast.Constant):
                        got = a.slice.value
                    elif isinstance(a, ast.Subscript) and isinstance(a.value, ast.Call) and isinstance(a.value.func, ast.Attribute) and a.value.func.attr == "find_duplicate_reaction" \
                            and isinstance(a.slice, ast.Constant):
                        got = a.slice.value
                    else:
                        continue
                    n += 1
                    # what is REMOVED is decided by reaction equality: the text modes ("short", "minimal", ...) round the window and
                    # print the type by name -- they are for reporting, a removal based on them drops reactions that are not equal
                    src = calls.get(a.id) if isinstance(a, ast.Name) else calls.get(a.value.id) if isinstance(a, ast.Subscript) and isinstance(a.value, ast.Name) else \
                        a.value if isinstance(a, ast.Subscript) and isinstance(a.value, ast.Call) else None
                    if src is not None:
                        mode = (src.args[0] if src.args else next((k.value for k in src.keywords if k.arg == "mode"), None))
                        plain = mode is None or (isinstance(mode, ast.Constant) and mode.value in (None, ""))
                        if plain or isinstance(mode, ast.Constant):
                            ctx.check(plain, rule, f"{f.rsplit('/', 1)[1]}:{fn.name}:removal decided by reaction equality", (f, c.lineno),
                                      "the duplicates that are removed were found by comparing the reactions themselves" if plain else
                                      f"the reactions removed are the duplicates under the TEXT mode {ast.unparse(mode)}: that text rounds the temperature window and spells the type by name, "
                                      "so a reaction that is not equal to any other (Tmax 298.20 next to 298.16) is removed, and an untyped copy of a typed reaction is kept",
                                      expected="find_duplicate_reaction() (mode None)", found=ast.unparse(src)[:80])
                        else:
                            ctx.unrec(rule, f"{f.rsplit('/', 1)[1]}:{fn.name}:removal decided by reaction equality", (f, c.lineno), f"comparison mode is not a literal: {ast.unparse(mode)[:60]}")
                    # the positions are positions in the list AS IT IS when they are used: nothing edits the network between the scan
                    # that produced them and the removal that consumes them
                    if src is not None and hasattr(src, "lineno"):
                        recv = ast.unparse(c.func.value)
                        edits = []
                        for x in ast.walk(fn):
                            ln = getattr(x, "lineno", None)
                            if ln is None or not (src.lineno < ln < c.lineno):
                                continue
                            if isinstance(x, ast.Call) and isinstance(x.func, ast.Attribute) and ast.unparse(x.func.value) == recv and x.func.attr in ("remove_reaction", "add_reaction", "add_reaction_from_file", "reindex") and x is not c:
                                edits.append((ln, ast.unparse(x)[:50]))
                            if isinstance(x, ast.Assign) and any(ast.unparse(t) == recv or (isinstance(t, ast.Attribute) and ast.unparse(t.value) == recv and t.attr in ("allowed_species", "required_species", "reaction_list")) for t in x.targets):
                                edits.append((ln, ast.unparse(x)[:50]))
                        ctx.check(not edits, rule, f"{f.rsplit('/', 1)[1]}:{fn.name}:positions used on the list they were computed on", (f, c.lineno),
                                  "the duplicate positions are consumed before the network is edited again" if not edits else
                                  f"the positions come from a scan at line {src.lineno}, but the network is edited in between (line {edits[0][0]}: `{edits[0][1]}`): they now point at other "
                                  "reactions -- reactions that are not duplicates are removed and the duplicates stay", expected="find_duplicate_reaction() immediately before remove_reaction(..)",
                                  found="; ".join(f"line {a}: {b}" for a, b in edits[:3]))
                    ctx.check(got == ipos, rule, f"{f.rsplit('/', 1)[1]}:{fn.name}:remove_reaction(duplicates)", (f, c.lineno),
                              "the positions of the later copies are removed" if got == ipos else
                              "the duplicate OBJECTS (or the first occurrences) are passed to remove_reaction, which removes every reaction EQUAL to them -- the copy to keep is removed too",
                              expected=f"element {ipos} of find_duplicate_reaction() (the position list)", found=f"element {got}: {ast.unparse(c)[:80]}")
    ctx.floor(rule, "callers removing duplicates", n, 1)


MUTANTS = [
    {"name": "rpeq-sorted-lists", "file": RF, "old": "        return Counter(self.reactants) == Counter(o.reactants) and Counter(\n            self.products\n        ) == Counter(o.products)", "new": "        return sorted(self.reactants) == sorted(o.reactants) and sorted(self.products) == sorted(o.products)", "rules": ["R1"]},
    {"name": "rpeq-sets", "file": RF, "old": "        return Counter(self.reactants) == Counter(o.reactants) and Counter(\n            self.products\n        ) == Counter(o.products)", "new": "        return set(self.reactants) == set(o.reactants) and set(self.products) == set(o.products)", "rules": ["R1"]},
    {"name": "format-memoised-in-instance", "edits": [
        {"file": RF, "old": "    def __format__(self, form: str) -> str:\n        verbose = None\n", "new": "    def __format__(self, form: str) -> str:\n        verbose = self.__dict__.setdefault('_kf', {}).get(form)\n        if verbose is not None:\n            return verbose\n"},
        {"file": RF, "old": '            raise ValueError(f"Unknown format: {form}")\n\n        return verbose', "new": '            raise ValueError(f"Unknown format: {form}")\n\n        self._kf[form] = verbose\n        return verbose'}], "rules": ["R5"]},
    {"name": "seen-table-last-index", "file": NF, "old": "            if chk not in seen:\n                seen[chk] = [idx]\n            else:\n                if len(seen[chk]) >= 1:\n                    dupes.append(reactions[idx])\n                    dupidx.append(idx)\n                seen[chk].append(idx)\n",
     "new": "            if chk in seen:\n                dupes.append(reactions[idx])\n                dupidx.append(idx)\n            seen[chk] = [idx]\n", "rules": ["R3"]},
    {"name": "extend-removes-dupes-by-text", "file": "naunet/console/commands/extend.py", "old": "            _, dupidx, _ = net.find_duplicate_reaction()\n", "new": "            _, dupidx, _ = net.find_duplicate_reaction(mode=\"short\")\n", "rules": ["R4"]},
    {"name": "extend-removes-dupes-by-object", "file": "naunet/console/commands/extend.py", "old": "            _, dupidx, _ = net.find_duplicate_reaction()\n            net.remove_reaction(dupidx)", "new": "            dupes, _, _ = net.find_duplicate_reaction()\n            net.remove_reaction(dupes)", "rules": ["R4"]},
    {"name": "hash-reads-temp-min", "file": RF, "old": "                frozenset(Counter(self.products).items()),\n", "new": "                frozenset(Counter(self.products).items()),\n                self.alpha,\n", "rules": ["R1"]},
    {"name": "hash-sorted-by-name", "file": RF, "old": "        return hash(\n            (\n                frozenset(Counter(self.reactants).items()),\n                frozenset(Counter(self.products).items()),\n            )\n        )\n", "new": "        return hash(tuple([*sorted(self.reactants), *sorted(self.products)]))\n", "rules": ["R1"]},
    {"name": "store-outside-if", "file": NF, "old": "            if chk not in seen:\n                seen[chk] = [idx]\n            else:", "new": "            seen[chk] = [idx]\n            if chk in seen:\n                pass\n            else:", "rules": ["R3"]},
    {"name": "report-len-gt-1", "file": NF, "old": "if len(seen[chk]) >= 1:", "new": "if len(seen[chk]) > 1:", "rules": ["R3"]},
    {"name": "first-len-gt-0", "file": NF, "old": "for _, idxes in seen.items() if len(idxes) > 1]", "new": "for _, idxes in seen.items() if len(idxes) > 0]", "rules": ["R3"]},
    {"name": "remove-idx-in", "file": NF, "old": "r for idx, r in enumerate(self.reaction_list) if idx not in reaction", "new": "r for idx, r in enumerate(self.reaction_list) if idx in reaction", "rules": ["R4"]},
    {"name": "brief-frozensets", "file": NF, "old": "check_list = [Reaction(re.reactants, re.products) for re in reactions]", "new": "check_list = [(frozenset(re.reactants), frozenset(re.products)) for re in reactions]", "rules": ["R3"]},
    {"name": "format-sort-by-basename", "file": RF, "old": "rnames = [x.name for x in sorted(self.reactants)]", "new": "rnames = [x.name for x in sorted(self.reactants, key=lambda s: s.basename)]", "rules": ["R3"]},
    {"name": "species-hash-reads-name", "file": "naunet/species.py", "old": '                f"{self.basename}"\n                f"{self.charge}"', "new": '                f"{self.name}"\n                f"{self.charge}"', "rules": ["R2"]},
    {"name": "remove-in-place-backwards", "file": NF, "old": "            self.reaction_list = [\n                r for idx, r in enumerate(self.reaction_list) if idx not in reaction\n            ]\n", "new": "            for idx in sorted(reaction, reverse=True):\n                del self.reaction_list[idx]\n", "rules": ["R4"]},
]
_HASH = "        return hash(\n            (\n                frozenset(Counter(self.reactants).items()),\n                frozenset(Counter(self.products).items()),\n            )\n        )\n"
_RPEQ = "        return Counter(self.reactants) == Counter(o.reactants) and Counter(\n            self.products\n        ) == Counter(o.products)"
_LOOP = ("            if chk not in seen:\n                seen[chk] = [idx]\n            else:\n                if len(seen[chk]) >= 1:\n                    dupes.append(reactions[idx])\n"
         "                    dupidx.append(idx)\n                seen[chk].append(idx)\n")
_RM = ("        elif isinstance(reaction, list) and all(isinstance(r, int) for r in reaction):\n            self.reaction_list = [\n"
       "                r for idx, r in enumerate(self.reaction_list) if idx not in reaction\n            ]\n")
BENIGN = [
    {"name": "report-guard-gt-0", "file": NF, "old": "if len(seen[chk]) >= 1:", "new": "if len(seen[chk]) > 0:"},
    {"name": "hash-key-in-helper", "file": RF, "old": _HASH,
     "new": "        return hash(self._sides())\n\n    def _sides(self):\n        return (frozenset(Counter(self.reactants).items()), frozenset(Counter(self.products).items()))\n"},
    {"name": "rpeq-guard-clause", "file": RF, "old": _RPEQ,
     "new": "        if Counter(self.reactants) != Counter(o.reactants):\n            return False\n\n        return Counter(self.products) == Counter(o.products)"},
    {"name": "rpeq-locals-and-if-else", "file": RF, "old": _RPEQ,
     "new": "        same_r = Counter(o.reactants) == Counter(self.reactants)\n        if same_r:\n            return Counter(self.products) == Counter(o.products)\n        else:\n            return False"},
    {"name": "seen-entry-fetched-once", "file": NF, "old": _LOOP,
     "new": "            members = seen.get(chk)\n            if members is None:\n                seen[chk] = [idx]\n                continue\n            dupes.append(reactions[idx])\n"
            "            dupidx.append(idx)\n            members.append(idx)\n"},
    {"name": "dupes-derived-from-positions", "edits": [
        {"file": NF, "old": "                    dupes.append(reactions[idx])\n", "new": ""},
        {"file": NF, "old": "        dupes = []\n        dupidx = []\n", "new": "        dupidx = []\n"},
        {"file": NF, "old": "        first = [reactions[idxes[0]] for _, idxes in seen.items() if len(idxes) > 1]\n",
         "new": "        dupes = [reactions[i] for i in dupidx]\n        first = [reactions[idxes[0]] for idxes in seen.values() if len(idxes) > 1]\n"}]},
    {"name": "check-list-guard-clauses-in-helper", "edits": [
        {"file": NF, "old": "        check_list = reactions\n\n        if mode == \"brief\":\n            check_list = [Reaction(re.reactants, re.products) for re in reactions]\n"
                            "        elif mode is not None:\n            check_list = [f\"{react:{mode}}\" for react in reactions]\n",
         "new": "        check_list = self._keys_for(reactions, mode)\n"},
        {"file": NF, "old": "    def find_duplicate_reaction(self, mode: str = None)",
         "new": "    def _keys_for(self, reactions, mode):\n        if mode is None:\n            return reactions\n        if mode != \"brief\":\n            return [f\"{react:{mode}}\" for react in reactions]\n"
                "        return [Reaction(re.reactants, re.products) for re in reactions]\n\n    def find_duplicate_reaction(self, mode: str = None)"}]},
    {"name": "removal-predicate-chosen-per-branch", "file": NF, "old": _RM,
     "new": "        elif isinstance(reaction, list) and all(isinstance(r, int) for r in reaction):\n            keep = lambda i, r: i not in reaction\n"
            "            self.reaction_list = [r for i, r in enumerate(self.reaction_list) if keep(i, r)]\n"},
]
MUTANTS += [
    # the same defects in the restructured spellings the rules read through
    {"name": "rpeq-guard-clause-sets", "file": RF, "old": _RPEQ,
     "new": "        if set(self.reactants) != set(o.reactants):\n            return False\n\n        return Counter(self.products) == Counter(o.products)", "rules": ["R1"]},
    {"name": "rpeq-one-side-suffices", "file": RF, "old": _RPEQ,
     "new": "        if Counter(self.reactants) == Counter(o.reactants):\n            return True\n\n        return Counter(self.products) == Counter(o.products)", "rules": ["R1"]},
    {"name": "entry-fetched-report-needs-two", "file": NF, "old": _LOOP,
     "new": "            members = seen.get(chk)\n            if members is None:\n                seen[chk] = [idx]\n                continue\n            if len(members) > 1:\n                dupes.append(reactions[idx])\n"
            "                dupidx.append(idx)\n            members.append(idx)\n", "rules": ["R3"]},
    {"name": "entry-fetched-overwritten", "file": NF, "old": _LOOP,
     "new": "            members = seen.get(chk)\n            if members is not None:\n                dupes.append(reactions[idx])\n                dupidx.append(idx)\n            seen[chk] = [idx]\n", "rules": ["R3"]},
    {"name": "removal-predicate-by-value", "file": NF, "old": _RM,
     "new": "        elif isinstance(reaction, list) and all(isinstance(r, int) for r in reaction):\n            keep = lambda i, r: r not in reaction\n"
            "            self.reaction_list = [r for i, r in enumerate(self.reaction_list) if keep(i, r)]\n", "rules": ["R4"]},
]
MUTANTS += [
    {"name": "hash-key-in-helper-sorted-by-name", "file": RF, "old": _HASH,
     "new": "        return hash(self._sides())\n\n    def _sides(self):\n        return (tuple(sorted(self.reactants)), tuple(sorted(self.products)))\n", "rules": ["R1"]},
]

# ---- the first-seen table in other representations (only two projections of an entry are ever read: first position, count) ----
_FIRST = "        first = [reactions[idxes[0]] for _, idxes in seen.items() if len(idxes) > 1]\n"
_FACT = "def _grain_factory(model: str, **kwargs) -> Grain:\n"
_OCC_DC = "from dataclasses import dataclass\n\n\n@dataclass\nclass _Occ:\n    first: int\n    count: int = 1\n\n\n"
_OCC_LOOP = ("            occ = seen.get(chk)\n            if occ is None:\n                seen[chk] = _Occ(first=idx)\n                continue\n\n"
             "            occ.count += 1\n            dupes.append(reactions[idx])\n            dupidx.append(idx)\n")
_OCC_FIRST = "        first = [reactions[occ.first] for occ in seen.values() if occ.count > 1]\n"
_SCAN = ("        for idx, chk in enumerate(\n            tqdm(check_list, desc=\"Checking Repeated Reactions...\")\n        ):\n" + _LOOP)
BENIGN += [
    {"name": "table-of-occurrence-records", "edits": [
        {"file": NF, "old": _FACT, "new": _OCC_DC + _FACT}, {"file": NF, "old": _LOOP, "new": _OCC_LOOP}, {"file": NF, "old": _FIRST, "new": _OCC_FIRST}]},
    {"name": "table-of-pairs", "edits": [
        {"file": NF, "old": _LOOP, "new": "            if chk not in seen:\n                seen[chk] = [idx, 1]\n            else:\n                dupes.append(reactions[idx])\n"
                                          "                dupidx.append(idx)\n                seen[chk][1] += 1\n"},
        {"file": NF, "old": _FIRST, "new": "        first = [reactions[at] for at, n in seen.values() if n >= 2]\n"}]},
    {"name": "table-of-named-tuples-replaced", "edits": [
        {"file": NF, "old": _FACT, "new": "from collections import namedtuple\n\n_Seen = namedtuple(\"_Seen\", \"first count\")\n\n\n" + _FACT},
        {"file": NF, "old": _LOOP, "new": "            rec = seen.get(chk)\n            if rec is None:\n                seen[chk] = _Seen(idx, 1)\n            else:\n                dupes.append(reactions[idx])\n"
                                          "                dupidx.append(idx)\n                seen[chk] = rec._replace(count=rec.count + 1)\n"},
        {"file": NF, "old": _FIRST, "new": "        first = [reactions[rec.first] for rec in seen.values() if rec.count > 1]\n"}]},
    {"name": "scan-in-static-helper", "edits": [
        {"file": NF, "old": "        seen = {}\n        dupes = []\n        dupidx = []\n", "new": ""},
        {"file": NF, "old": _SCAN, "new": "        seen, dupidx = self._scan(check_list)\n        dupes = [reactions[i] for i in dupidx]\n"},
        {"file": NF, "old": "    def find_duplicate_reaction(self, mode: str = None)",
         "new": "    @staticmethod\n    def _scan(check_list):\n        seen = {}\n        again = []\n" + _SCAN.replace("                    dupes.append(reactions[idx])\n", "").replace("dupidx.append", "again.append")
                + "        return seen, again\n\n    def find_duplicate_reaction(self, mode: str = None)"}]},
    {"name": "rpeq-hash-over-class-constant-sides", "edits": [
        {"file": RF, "old": "    format = \"naunet\"\n", "new": "    format = \"naunet\"\n    _sides = (\"reactants\", \"products\")\n"},
        {"file": RF, "old": _RPEQ, "new": "        return all(Counter(getattr(self, side)) == Counter(getattr(o, side)) for side in self._sides)"},
        {"file": RF, "old": _HASH, "new": "        return hash(tuple(frozenset(Counter(getattr(self, side)).items()) for side in Reaction._sides))\n"}]},
]
MUTANTS += [
    {"name": "occurrence-records-count-from-zero", "edits": [
        {"file": NF, "old": _FACT, "new": _OCC_DC.replace("count: int = 1", "count: int = 0") + _FACT}, {"file": NF, "old": _LOOP, "new": _OCC_LOOP}, {"file": NF, "old": _FIRST, "new": _OCC_FIRST}],
     "rules": ["R3"]},
    {"name": "occurrence-records-first-overwritten", "edits": [
        {"file": NF, "old": _FACT, "new": _OCC_DC + _FACT}, {"file": NF, "old": _LOOP, "new": _OCC_LOOP.replace("            occ.count += 1\n", "            occ.count += 1\n            occ.first = idx\n")},
        {"file": NF, "old": _FIRST, "new": _OCC_FIRST}], "rules": ["R3"]},
    {"name": "occurrence-records-first-needs-three", "edits": [
        {"file": NF, "old": _FACT, "new": _OCC_DC + _FACT}, {"file": NF, "old": _LOOP, "new": _OCC_LOOP}, {"file": NF, "old": _FIRST, "new": _OCC_FIRST.replace("occ.count > 1", "occ.count > 2")}],
     "rules": ["R3"]},
    {"name": "occurrence-records-counted-conditionally", "edits": [
        {"file": NF, "old": _FACT, "new": _OCC_DC + _FACT},
        {"file": NF, "old": _LOOP, "new": _OCC_LOOP.replace("            occ.count += 1\n", "            if occ.count < 2:\n                occ.count += 1\n")},
        {"file": NF, "old": _FIRST, "new": _OCC_FIRST.replace("occ.count > 1", "occ.count > 2")}], "rules": ["R3"]},
    {"name": "sides-constant-one-side-only", "edits": [
        {"file": RF, "old": "    format = \"naunet\"\n", "new": "    format = \"naunet\"\n    _sides = (\"reactants\",)\n"},
        {"file": RF, "old": _RPEQ, "new": "        return all(Counter(getattr(self, side)) == Counter(getattr(o, side)) for side in self._sides)"}], "rules": ["R1"]},
]

_LT = "            return self.name < o.name\n"
_KEYPROP = "    @property\n    def _sort_key(self):\n        return %s\n\n    def __repr__(self) -> str:\n"
MUTANTS += [
    {"name": "species-ordered-by-basename-and-charge", "file": "naunet/species.py", "old": _LT, "new": "            return (self.basename, self.charge) < (o.basename, o.charge)\n", "rules": ["R7"]},
    {"name": "species-ordered-by-key-property-without-name", "edits": [
        {"file": "naunet/species.py", "old": _LT, "new": "            return self._sort_key < o._sort_key\n"},
        {"file": "naunet/species.py", "old": "    def __repr__(self) -> str:\n", "new": _KEYPROP % "(\"e\", -1) if self.is_electron else (self.basename, self.charge)"}], "rules": ["R7"]},
]
BENIGN += [
    {"name": "species-ordered-by-tuple-key-with-name", "file": "naunet/species.py", "old": _LT, "new": "            return (self.name, self.charge) < (o.name, o.charge)\n"},
    {"name": "species-ordered-by-key-property-returning-name", "edits": [
        {"file": "naunet/species.py", "old": _LT, "new": "            return self._sort_key < o._sort_key\n"},
        {"file": "naunet/species.py", "old": "    def __repr__(self) -> str:\n", "new": _KEYPROP % "self.name"}]},
    {"name": "species-lt-guard-clause", "file": "naunet/species.py", "old": "        if isinstance(o, Species):\n            return self.name < o.name\n        return NotImplemented\n",
     "new": "        if not isinstance(o, Species):\n            return NotImplemented\n        return o.name > self.name\n"},
]
MUTANTS += [
    # the positions resolved to objects first, then removal by value: every reaction EQUAL to a listed one goes too
    {"name": "removal-of-the-objects-at-the-positions", "file": NF, "old": _RM,
     "new": "        elif isinstance(reaction, list) and all(isinstance(r, int) for r in reaction):\n            gone = [self.reaction_list[i] for i in reaction]\n"
            "            self.reaction_list = [r for r in self.reaction_list if r not in gone]\n", "rules": ["R4"]},
]
BENIGN += [
    {"name": "removal-by-position-through-a-set", "file": NF, "old": _RM,
     "new": "        elif isinstance(reaction, list) and all(isinstance(r, int) for r in reaction):\n"
            "            self.reaction_list = [r for i, r in enumerate(self.reaction_list) if i not in set(reaction)]\n"},
]

# ---- wave 4: everyday refactors of the anchored methods (helpers extracted / inlined, guard clauses, idioms) ----
_RN = "        rnames = [x.name for x in sorted(self.reactants)]\n        pnames = [x.name for x in sorted(self.products)]\n"
_FMT = "    def __format__(self, form: str) -> str:\n"
_CLASSR = "class Reaction(Component):\n"
_FDR = "    def find_duplicate_reaction(self, mode: str = None)"
BENIGN += [
    {"name": "format-names-in-static-helper", "edits": [
        {"file": RF, "old": _RN, "new": "        rnames = self._sorted_names(self.reactants)\n        pnames = self._sorted_names(self.products)\n"},
        {"file": RF, "old": _FMT, "new": "    @staticmethod\n    def _sorted_names(species):\n        return [x.name for x in sorted(species)]\n\n" + _FMT}]},
    {"name": "format-names-in-module-helper", "edits": [
        {"file": RF, "old": _RN, "new": "        rnames = _sorted_names(self.reactants)\n        pnames = _sorted_names(self.products)\n"},
        {"file": RF, "old": _CLASSR, "new": "def _sorted_names(species):\n    return [x.name for x in sorted(species)]\n\n\n" + _CLASSR}]},
    {"name": "format-sorted-species-in-locals", "file": RF, "old": _RN,
     "new": "        reactants = sorted(self.reactants)\n        products = sorted(self.products)\n        rnames = [x.name for x in reactants]\n        pnames = [x.name for x in products]\n"},
    {"name": "format-names-sorted-by-attrgetter-name", "edits": [
        {"file": RF, "old": _RN, "new": "        rnames = [x.name for x in sorted(self.reactants, key=attrgetter(\"name\"))]\n        pnames = [x.name for x in sorted(self.products, key=attrgetter(\"name\"))]\n"},
        {"file": RF, "old": "from collections import Counter\n", "new": "from collections import Counter\nfrom operator import attrgetter\n"}]},
    {"name": "format-names-in-properties", "edits": [
        {"file": RF, "old": _RN, "new": "        rnames = self._rnames\n        pnames = self._pnames\n"},
        {"file": RF, "old": _FMT, "new": "    @property\n    def _rnames(self):\n        return [x.name for x in sorted(self.reactants)]\n\n    @property\n    def _pnames(self):\n        return [x.name for x in sorted(self.products)]\n\n" + _FMT}]},
    {"name": "hash-multiset-in-module-helper", "edits": [
        {"file": RF, "old": _HASH, "new": "        return hash((_multiset(self.reactants), _multiset(self.products)))\n"},
        {"file": RF, "old": _CLASSR, "new": "def _multiset(species):\n    return frozenset(Counter(species).items())\n\n\n" + _CLASSR}]},
    {"name": "hash-key-in-property", "edits": [
        {"file": RF, "old": _HASH, "new": "        return hash(self._sides)\n"},
        {"file": RF, "old": _FMT, "new": "    @property\n    def _sides(self):\n        return (frozenset(Counter(self.reactants).items()), frozenset(Counter(self.products).items()))\n\n" + _FMT}]},
    {"name": "rpeq-comparison-in-static-helper", "edits": [
        {"file": RF, "old": _RPEQ, "new": "        return self._same_species(self.reactants, o.reactants) and self._same_species(self.products, o.products)"},
        {"file": RF, "old": _FMT, "new": "    @staticmethod\n    def _same_species(a, b):\n        return Counter(a) == Counter(b)\n\n" + _FMT}]},
    {"name": "rpeq-negated-disjunction", "file": RF, "old": _RPEQ,
     "new": "        return not (Counter(self.reactants) != Counter(o.reactants) or Counter(self.products) != Counter(o.products))"},
    {"name": "first-built-by-loop-with-guard-clause", "file": NF, "old": _FIRST,
     "new": "        first = []\n        for idxes in seen.values():\n            if len(idxes) < 2:\n                continue\n            first.append(reactions[idxes[0]])\n"},
    {"name": "check-list-in-module-helper-and-format-call", "edits": [
        {"file": NF, "old": "        check_list = reactions\n\n        if mode == \"brief\":\n            check_list = [Reaction(re.reactants, re.products) for re in reactions]\n"
                            "        elif mode is not None:\n            check_list = [f\"{react:{mode}}\" for react in reactions]\n", "new": "        check_list = _check_keys(reactions, mode)\n"},
        {"file": NF, "old": _FACT, "new": "def _check_keys(reactions, mode):\n    if mode == \"brief\":\n        return [Reaction(re.reactants, re.products) for re in reactions]\n    if mode is not None:\n"
                                          "        return [format(react, mode) for react in reactions]\n    return list(reactions)\n\n\n" + _FACT}]},
    {"name": "table-filled-with-setdefault", "file": NF, "old": _LOOP,
     "new": "            if chk in seen:\n                dupes.append(reactions[idx])\n                dupidx.append(idx)\n            seen.setdefault(chk, []).append(idx)\n"},
    {"name": "removal-loop-with-guard-clause", "file": NF, "old": _RM,
     "new": "        elif isinstance(reaction, list) and all(isinstance(r, int) for r in reaction):\n            kept = []\n            for idx, r in enumerate(self.reaction_list):\n                if idx in reaction:\n"
            "                    continue\n                kept.append(r)\n            self.reaction_list = kept\n"},
    {"name": "removal-in-procedure-helper", "edits": [
        {"file": NF, "old": _RM, "new": "        elif isinstance(reaction, list) and all(isinstance(r, int) for r in reaction):\n            self._drop_positions(reaction)\n"},
        {"file": NF, "old": _FDR, "new": "    def _drop_positions(self, positions):\n        self.reaction_list = [r for idx, r in enumerate(self.reaction_list) if idx not in positions]\n\n" + _FDR}]},
    {"name": "removal-by-slice-assignment", "file": NF, "old": _RM,
     "new": "        elif isinstance(reaction, list) and all(isinstance(r, int) for r in reaction):\n            self.reaction_list[:] = [r for idx, r in enumerate(self.reaction_list) if idx not in reaction]\n"},
    {"name": "caller-passes-a-copy-of-the-positions", "file": "naunet/console/commands/extend.py", "old": "            net.remove_reaction(dupidx)", "new": "            net.remove_reaction(list(dupidx))"},
]
MUTANTS += [
    # the same defects in the spellings read since wave 4
    {"name": "format-static-helper-unsorted", "edits": [
        {"file": RF, "old": _RN, "new": "        rnames = self._sorted_names(self.reactants)\n        pnames = self._sorted_names(self.products)\n"},
        {"file": RF, "old": _FMT, "new": "    @staticmethod\n    def _sorted_names(species):\n        return [x.name for x in species]\n\n" + _FMT}], "rules": ["R3"]},
    {"name": "format-sorted-by-attrgetter-basename", "edits": [
        {"file": RF, "old": _RN, "new": "        rnames = [x.name for x in sorted(self.reactants, key=attrgetter(\"basename\"))]\n        pnames = [x.name for x in sorted(self.products)]\n"},
        {"file": RF, "old": "from collections import Counter\n", "new": "from collections import Counter\nfrom operator import attrgetter\n"}], "rules": ["R3"]},
    {"name": "hash-property-reads-alpha", "edits": [
        {"file": RF, "old": _HASH, "new": "        return hash(self._sides)\n"},
        {"file": RF, "old": _FMT, "new": "    @property\n    def _sides(self):\n        return (frozenset(Counter(self.reactants).items()), frozenset(Counter(self.products).items()), self.alpha)\n\n" + _FMT}], "rules": ["R1"]},
    {"name": "hash-module-helper-keeps-order", "edits": [
        {"file": RF, "old": _HASH, "new": "        return hash((_multiset(self.reactants), _multiset(self.products)))\n"},
        {"file": RF, "old": _CLASSR, "new": "def _multiset(species):\n    return tuple(sorted(species))\n\n\n" + _CLASSR}], "rules": ["R1"]},
    {"name": "rpeq-static-helper-compares-sets", "edits": [
        {"file": RF, "old": _RPEQ, "new": "        return self._same_species(self.reactants, o.reactants) and self._same_species(self.products, o.products)"},
        {"file": RF, "old": _FMT, "new": "    @staticmethod\n    def _same_species(a, b):\n        return set(a) == set(b)\n\n" + _FMT}], "rules": ["R1"]},
    {"name": "rpeq-negated-disjunction-one-side", "file": RF, "old": _RPEQ,
     "new": "        return not (Counter(self.reactants) != Counter(o.reactants) and Counter(self.products) != Counter(o.products))", "rules": ["R1"]},
    {"name": "first-loop-guard-clause-needs-three", "file": NF, "old": _FIRST,
     "new": "        first = []\n        for idxes in seen.values():\n            if len(idxes) < 3:\n                continue\n            first.append(reactions[idxes[0]])\n", "rules": ["R3"]},
    {"name": "setdefault-table-entered-before-the-test", "file": NF, "old": _LOOP,
     "new": "            seen.setdefault(chk, []).append(idx)\n            if chk in seen:\n                dupes.append(reactions[idx])\n                dupidx.append(idx)\n", "rules": ["R3"], "accept_error": True},
    {"name": "removal-loop-guard-clause-inverted", "file": NF, "old": _RM,
     "new": "        elif isinstance(reaction, list) and all(isinstance(r, int) for r in reaction):\n            kept = []\n            for idx, r in enumerate(self.reaction_list):\n                if idx not in reaction:\n"
            "                    continue\n                kept.append(r)\n            self.reaction_list = kept\n", "rules": ["R4"]},
    {"name": "removal-procedure-helper-by-value", "edits": [
        {"file": NF, "old": _RM, "new": "        elif isinstance(reaction, list) and all(isinstance(r, int) for r in reaction):\n            self._drop_positions(reaction)\n"},
        {"file": NF, "old": _FDR, "new": "    def _drop_positions(self, positions):\n        self.reaction_list = [r for r in self.reaction_list if r not in positions]\n\n" + _FDR}], "rules": ["R4"]},
    {"name": "removal-slice-assignment-idx-in", "file": NF, "old": _RM,
     "new": "        elif isinstance(reaction, list) and all(isinstance(r, int) for r in reaction):\n            self.reaction_list[:] = [r for idx, r in enumerate(self.reaction_list) if idx in reaction]\n", "rules": ["R4"]},
]
