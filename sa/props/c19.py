"""C19 -- Solve integrates exactly the requested interval or reports failure (flag discipline + ladder premises)."""
from __future__ import annotations

import re

from .. import calg, cstmt, jmodel as J
from ..cskel import Skel, OPEN, CLOSE

EXPLANATION = (
    "On the C++ of cvode/src/naunet.cpp.j2 specialised per method and the two odeint files (statement parser, no compilation; calls of helpers "
    "defined in the same file are replaced by their bodies under C++ parameter passing -- a by-value parameter the helper writes is a copy, reference / "
    "pointer parameters are the caller's variable, early returns become the other arm of their guard --, named numeric constants of the file and its "
    "headers and CVODE's flag names are their numbers, parameters are taken by position from the function header, guard clauses count as guards): "
    "R1 every status returned by a CVode* call in Solve / HandleError / Init / Reset (and in any other function of the file that stores one) is read "
    "(CheckFlag, HandleError argument, comparison) before it is overwritten or the function returns, and a NAUNET_FAIL reported by an inlined helper is "
    "looked at by its caller; R2 in HandleError every exit that can return NAUNET_SUCCESS is unreachable for a sample of negative flags under the guards that still "
    "hold there (conditions evaluated, not matched; a test on a flag written since does not count), the function falls through to NAUNET_FAIL; Solve hands "
    "HandleError the flag, the state, the interval and the time CVode reached, returns its result and logs the initial state iff it is NAUNET_FAIL; "
    "R3 ladder premises by symbolic execution of the start of a level for each sampled flag: -1..-4 and -6 reach CVodeReInit(cv_mem_, 0, cv_y_), every other "
    "negative flag returns NAUNET_FAIL; with G = the target of the last sub-step as a function of the state at the re-initialisation (loop variable at its "
    "last value), a recoverable flag leaves G = G(level start) - (time reached) and the state reached, the reset flag leaves G = G(function entry) and "
    "ab_init_, G(function entry) is the requested interval, and CVode reports progress into the time-reached parameter (not into a copy of it); "
    "the comparisons are made for every level with the loop variable at its value; levels (the loop variable, or the number derived from it that the "
    "targets use) are 1..5; "
    "R4 odeint: the observer throws exactly when counter > budget (truth table), counts unconditionally and before testing, the thrown type is the type "
    "Solve catches, Solve returns NAUNET_SUCCESS when the try block completes and NAUNET_FAIL through every handler (entered from each statement of the try block that can throw), integrate_adaptive runs over [0, dt] on the "
    "vector that is copied back, with an observer built per call from mxsteps_; R5 every caller of Solve inside the templates throws exactly when its result is "
    "NAUNET_FAIL (cvode and odeint Python wrappers agree); R6 (premise of R3) cv_y_ has no storage of its own and is pointed at the caller's array before "
    "CVodeInit, so the state HandleError writes is the state CVodeReInit restarts from; every other CVode call HandleError makes before / between the levels "
    "(its own or an inlined helper's, default arguments filled in, local lambdas inlined) reports the time reached into HandleError's own time variable whenever "
    "a level can start afterwards (R3); R7 odeint: the member Solve builds the observer from is assigned from the budget parameter of Init / Reset on every path "
    "on which they report success (no success exit before the assignment unless its guard says the member already equals the parameter).")
ASSUMPTIONS = [
    "CVODE's / Boost.Odeint's own behaviour, floating-point exactness of pow(10, log10(dt)) and the scheduling of failures are not decided",
    "DESIGN.md Appendix D gives the invariant whose premises R2/R3 are",
    "the C++ cannot be compiled in this sandbox (no SUNDIALS/Boost/CUDA); the statement parser covers the statement kinds these functions use",
]
ENGINES = ["jmodel", "cskel", "cstmt", "calg"]

CV = "naunet/templates/cvode/src/naunet.cpp.j2"
OD = "naunet/templates/odeint/src/naunet.cpp.j2"
ODE = "naunet/templates/odeint/src/naunet_ode.cpp.j2"


def _ctext(sk, s):
    """C text of a piece of the skeleton: a `{% set %}` emits nothing, a `{{ .. }}` is one opaque token."""
    s = re.sub(f"{OPEN}(\\d+){CLOSE}", lambda m: " " if sk.marks[int(m.group(1))][0] in ("set", "setblock") else " __HOLE__ ", s)
    return sk.plain(s)


class _Func:
    """one driver function: parameter names (by position, from its header), statement tree with the bare calls of void
    helper functions of the same file replaced by their bodies, and the definitions / positions of its locals"""

    def __init__(self, sk, f, body):
        self.header = f.header
        self.params = cstmt.params_of(f.header)
        self.body = body
        self.fn = cstmt.Fn(body)
        self.fn.params = self.params


# the functions the property is about: a call of one of them is an anchor of a rule, never an extracted piece of another function
SUBJECTS = {"Solve", "HandleError", "CheckFlag", "PyWrapSolve", "Init", "Reset", "Finalize"}


_THIS = re.compile(r"\bthis\s*->\s*|\bstd\s*::\s*(?=(?:pow|log10|log|exp|sqrt|fabs|abs|min|max|fmin|fmax|memcpy|memmove|copy|copy_n)\s*\()")
# `this->x` is `x` (no local of these functions shadows a member); `std::pow` is `pow`


def _helpers(sk, but):
    """functions of the file (free or member) whose calls are replaced by their bodies, by unqualified name: (parameters as
    (name, by-value / reference / pointer, type), parsed body).  Constructors, destructors, operators and the functions the
    property is about stay calls."""
    cache = sk.__dict__.setdefault("_c19_helpers", {})
    for f in sk.funcs:
        if f.name in cache or f.name == "?":
            continue
        parts = f.name.split("::")
        short = parts[-1]
        cache[f.name] = None
        if short in SUBJECTS or short.startswith(("~", "operator")) or (len(parts) > 1 and parts[-2] == short) \
                or not re.search(r"[\w>*&]\s+[\w:]*\b" + re.escape(short) + r"\s*\($", f.header[:f.header.find("(") + 1].replace("\n", " ")):
            continue
        params = cstmt.param_decls(f.header)
        if params is None:
            continue
        # default arguments: written at the definition, or (members) at the declaration in the class header
        dflt = cstmt.param_defaults(f.header) or [None] * len(params)
        m = re.search(r"\b" + re.escape(short) + r"\s*\(((?:[^()]|\([^()]*\))*)\)\s*(?:const\s*)?;", sk.__dict__.get("_c19_header", ""))
        if m and len(dflt) == len(params):
            decl = cstmt.param_defaults("void " + short + "(" + m.group(1) + ")")
            if decl is not None and len(decl) == len(params):
                dflt = [a if a is not None else b for a, b in zip(dflt, decl)]
        try:
            cache[f.name] = (short, params, cstmt.parse_body(_THIS.sub("", cstmt.expand_macros(_ctext(sk, f.body), sk.__dict__.get("_c19_macros", {})))), dflt)
        except cstmt.CStmtError:
            pass
    return {v[0]: (v[1], v[2], v[3]) for k, v in cache.items() if v and k != but}


_CAPTURE_OK = re.compile(r"(&|this|\*this|&[A-Za-z_]\w*)$")


def _local_lambdas(body):
    """`auto name = [&](T a, U *b) { .. };` -- a local helper: calls of it are replaced by its body like those of a function of the
    file.  What the body names is the enclosing function's variable when the capture is by reference (`[&]`, `[&x]`, `[this]`) or
    there is nothing to capture (`[]`); a lambda that works on by-value copies of locals, is `mutable`, or is bound more than once
    stays a call nobody looks into.  -> (body without the definitions, {name: (parameters, parsed body)})"""
    found = {}
    count = {}
    for st, _ in cstmt.walk(body):
        if st[0] == "expr":
            for nm, op, rhs, decl in cstmt.assignments(st[1]):
                count[nm] = count.get(nm, 0) + 1

    def lam(st):
        if st[0] != "expr" or "=" not in st[1]:
            return None
        t = st[1]
        i = t.index("=")
        if i < 2 or not cstmt.IDENT.match(t[i - 1]) or "auto" not in t[:i - 1] or not all(x in ("const", "auto", "static") for x in t[:i - 1]) or t[i + 1:i + 2] != ["["]:
            return None
        name = t[i - 1]
        try:
            j = t.index("]", i + 1)
            caps = cstmt._top_split(t[i + 2:j], (",",)) if j > i + 2 else []
            if not all(_CAPTURE_OK.match("".join(c)) for c in caps) or t[j + 1] != "(":
                return None
            d, k = 0, j + 1
            while True:
                d += t[k] == "("
                d -= t[k] == ")"
                if d == 0:
                    break
                k += 1
            params = cstmt.param_decls("void f(" + " ".join(t[j + 2:k]) + ")")
            rest = t[k + 1:]
            if rest[:1] == ["->"]:
                rest = rest[rest.index("{"):]
            if params is None or rest[:1] != ["{"] or rest[-1] != "}" or count.get(name) != 1:
                return None
            return name, (params, cstmt.parse_body(" ".join(rest)), cstmt.param_defaults("void f(" + " ".join(t[j + 2:k]) + ")"))
        except (ValueError, IndexError, cstmt.CStmtError):
            return None

    def strip(st):
        k = st[0]
        if k == "block":
            out = []
            for s in st[1]:
                r = lam(s)
                if r is not None and r[0] not in found:
                    found[r[0]] = r[1]
                else:
                    out.append(strip(s))
            return ("block", out)
        if k == "if":
            return ("if", st[1], strip(st[2]), None if st[3] is None else strip(st[3]))
        if k == "for":
            return ("for", st[1], st[2], st[3], strip(st[4]))
        if k in ("while", "dowhile"):
            return (k, st[1], strip(st[2]))
        if k == "try":
            return ("try", strip(st[1]), [(d, strip(b)) for d, b in st[2]])
        return st
    out = strip(body)
    return (out, found) if found else (body, {})


def _named_constants(ctx, sk, rel):
    """{name: tokens of its number} for the numeric constants visible in the file: its own file scope, the class header and the
    macro headers of the back-end (`static const int kLevels = 5;`, `#define NAUNET_MAX_LEVEL 5`).  A constant named
    instead of written out is the same number; the names this module gives a meaning itself stay names."""
    outside, last = [], 0
    for f in sk.funcs:
        outside.append(sk.clean[last:f.start])
        last = f.end
    outside.append(sk.clean[last:])
    texts = []
    inc = rel.rsplit("/src/", 1)[0] + "/include/"
    for h in ("naunet/templates/base/cpp/include/naunet_macros.h.j2", inc + "naunet_macros.h.j2", inc + "naunet_constants.h.j2", inc + "naunet.h.j2"):
        if ctx.tree.exists(h):
            texts.append(ctx.tree.read(h))
    texts.append(_ctext(sk, ";".join(outside)))
    vals = {}
    for t in texts:
        vals.update(cstmt.const_defs(t, vals))
    return {k: cstmt.const_tokens(v) for k, v in vals.items() if k not in CONSTS and k != "NEQUATIONS"}


def _func(ctx, rel, cfg, fname):
    sk = Skel(J.flatten(ctx.tree, rel, cfg))
    fs = sk.func(fname)
    if not fs:
        return None
    if "_c19_macros" not in sk.__dict__:
        sk._c19_macros = cstmt.macro_defs(_ctext(sk, sk.clean))
        sk._c19_consts = _named_constants(ctx, sk, rel)
        hdr = rel.rsplit("/src/", 1)[0] + "/include/naunet.h.j2"
        sk._c19_header = re.sub(r"/\*.*?\*/|//[^\n]*", " ", ctx.tree.read(hdr), flags=re.S) if ctx.tree.exists(hdr) else ""
    text = _THIS.sub("", cstmt.expand_macros(_ctext(sk, fs[0].body), sk._c19_macros))
    try:
        body, lambdas = _local_lambdas(cstmt.parse_body(text))
        body = cstmt.inline_calls(body, {**_helpers(sk, fname), **lambdas})
        if sk._c19_consts:
            shadow = cstmt.declared_locals(body) | set(cstmt.params_of(fs[0].header) or ())
            body = cstmt._subst_stmt(body, {k: v for k, v in sk._c19_consts.items() if k not in shadow})
    except cstmt.CStmtError as ex:
        ctx.unrec("R1", f"{rel.split('/')[-1]}:{fname}", (rel, 0), f"statement parser: {ex}")
        return None
    fn = _Func(sk, fs[0], body)
    fn.text = text
    fn.sk = sk
    return fn


class Ctx_probe:
    """a context that swallows the `unrecognised` of a function nobody has to understand (not one of the drivers)"""

    def __init__(self, ctx):
        self.tree = ctx.tree

    def unrec(self, *a, **k):
        pass


def _body(ctx, rel, cfg, fname):
    fn = _func(ctx, rel, cfg, fname)
    return (None, None) if fn is None else (fn.body, fn.text)


def check(ctx):
    ctx.saw(CV), ctx.saw(OD), ctx.saw(ODE)
    _r1(ctx)
    _r2_r3(ctx)
    _r4(ctx)
    _r5(ctx)
    _r6(ctx)
    _r7_budget(ctx)


def _flat_text(ctx, sk, f, cfg, fname):
    """the statements of a function as one text, in order, with the calls of the file's own helpers replaced by their bodies
    (set-up moved into a private member is still the set-up of this function); the plain text when the body does not parse"""
    fn = _func(ctx, CV, cfg, fname)
    if fn is None:
        return sk.plain(f.body)
    parts = []
    for st, _ in cstmt.walk(fn.body):
        for pt in st[1:]:
            if isinstance(pt, list) and (not pt or isinstance(pt[0], str)):
                parts.append(" ".join(pt))
    return " ; ".join(parts) + " ;"


def _r6(ctx):
    """The ladder of HandleError restores / keeps the state by writing the caller's array `ab` and then CVodeReInit(.., cv_y_).
    That reaches the integrator only because cv_y_ has no storage of its own and is pointed at `ab` before CVodeInit: the
    aliasing is a premise of R3 (dense and sparse; the cusparse branch is the listed finding)."""
    for mth in ("dense", "sparse"):
        cfg = {"general.method": mth}
        sk = Skel(J.flatten(ctx.tree, CV, cfg))
        fs = sk.func("Naunet::Solve")
        if not fs:
            ctx.missing("R6", f"cvode/{mth}:Solve", (CV, 0), "Naunet::Solve not found")
            continue
        body = _flat_text(ctx, sk, fs[0], cfg, "Naunet::Solve")
        ps = cstmt.params_of(fs[0].header)
        ab = re.escape(ps[0]) if ps else "ab"
        alias = [m.start() for m in re.finditer(r"\bN_VSetArrayPointer\s*\(\s*" + ab + r"\s*,\s*cv_y_\s*\)|\bNV_DATA_S\s*\(\s*cv_y_\s*\)\s*=\s*" + ab + r"\s*;"
                                                 r"|\bcv_y_\s*=\s*N_VMake_Serial\s*\([^;]*,\s*" + ab + r"\s*[,)]", body)]
        init = [m.start() for m in re.finditer(r"\bCVodeInit\s*\(\s*cv_mem_\s*,\s*\w+\s*,\s*[\w.]+\s*,\s*cv_y_\s*\)", body)]
        copied = re.search(r"N_VGetArrayPointer\w*\s*\(\s*cv_y_\s*\)|NV_DATA_S\s*\(\s*cv_y_\s*\)\s*\[|NV_Ith_S\s*\(\s*cv_y_", body)
        ok = bool(alias) and len(init) == 1 and min(alias) < init[0]
        key = f"cvode/{mth}:Solve:cv_y_ wraps ab"
        if ok:
            ctx.ok("R6", key, (CV, 0), f"N_VSetArrayPointer({ps[0] if ps else 'ab'}, cv_y_) precedes CVodeInit(cv_mem_, Fex, t0, cv_y_): what HandleError writes into the caller's array is the integrator's state")
        elif copied or (alias and len(init) == 1):
            # positive evidence: the vector's own data is written element-wise, or the integrator is initialised before the aliasing
            ctx.bad("R6", key, (CV, 0),
                    "cv_y_ is not pointed at the caller's array before CVodeInit: HandleError resets `ab` (flag -6: back to ab_init_) but CVodeReInit restarts from cv_y_'s own copy -- "
                    "the interval is integrated from the partially advanced state and Solve reports success",
                    expected="N_VSetArrayPointer(ab, cv_y_); ... CVodeInit(cv_mem_, Fex, t0, cv_y_)", found=f"{len(alias)} aliasing call(s), {len(init)} CVodeInit on cv_y_" + ("; the data of cv_y_ is accessed element-wise" if copied else ""))
        else:
            ctx.unrec("R6", key, (CV, 0), f"how cv_y_ gets its data in Solve is not understood ({len(alias)} aliasing call(s), {len(init)} CVodeInit on cv_y_)")
        for fname in ("Naunet::Init", "Naunet::Reset"):
            f2 = sk.func(fname)
            if not f2:
                continue
            b2 = _flat_text(ctx, sk, f2[0], cfg, fname)
            mk = re.findall(r"cv_y_\s*=\s*(\w+)\s*\(", b2)
            key = f"cvode/{mth}:{fname.split('::')[1]}:cv_y_ has no storage of its own"
            if mk and set(mk) <= {"N_VNewEmpty_Serial", "N_VNewEmpty"}:
                ctx.ok("R6", key, (CV, 0), "cv_y_ is an empty vector (data pointer set per Solve call)")
            elif set(mk) & {"N_VNew_Serial", "N_VClone", "N_VNew"}:
                ctx.bad("R6", key, (CV, 0), "cv_y_ is created with storage of its own: the state HandleError writes into the caller's array is not the integrator's", expected="cv_y_ = N_VNewEmpty_Serial(..)", found=str(mk))
            else:
                ctx.unrec("R6", key, (CV, 0), f"how cv_y_ is created is not understood: {mk}")


DRIVERS = ("Naunet::Solve", "Naunet::HandleError", "Naunet::Init", "Naunet::Reset")


def _r1(ctx):
    n = 0
    for mth in ("dense", "sparse", "cusparse"):
        # the drivers, and any other function of the file that stores the status of a CVode* call (a step of a driver moved into a
        # private member that is not inlined because it returns from inside a loop keeps its own discipline)
        sk = Skel(J.flatten(ctx.tree, CV, {"general.method": mth}))
        others = [f.name for f in sk.funcs if f.name not in DRIVERS and f.name != "?" and re.search(r"=\s*CVode(?!Create|Free)\w*\s*\(", sk.plain(f.body))]
        for fname in DRIVERS + tuple(dict.fromkeys(others)):
            if fname in others:
                probe = Ctx_probe(ctx)
                body, _ = _body(probe, CV, {"general.method": mth}, fname)
                if body is None:
                    continue
                n -= 1
            else:
                body, _ = _body(ctx, CV, {"general.method": mth}, fname)
            if body is None:
                if fname in ("Naunet::Solve", "Naunet::HandleError"):
                    ctx.missing("R1", f"cvode/{mth}:{fname}", (CV, 0), "function not found")
                continue
            n += 1
            # a call that can read the status without naming it may be its test: a local closure (`auto failed = [=]..`) that was not
            # looked into, or -- for a status kept in a member -- another function of the file
            locs = cstmt.declared_locals(body)
            mine = locs | set(cstmt.params_of(sk.func(fname)[0].header) or ())
            filefns = {f.name.split("::")[-1] for f in sk.funcs if f.name != "?"} - SUBJECTS
            maybe = []
            probs = cstmt.unchecked_flags(body, lambda c: c.startswith("CVode") and not c.startswith("CVodeCreate") and not c.startswith("CVodeFree"),
                                          opaque=lambda name, var: name in locs or (name in filefns and var not in mine), unknown=maybe)
            key = f"cvode/{mth}:{fname}"
            for var, _, name in maybe:
                ctx.unrec("R1", f"{key}:{var} read by {name}", (CV, 0), f"`{name}(..)` can read the status `{var}` without naming it and could not be looked into: cannot tell whether it tests the status")
            if not probs:
                ncalls = sum(1 for s, c in cstmt.walk(body) if s[0] == "expr" and cstmt.assigned_call(s[1]) and cstmt.assigned_call(s[1])[1].startswith("CVode"))
                ctx.ok("R1", key, (CV, 0), f"every status of the {ncalls} CVode* calls is tested before it is overwritten or the function returns")
            # a private helper of the driver that reports NAUNET_FAIL (set-up moved into a member): its caller must look at the result
            for st, c in cstmt.walk(body):
                if st[0] == "expr" and "=" in st[1] and st[1].index("=") and cstmt.DROPPED in st[1][st[1].index("=") - 1] \
                        and cstmt.value(st[1][st[1].index("=") + 1:], CONSTS) == 1:
                    callee = st[1][st[1].index("=") - 1].split(cstmt.DROPPED)[0]
                    ctx.bad("R1", f"{key}:{callee}", (CV, 0), f"{callee}(..) reports NAUNET_FAIL and {fname.split('::')[-1]} calls it without looking at the result: a failed step is carried on with as if it had succeeded",
                            expected=f"if ({callee}(..) == NAUNET_FAIL) return NAUNET_FAIL;", found=f"{callee}(..);")
                    break
            for var, callee, how in probs:
                ctx.bad("R1", f"{key}:{callee}", (CV, 0),
                        f"the status `{var}` returned by {callee}(..) is {how}: a failed integration is reported as success",
                        expected=f"CheckFlag(&{var}, ..) / HandleError({var}, ..) / a comparison on every path", found=f"{var} = {callee}(..) then {how}")
    ctx.floor("R1", "driver functions", n, 9)


# the two results of this API, and the return values of CVode() as <cvode/cvode.h> names them (a flag tested by name is the same test)
CVODE_FLAGS = {"CV_SUCCESS": 0, "CV_TSTOP_RETURN": 1, "CV_ROOT_RETURN": 2, "CV_WARNING": 99, "CV_TOO_MUCH_WORK": -1, "CV_TOO_MUCH_ACC": -2,
               "CV_ERR_FAILURE": -3, "CV_CONV_FAILURE": -4, "CV_LINIT_FAIL": -5, "CV_LSETUP_FAIL": -6, "CV_LSOLVE_FAIL": -7, "CV_RHSFUNC_FAIL": -8,
               "CV_FIRST_RHSFUNC_ERR": -9, "CV_REPTD_RHSFUNC_ERR": -10, "CV_UNREC_RHSFUNC_ERR": -11, "CV_RTFUNC_FAIL": -12, "CV_MEM_FAIL": -20,
               "CV_MEM_NULL": -21, "CV_ILL_INPUT": -22, "CV_NO_MALLOC": -23, "CV_BAD_K": -24, "CV_BAD_T": -25, "CV_BAD_DKY": -26, "CV_TOO_CLOSE": -27}
CONSTS = {"NAUNET_SUCCESS": 0, "NAUNET_FAIL": 1, **CVODE_FLAGS}
REC, RESET = (-1, -2, -3, -4), (-6,)
NEG = (-1, -2, -3, -4, -5, -6, -7, -8, -9, -10, -11, -22, -99)      # sample of failure flags: CVODE's own range and beyond


def _guards(F, conds, st, keep=()):
    """the `if` guards statement `st` runs under that still hold when it runs -- a test on a variable that is written between
    the test and `st` (or anywhere in a loop around `st` that the test is outside of) says nothing any more -- with
    once-defined locals (`bool ok = flag >= 0;`) replaced by their definitions"""
    out = []
    sp = F.pos.get(id(st), 0)
    loops = [g[3] for g in conds if g[0] in ("for", "while")]
    for g in conds:
        if g[0] != "if":
            out.append(g)
            continue
        gp = F.pos.get(id(g[3]), 0)
        toks = _checkflag(F.expand(g[1], gp, keep=keep))
        # `++n > m` tests the incremented n; `n++ >= m` tests the value before, (n - 1) in terms of the incremented one
        toks = list(toks)
        for j in range(len(toks) - 1, 0, -1):
            if toks[j] == "++" and cstmt.IDENT.match(toks[j - 1]) and not (j > 1 and toks[j - 2] in (".", "->")):
                toks[j - 1:j + 1] = ["(", toks[j - 1], "-", "1", ")"]
        toks = tuple(t for j, t in enumerate(toks) if not (t == "++" and j + 1 < len(toks) and cstmt.IDENT.match(toks[j + 1])
                                                            and not (j and (cstmt.IDENT.match(toks[j - 1]) or toks[j - 1] in (")", "]")))))
        names = {t for t in toks if cstmt.IDENT.match(t)}
        # a guard clause (`if (c) { ..; return; }` before `st`): what its leaving arm writes is never seen by `st`
        inside = {id(x) for x, _ in cstmt.walk(g[3])}
        own = set() if id(st) in inside else {F.pos[i] for i in inside if i in F.pos}
        stale = any(gp < i < sp and i not in own for nm in names for i, op, rhs, decl in F.defs.get(nm, ())) \
            or any(F.pos.get(id(lp), 0) > gp and cstmt.written(lp) & names for lp in loops)
        if not stale:
            out.append((g[0], toks, g[2], g[3]))
    return out


def _checkflag(toks):
    """`CheckFlag(&x, name, 1, file)` (this file's own helper) is NAUNET_FAIL exactly when x < 0"""
    toks = list(toks)
    out = []
    i = 0
    while i < len(toks):
        if toks[i] == "CheckFlag" and toks[i + 1:i + 3] == ["(", "&"] and i + 3 < len(toks) and cstmt.IDENT.match(toks[i + 3]):
            d, j = 0, i + 1
            while j < len(toks):
                d += toks[j] == "("
                d -= toks[j] == ")"
                if d == 0:
                    break
                j += 1
            args = cstmt._top_split(toks[i + 2:j], (",",))
            if len(args) == 4 and args[0] == ["&", toks[i + 3]] and args[2] == ["1"]:
                out += ["(", "(", toks[i + 3], "<", "0", ")", "?", "NAUNET_FAIL", ":", "NAUNET_SUCCESS", ")"]
                i = j + 1
                continue
        out.append(toks[i])
        i += 1
    return out


def _relevant(F, g, names):
    """can the guard say anything about `names`?  When it mentions one of them or a local computed in this function -- or a name
    this function does not define at all and that is not a parameter / named constant (a member another function may have set
    from the flag: nothing is known about it)."""
    known = set(getattr(F, "params", None) or ()) | set(CONSTS) | {"NEQUATIONS", "errfp_", "true", "false", "NULL", "nullptr"}
    return any(t in names or t in F.defs or (t not in known and not t.isupper()) for j, t in enumerate(g[1])
               if cstmt.IDENT.match(t) and not (j + 1 < len(g[1]) and g[1][j + 1] == "(") and t not in cstmt.CAST_TYPES)


def _bare(tokens) -> str:
    """an expression without the parentheses that enclose all of it"""
    toks = list(tokens)
    while len(toks) >= 2 and toks[0] == "(" and toks[-1] == ")" and cstmt.sole_call(["f"] + toks):
        toks = toks[1:-1]
    return cstmt.norm(toks)


def _is_call(st, callee):
    if st[0] != "expr":
        return None
    ac = cstmt.assigned_call(st[1])
    return ac if ac and ac[1] == callee else None


def _latched(F, x, st, FLAG):
    """`bool done = false; for (..) { .. if (c) { done = true; break; } } if (done) return ..;` -- a test on a local that is only
    ever set to constants holds exactly when the one assignment of a true value ran last: the guards of that assignment stand
    in for the test, provided control leaves the loops around the assignment right after it and the flag is not written
    between there and `st`.  -> the guards, or None when `x` is not such a test"""
    toks = [t for t in x[1] if t not in ("(", ")")]
    if len(toks) != 1 or not x[2] or not cstmt.IDENT.match(toks[0]):
        return None
    ds = F.defs.get(toks[0], ())
    if len(ds) < 2 or any(op != "=" or rhs is None or cstmt.value(rhs, CONSTS) is None for i, op, rhs, decl in ds):
        return None
    true_sites = [i for i, op, rhs, decl in ds if cstmt.value(rhs, CONSTS)]
    sp = F.pos[id(st)]
    if len(true_sites) != 1 or true_sites[0] >= sp or F.written_between({FLAG}, true_sites[0], sp):
        return None
    site, conds = F.seq[true_sites[0]]
    around = [g[3] for g in conds if g[0] in ("for", "while")]
    if any(id(st) in {id(y) for y, _ in cstmt.walk(lp)} for lp in around) or len(around) > 1:
        return None
    if around:
        nxt = [blk[1][j + 1] for blk, _ in cstmt.walk(around[0]) if blk[0] == "block" for j, y in enumerate(blk[1][:-1]) if y is site]
        if not nxt or nxt[0][0] != "break":
            return None
    return [y for y in _guards(F, conds, site, keep=(FLAG,)) if y[0] == "if"]


def _r2_handle_error(ctx, label, F, FLAG):
    rets = [(s, c) for s, c in F.seq if s[0] == "return"]
    nsucc = 0
    odd = []
    for s, c in rets:
        g = _guards(F, c, s, keep=(FLAG,))
        ifs = [y for x in g if x[0] == "if" for y in (_latched(F, x, s, FLAG) or [x])]
        # is this an exit that can report success at all?
        v0 = cstmt.value(s[1], {FLAG: 0, **CONSTS})
        if v0 is None or v0 not in (0, 1):
            odd.append(cstmt.txt(s[1]))
            continue
        if v0 != 0:
            continue
        nsucc += 1
        key = f"{label}:HandleError:success#{nsucc} guarded"
        bad_for, undecided = [], []
        for v in NEG:
            env = {FLAG: v, **CONSTS}
            if cstmt.value(s[1], env) == 1:
                continue
            reach = cstmt.guards_truth(ifs, env)
            if reach is None:
                # guards that cannot depend on the flag do not protect the exit
                rel = [x for x in ifs if cstmt.truth(x[1], env) is not None or _relevant(F, x, {FLAG})]
                reach = cstmt.guards_truth(rel, env)
            if reach is True:
                bad_for.append(v)
            elif reach is None:
                undecided.append(v)
        shown = str([("" if x[2] else "!") + "(" + cstmt.norm(x[1]) + ")" for x in ifs])
        if bad_for:
            ctx.bad("R2", key, (CV, 0), f"a `return NAUNET_SUCCESS` is reachable without the test `{FLAG} >= 0` on the last integrator flag (e.g. with {FLAG} = {bad_for[0]})",
                    expected=f"if ({FLAG} >= 0) {{ .. return NAUNET_SUCCESS; }}", found=shown)
        elif undecided:
            ctx.unrec("R2", key, (CV, 0), f"cannot decide whether the guards {shown} exclude a negative {FLAG}")
        else:
            ctx.ok("R2", key, (CV, 0), f"success is returned only under `{FLAG} >= 0`")
            # the tested flag is the returned-on flag: no write to it between the test and the return
            rp = F.pos[id(s)]
            est = [x for x in ifs if all(cstmt.truth(x[1], {FLAG: v, **CONSTS}) is (not x[2]) for v in NEG)]
            def since(x):
                """is the flag written between the test `x` and the return?  (not counting the leaving arm of a guard clause)"""
                inside = {id(y) for y, _ in cstmt.walk(x[3])}
                own = set() if id(s) in inside else {F.pos[i] for i in inside if i in F.pos}
                return any(F.pos.get(id(x[3]), 0) < i < rp and i not in own for i, op, rhs, decl in F.defs.get(FLAG, ()))
            unchanged = any(not since(x) for x in est) if est else not any(since(x) for x in ifs)
            ctx.check(unchanged, "R2", f"{label}:HandleError:flag unchanged before success#{nsucc}", (CV, 0), "the tested flag is the one returned on",
                      found=f"{FLAG} is written between its test and the return")
    if odd:
        ctx.unrec("R2", f"{label}:HandleError:return values", (CV, 0), f"exit value(s) {odd} are neither NAUNET_SUCCESS nor NAUNET_FAIL nor decided by the flag")
    else:
        ctx.ok("R2", f"{label}:HandleError:return values", (CV, 0), "every exit returns NAUNET_SUCCESS or NAUNET_FAIL")
    if nsucc >= 2:
        ctx.ok("R2", f"{label}:HandleError:success exits", (CV, 0), "success exits: at entry (nothing to repair) and after a completed level")
    else:
        ctx.unrec("R2", f"{label}:HandleError:success exits", (CV, 0), f"expected a success exit at entry and one after a completed level, found {nsucc}")
    # ---- the exit taken when the ladder runs out of levels: the function executed with the ladder loop stepped over (what the loop
    # writes is unknown afterwards, the flag is still a failure)
    key = f"{label}:HandleError:falls through to failure"
    ladder = [s for s, c in F.seq if s[0] in ("for", "while", "dowhile") and any(_is_call(x, "CVodeReInit") for x, _ in cstmt.walk(s))]
    if not ladder:
        last = F.body[1][-1] if F.body[0] == "block" and F.body[1] else ("?",)
        val = cstmt.value(last[1], CONSTS) if last[0] == "return" else None
        if val in (0, 1):
            ctx.check(val == 1, "R2", key, (CV, 0), "when all levels are exhausted the function returns NAUNET_FAIL", found=cstmt.txt(last[1]))
        else:
            ctx.unrec("R2", key, (CV, 0), f"the function does not end in a plain `return NAUNET_FAIL` / `return NAUNET_SUCCESS` ({last[0]}): the last exit is not understood")
        return
    ends = {}
    try:
        for v in NEG:
            def over(st, sy):
                if st is not ladder[0]:
                    return False
                for nm in cstmt.written(st) - {FLAG}:
                    if nm in sy.a:
                        sy.a[nm] = sy.opaque(nm)
                    else:
                        sy.s[nm] = sy.opaque(nm)
                        sy.c.pop(nm, None)
                return True
            sy = cstmt.Sym(concrete={**CONSTS, FLAG: v}, skip=over)
            r = sy.run(F.body)
            ends[v] = cstmt.value(r[1], sy._env()) if r and r[0] == "return" else ("falls off the end" if r is None else r[0])
    except cstmt.Unknown as ex:
        ctx.unrec("R2", key, (CV, 0), f"the way out of the exhausted ladder is not understood: {ex}")
        return
    wrong = {v: e for v, e in ends.items() if e != 1}
    if not wrong:
        ctx.ok("R2", key, (CV, 0), "when all levels are exhausted the function returns NAUNET_FAIL")
    elif any(e == 0 for e in wrong.values()):
        ctx.bad("R2", key, (CV, 0), "when all levels are exhausted the function returns NAUNET_FAIL", expected="return NAUNET_FAIL after the last level",
                found=f"NAUNET_SUCCESS with the last flag = {[v for v, e in wrong.items() if e == 0][0]}")
    else:
        ctx.unrec("R2", key, (CV, 0), f"cannot follow what the function returns after the last level: {sorted(set(map(str, wrong.values())))}")


def _loop_var(loop, flag=None):
    """(variable, expression text of its value at the head of the last iteration) of `for (..; v < E; v++)` / `.. while (v <= E) { ..; v++; }`.
    A further conjunct of the condition that only says "the last status is not a failure" (`flag >= 0 && v < E`: the `break` on a
    failed call, written into the loop condition) does not shorten a run in which every call succeeds."""
    cond = loop[2] if loop[0] == "for" else loop[1]
    conj = cstmt._top_split(list(cond), ("&&",))
    if flag and len(conj) > 1:
        rest = [cj for cj in conj if not all(cstmt.truth(cj, {**CONSTS, flag: v}) is True for v in (0, 1, 2, 99))]
        if len(rest) == 1:
            cond = rest[0]
            while len(cond) >= 2 and cond[0] == "(" and cond[-1] == ")" and cstmt.sole_call(["f"] + list(cond)):
                cond = cond[1:-1]
    incs = cstmt.assignments(loop[3]) if loop[0] == "for" else []
    if loop[0] == "while":
        body = loop[2][1] if loop[2][0] == "block" else [loop[2]]
        for b in body:
            if b[0] == "expr":
                incs += [a for a in cstmt.assignments(b[1]) if a[0] in cond]
    unit = [nm for nm, op, rhs, decl in incs if op == "++" or (op == "+=" and cstmt.norm(rhs) == "1") or (op == "=" and cstmt.norm(rhs) in (f"{nm}+1", f"1+{nm}"))]
    if len(unit) != 1 or len(incs) != 1:
        return None
    v = unit[0]
    for op, flip in (("<", False), ("<=", False), (">", True), (">=", True), ("!=", False)):
        parts = cstmt._top_split(cond, (op,))
        if len(parts) == 2:
            lhs, rhs = (parts[1], parts[0]) if flip else (parts[0], parts[1])
            if lhs == [v] and v not in rhs:
                bound = " ".join(rhs)
                return v, (f"({bound}) - 1" if op in ("<", ">", "!=") else f"({bound})")
    return None


def _numerically_different(a: str, b: str):
    """Second opinion for a `not the same value` of the canonical algebra (which is incomplete: two spellings of one function can have
    different canonical forms): the two C expressions evaluated at random positive values of their symbols.  True -- they differ at
    a point (positive evidence); False -- they agree at every point tried; None -- cannot be evaluated."""
    import math
    import random
    try:
        ea, eb = calg.parse(a), calg.parse(b)
    except calg.CParseError:
        return None
    names = sorted(set(calg.idents(ea)) | set(calg.idents(eb)))
    FN = {"pow": math.pow, "log10": math.log10, "log": math.log, "exp": math.exp, "sqrt": math.sqrt, "fabs": abs, "abs": abs, "fmin": min, "fmax": max, "min": min, "max": max}

    def ev(e, env):
        k = e[0]
        if k == "num":
            return e[1]
        if k == "id":
            return env[e[1]]
        if k == "neg":
            return -ev(e[1], env)
        if k == "bin" and e[1] in ("+", "-", "*", "/"):
            x, y = ev(e[2], env), ev(e[3], env)
            return x + y if e[1] == "+" else x - y if e[1] == "-" else x * y if e[1] == "*" else x / y
        if k == "call" and e[1] in FN:
            return FN[e[1]](*[ev(x, env) for x in e[2]])
        raise KeyError(k)
    rnd = random.Random(19)
    good = 0
    for _ in range(60):
        env = {n: rnd.uniform(0.05, 3.0) for n in names if n not in FN}
        try:
            x, y = ev(ea, env), ev(eb, env)
        except (ValueError, ZeroDivisionError, OverflowError):
            continue
        except (KeyError, TypeError):
            return None
        if isinstance(x, complex) or isinstance(y, complex):
            continue
        good += 1
        if abs(x - y) > 1e-9 * max(1.0, abs(x), abs(y)):
            return True
        if good >= 8:
            return False
    return None


def _r3_ladder(ctx, label, F, FLAG, AB, DT, T0):
    body = F.body
    where = (CV, 0)

    def reinit(st):
        return _is_call(st, "CVodeReInit")
    loops = [s for s, c in F.seq if s[0] in ("for", "while", "dowhile") and any(reinit(x) for x, _ in cstmt.walk(s))]
    if not loops:
        ctx.unrec("R3", f"{label}:level loop", where, "no loop around a CVodeReInit call: the recovery ladder is not in a shape this rule understands")
        return
    loop = loops[0]
    ctx.ok("R3", f"{label}:level loop", where, "one recovery ladder: the loop that re-initialises the integrator")
    # ---- the levels
    levels = None
    lpos = F.pos[id(loop)]
    shown = "; ".join(cstmt.txt(x) for x in loop[1:4]) if loop[0] == "for" else "while (" + cstmt.txt(loop[1]) + ")"
    lv = _loop_var(loop) if loop[0] in ("for", "while") else None
    if lv and loop[0] == "while":
        # the increment is a statement of the body: a `continue` of this loop would skip it
        for s, c in cstmt.walk(loop):
            inner = [g for g in c if g[0] in ("for", "while")]
            if s[0] == "continue" and inner and inner[-1][3] is loop:
                lv = None
    if lv:
        # the first value: the for-header, or (while) the one assignment before the loop; named bounds (`const int last = 5;`)
        # are replaced by their definitions
        if loop[0] == "for":
            init = [(lpos, a[2]) for a in cstmt.assignments(loop[1]) if a[0] == lv[0] and a[1] == "="]
        else:
            init = [(i, rhs) for i, op, rhs, decl in F.defs.get(lv[0], ()) if i < lpos and op == "="][-1:]
            init = [x for x in init if not F.written_between({lv[0]}, x[0], lpos)]
        start = cstmt.value(F.expand(init[0][1], init[0][0]), CONSTS) if init else None
        cond = F.expand(loop[2] if loop[0] == "for" else loop[1], lpos, keep=(lv[0],))
        if isinstance(start, int) and not isinstance(start, bool):
            levels = []
            x = start
            while len(levels) < 50 and cstmt.truth(cond, {**CONSTS, lv[0]: x}):
                levels.append(x)
                x += 1
    if levels is None:
        ctx.unrec("R3", f"{label}:five levels", where, f"cannot enumerate the levels of `{shown}`")
        return
    LV = lv[0]
    if not levels:
        ctx.unrec("R3", f"{label}:five levels", where, f"the loop `{shown}` has no iteration this rule can enumerate")
        return
    lbody = loop[4] if loop[0] == "for" else loop[2]
    lstm = lbody[1] if lbody[0] == "block" else [lbody]
    at = [i for i, x in enumerate(lstm) if reinit(x)]
    if len(at) != 1:
        ctx.unrec("R3", f"{label}:re-initialisation", where, "CVodeReInit is not a statement of the level body itself")
        return
    rst = lstm[at[0]]
    rcall = reinit(rst)
    # ---- G: the target of the last sub-step, as a function of the state at the re-initialisation
    try:
        def substeps(st):
            return st[0] in ("for", "while") and any(_is_call(x, "CVode") for x, _ in cstmt.walk(st))
        post = cstmt.Sym(stop=substeps)
        r = post.run(("block", lstm[at[0] + 1:]))
        if not r or r[0] != "stop":
            raise cstmt.Unknown("no sub-step loop around a CVode call after the re-initialisation")
        sub = r[1]
        sv = _loop_var(sub, FLAG)
        if not sv:
            raise cstmt.Unknown(f"cannot tell the last iteration of the sub-step loop `{cstmt.txt(sub[2] if sub[0] == 'for' else sub[1])}`")
        post.s[sv[0]] = post.subst(cstmt.tokenize(sv[1]))
        post.stop = lambda st: bool(_is_call(st, "CVode"))
        r = post.run(sub[4] if sub[0] == "for" else sub[2])
        if not r or r[0] != "stop":
            raise cstmt.Unknown("the CVode call of the sub-step loop is not reached unconditionally")
        cv = _is_call(r[1], "CVode")
        args = [cstmt.norm(a) for a in cv[2]]
        okc = cv[0] == FLAG and len(args) == 5 and args[0] == "cv_mem_" and args[2] == "cv_y_" and args[3] == "&" + T0 and args[4] == "CV_NORMAL"
        tret = args[3][1:] if len(args) == 5 and args[3].startswith("&") and cstmt.IDENT.match(args[3][1:]) else None
        if not okc and tret and tret != T0 and cv[0] == FLAG and args[:3] + args[4:] == ["cv_mem_", args[1], "cv_y_", "CV_NORMAL"]:
            # positive evidence: the time reached goes somewhere else (another local, or the copy a helper works on when it
            # takes the time BY VALUE) and this function's own variable keeps the value it had at the re-initialisation
            kept = post.expr(T0)
            src = post.expr(tret)
            ctx.bad("R3", f"{label}:CVode call", where,
                    f"CVode reports the time reached into `{tret}`" + (f" (a copy of {T0}: the sub-step loop works on a by-value parameter)" if cstmt.same_value(src, kept) and "__byval" in tret else "")
                    + f", not into {T0}: at the next level the recoverable branch subtracts an unchanged {T0} (= {kept if kept != T0 else 'its value at the re-initialisation'}) from the time left -- "
                    "the part already integrated is integrated again from the state reached, and Solve reports success",
                    expected=f"{FLAG} = CVode(cv_mem_, tout, cv_y_, &{T0}, CV_NORMAL)", found=f"{cv[0]} = CVode({', '.join(args)})")
        elif okc:
            ctx.ok("R3", f"{label}:CVode call", where, f"{FLAG} = CVode(cv_mem_, tout, cv_y_, &{T0}, CV_NORMAL): progress is reported into {T0}")
        elif len(args) == 5 and args[0] == "cv_mem_" and args[2] == "cv_y_" and args[3] == "&" + T0 and args[4] in ("CV_ONE_STEP", "2") and cv[0] == FLAG:
            ctx.bad("R3", f"{label}:CVode call", where, "CVode is asked for ONE internal step (CV_ONE_STEP), not to integrate up to the target of the sub-step: the level ends long before the time left is covered",
                    expected=f"{FLAG} = CVode(cv_mem_, tout, cv_y_, &{T0}, CV_NORMAL)", found=f"{cv[0]} = CVode({', '.join(args)})")
        else:
            ctx.unrec("R3", f"{label}:CVode call", where, f"the CVode call of the sub-step loop is not in a shape this rule understands: {cv[0]} = CVode({', '.join(args)})")
        G = post.subst(cstmt.strip_casts(cv[2][1])) if len(cv[2]) > 1 else "?"
        Gt = cstmt.tokenize(G)
    except cstmt.Unknown as ex:
        ctx.unrec("R3", f"{label}:last sub-step reaches dt", where, str(ex))
        return
    # ---- the state each flag leaves at the re-initialisation
    W = cstmt.written(loop)
    outcome = {}
    try:
        for v in NEG:
            pre = cstmt.Sym({DT: DT + "__entry", T0: T0 + "__entry"}, {AB: AB + "__entry"}, {**CONSTS, FLAG: v}, stop=lambda st: st is loop)
            r = pre.run(body)
            if r and r[0] == "return" and cstmt.value(r[1], CONSTS) == 1:
                outcome[v] = ("fail", None)
                continue
            if not r or r[0] != "stop":
                raise cstmt.Unknown(f"with {FLAG} = {v} the ladder is not reached ({r})")
            for lvl in levels:
                # at the head of a level: what the loop writes has an unknown (named) value, everything else its value from before the loop
                arrs = {k: k + "__head" for k in W if k not in pre.s}
                arrs.update({k: (k + "__head" if k in W else e) for k, e in pre.a.items()})
                head = cstmt.Sym({k: (k + "__head" if k in W else e) for k, e in pre.s.items()}, arrs, {**CONSTS, FLAG: v, LV: lvl}, stop=lambda st: st is rst)
                if LV in head.s:            # (a `while` ladder: the level counter is a local of the function; its value in this level is known)
                    head.s[LV] = str(lvl)
                hs = head.clone()
                r = head.run(lbody)
                if r and r[0] == "return":
                    val = cstmt.value(r[1], CONSTS)
                    if val not in (0, 1):
                        raise cstmt.Unknown(f"with {FLAG} = {v} the level leaves with `{cstmt.txt(r[1])}`")
                    res = ("fail" if val == 1 else "success", None)
                elif r and r[0] == "stop":
                    res = ("reach", {**(outcome[v][1] if v in outcome and outcome[v][0] == "reach" else {}), lvl: (pre, hs, head)})
                else:
                    raise cstmt.Unknown(f"with {FLAG} = {v} the level body ends in {r} before the re-initialisation")
                if v in outcome and outcome[v][0] != res[0]:
                    raise cstmt.Unknown(f"the treatment of {FLAG} = {v} depends on the level")
                outcome[v] = res
    except cstmt.Unknown as ex:
        ctx.unrec("R3", f"{label}:ladder", where, f"the start of a level is not understood: {ex}")
        return
    reach = sorted(v for v, o in outcome.items() if o[0] == "reach")
    # ---- the level numbers: the loop variable, or the number derived from it that the sub-step targets are computed from
    # (`for (lv = 0; lv < 5; lv++) { const int level = lv + 1; ..`)
    numbering = {LV: levels}
    for v in reach[:1]:
        for k in set(Gt):
            seq = [outcome[v][1][lvl][2].c.get(k) for lvl in levels]
            if cstmt.IDENT.match(k) and k != FLAG and k not in CONSTS and all(isinstance(x, int) and not isinstance(x, bool) for x in seq):
                numbering[k] = seq
    if [1, 2, 3, 4, 5] in numbering.values():
        ctx.ok("R3", f"{label}:five levels", where, "levels 1..5")
    else:
        ctx.unrec("R3", f"{label}:five levels", where, f"the levels are numbered {levels}, not 1..5: `{shown}`")
    lost = [v for v in REC if outcome[v][0] != "reach"]
    ctx.check(not lost, "R3", f"{label}:recoverable flags", where, "flags -1..-4 are the recoverable set", expected="-1..-4 continue with the next level",
              found=f"{lost} leave the ladder; flags that continue: {reach}")
    ctx.check(outcome[-6][0] == "reach", "R3", f"{label}:reset flag", where, "flag -6 is the reset flag", expected="-6 restarts from the initial state", found=f"flags that continue: {reach}")
    others = [v for v in NEG if v not in REC + RESET and outcome[v][0] != "fail"]
    ctx.check(not others, "R3", f"{label}:other flags fail", where, "any other negative flag leaves with NAUNET_FAIL", expected="NAUNET_FAIL for every flag outside -1..-4, -6",
              found=f"{others} go on integrating")

    def G_in(state, fin):
        """G in the state `state` (function entry / level head); constants of the level that the start of the level defines
        (`nsubsteps = 10 * level`) are taken from there"""
        extra = {k: e for k, e in fin.s.items() if k not in state.s}
        for k, e in extra.items():
            if k in Gt and ("__head" in e or "__entry" in e):
                return f"{k}{cstmt.OPAQUE}"
        tmp = state.clone()
        tmp.s = {**extra, **state.s}
        if LV in tmp.s:
            tmp.s[LV] = fin.s.get(LV, LV)
        return tmp.subst(Gt)

    def at_level(e, lvl):
        """the loop variable has a value in each level: the comparison is made for that value"""
        return re.sub(r"\b" + re.escape(LV) + r"\b", str(lvl), e)

    def verdict(key, per_level, okmsg, badmsg, expected):
        """per_level: [(level, [(kind, a, b)])] -- every level must agree; the first level that does not is shown"""
        vals, found = [], ""
        for lvl, pairs in per_level:
            pairs = [(kind, at_level(a, lvl), at_level(b, lvl)) if kind == "scalar" else (kind, a, b) for kind, a, b in pairs]
            vs = [cstmt.same_value(a, b) if kind == "scalar" else (None if cstmt.OPAQUE in a + b else a == b) for kind, a, b in pairs]
            # "not the same" of the (incomplete) canonical algebra counts only when the two values differ at a point
            vs = [(x if x is not False or kind != "scalar" else {True: False, False: True, None: None}[_numerically_different(a, b)]) for x, (kind, a, b) in zip(vs, pairs)]
            if not found or (any(x is False for x in vs) and not any(x is False for x in vals)) or (any(x is not True for x in vs) and all(x is True for x in vals)):
                found = (f"level {lvl}: " + "; ".join(f"{a}  vs  {b}" for kind, a, b in pairs))[:320]
            vals += vs
        if any(x is False for x in vals):
            ctx.bad("R3", key, where, badmsg, expected=expected, found=found)
        elif any(x is None for x in vals):
            ctx.unrec("R3", key, where, f"a value could not be followed: {found}")
        else:
            ctx.ok("R3", key, where, okmsg)
    for v in REC:
        if outcome[v][0] != "reach":
            continue
        verdict(f"{label}:recoverable branch",
                [(lvl, [("scalar", fin.subst(Gt), f"({G_in(hs, fin)}) - ({hs.expr(T0)})"), ("array", fin.a.get(AB, AB), hs.a.get(AB, AB))])
                 for lvl, (pre, hs, fin) in outcome[v][1].items()],
                f"keeps the reached state and the time still to integrate ({DT} <- {DT} - {T0})",
                f"after a recoverable flag the level does not integrate (time left) - (time reached {T0}) from the state reached: the interval is over- or under-run while success is returned",
                f"{AB} as reached; {DT} - {T0} still to integrate")
        break
    if outcome[-6][0] == "reach":
        verdict(f"{label}:reset branch",
                [(lvl, [("scalar", fin.subst(Gt), G_in(pre, fin)), ("array", fin.a.get(AB, AB), "ab_init_")]) for lvl, (pre, hs, fin) in outcome[-6][1].items()],
                "restores the initial state and the full interval",
                "after the reset flag the level does not integrate the full interval from ab_init_ (a shortened / stale interval is restored, or the state is not the initial one): "
                "part of the interval is skipped while success is returned",
                "ab_init_; the whole interval as given at entry")
        verdict(f"{label}:last sub-step reaches dt", [(lvl, [("scalar", G_in(pre, fin), DT + "__entry")]) for lvl, (pre, hs, fin) in outcome[-6][1].items()],
                f"with the last step the target canonicalises to {DT} (the level integrates the whole remaining time)",
                f"the last sub-step of a level does not end at the time still to integrate", DT)
    for v in reach:
        pre, hs, fin = outcome[v][1][levels[-1]]
        args = [cstmt.norm(a) for a in rcall[2]]
        t_arg = fin.subst(cstmt.strip_casts(rcall[2][1])) if len(rcall[2]) == 3 else "?"
        z = cstmt.same_value(t_arg, "0")
        shape = len(args) == 3 and args[0] == "cv_mem_" and args[2] == "cv_y_"
        if not shape:
            ctx.unrec("R3", f"{label}:re-initialisation", where, f"CVodeReInit({', '.join(args)}) is not called on (cv_mem_, time, cv_y_): not understood")
        elif z is None:
            ctx.unrec("R3", f"{label}:re-initialisation", where, f"cannot follow the restart time `{t_arg}`")
        else:
            ctx.check(z is True, "R3", f"{label}:re-initialisation", where, f"the integrator restarts at time 0 from cv_y_ (= {AB}): CVodeReInit(cv_mem_, 0, cv_y_)", found=f"CVodeReInit({', '.join(args)}) with time = {t_arg}")
        break


def _flow_after(st, s, goal, exits):
    """Where control can go after statement `s` (somewhere inside `st`), read off the statement tree: "reached" -- it can arrive at
    `goal` (a later statement of an enclosing block, or the loop around `s`: its next iteration); "stops" -- every way on ends in
    return / throw first; "falls" -- it leaves `st` at its end; None -- `s` is not inside `st`.  The `if` statements passed on the way
    that leave the function in one arm only are collected in `exits` as (condition tokens, polarity under which control goes on)."""
    k = st[0]
    if st is s:
        return "falls"
    if k == "block":
        r = None
        for i, x in enumerate(st[1]):
            if r is None:
                r = _flow_after(x, s, goal, exits)
                if r in ("reached", "stops"):
                    return r
                continue
            # r == "falls": the statements that follow
            if x is goal:
                return "reached"
            jumps = {y[0] for y, cs in cstmt.walk(x) if y[0] in ("break", "continue") and not any(g[0] in ("for", "while") for g in cs)}
            if cstmt.always_exits(x):
                return "falls" if jumps else "stops"
            if x[0] == "if" and not jumps:
                th, el = cstmt.always_exits(x[2]), x[3] is not None and cstmt.always_exits(x[3])
                if th or el:
                    exits.append((tuple(x[1]), not th))
        return r
    if k == "if":
        for arm in (st[2], st[3]):
            if arm is not None:
                r = _flow_after(arm, s, goal, exits)
                if r is not None:
                    return r
        return None
    if k in ("for", "while", "dowhile"):
        r = _flow_after(st[4] if k == "for" else st[2], s, goal, exits)
        if r == "falls" and st is goal:
            return "reached"
        return r
    if k == "try":
        for arm in [st[1]] + [b for d, b in st[2]]:
            r = _flow_after(arm, s, goal, exits)
            if r is not None:
                return r
    return None


def _r3_time_reached(ctx, label, fn, FLAG, T0):
    """Every CVode call HandleError makes (its own or a helper's, inlined) advances the integrator: the recoverable branch of the
    ladder subtracts `t0` from the time left and continues from the state reached, so the time the LAST call reached must be in
    HandleError's own `t0` whenever a level can start afterwards.  (The call inside the sub-step loop is judged with the ladder.)"""
    F = fn.fn
    where = (CV, 0)
    ladder = [s for s, c in F.seq if s[0] in ("for", "while", "dowhile") and any(_is_call(x, "CVodeReInit") for x, _ in cstmt.walk(s))]
    if not ladder:
        return
    ladder = ladder[0]
    lpos = F.pos[id(ladder)]
    # a helper of this file that calls CVode and could not be looked into
    steppers = {f.name.split("::")[-1] for f in fn.sk.funcs if f.name != "?" and f.name.split("::")[-1] not in SUBJECTS and re.search(r"\bCVode\s*\(", fn.sk.plain(f.body))}
    for s, c in F.seq:
        for pt in ([s[1]] if s[0] in ("expr", "return", "if", "while", "dowhile") else [s[1], s[2], s[3]] if s[0] == "for" else []):
            for j, t in enumerate(pt):
                if t in steppers and pt[j + 1:j + 2] == ["("] and not (j and pt[j - 1] in (".", "->", "::")):
                    ctx.unrec("R3", f"{label}:HandleError:{t} advances the integrator", where, f"`{t}(..)` calls CVode and could not be looked into: where the time it reaches goes is not known")
                    return
    n = 0
    for s, c in F.seq:
        cv = _is_call(s, "CVode")
        if not cv:
            continue
        inner = [g[3] for g in c if g[0] in ("for", "while")]
        if ladder in inner and inner[-1] is not ladder and F.pos[id(s)] > min([F.pos[id(x)] for x, _ in cstmt.walk(ladder) if _is_call(x, "CVodeReInit")]):
            continue                    # the sub-step loop of the ladder: _r3_ladder
        n += 1
        args = [cstmt.norm(a) for a in cv[2]]
        key = f"{label}:HandleError:CVode call outside the sub-steps #{n}"
        tret = args[3][1:] if len(args) == 5 and args[3].startswith("&") and cstmt.IDENT.match(args[3][1:]) else None
        if tret is None:
            ctx.unrec("R3", key, where, f"cannot see where CVode({', '.join(args)}) reports the time reached")
            continue
        if tret == T0:
            ctx.ok("R3", key, where, f"the time reached goes into {T0}")
            continue
        exits = []
        r = _flow_after(F.body, s, ladder, exits)
        sp = F.pos[id(s)]
        end = lpos if sp < lpos else max(F.pos[id(x)] for x, _ in cstmt.walk(ladder))
        handed = [i for i, op, rhs, decl in F.defs.get(T0, ()) if sp < i <= end]
        if r == "stops":
            ctx.ok("R3", key, where, "no level of the ladder starts after this call")
            continue
        if handed:
            same = all(op == "=" and rhs is not None and _bare(rhs) == tret for i, op, rhs, decl in F.defs.get(T0, ()) if sp < i <= end)
            if same and sp < lpos:
                ctx.ok("R3", key, where, f"the time reached is handed to {T0} before the ladder")
            else:
                ctx.unrec("R3", key, where, f"CVode reports into `{tret}` and {T0} is written afterwards: cannot follow which time the next level subtracts")
            continue
        res = cv[0]
        open_for = []
        undecided = False
        for v in REC:
            ts = [cstmt.truth(cond, {**CONSTS, res: v}) for cond, goes_on in exits]
            if any(t is None for t in ts):
                undecided = True
            elif all(t == goes_on for t, (cond, goes_on) in zip(ts, exits)):
                open_for.append(v)
        if r == "reached" and open_for and not F.written_between({res}, sp, lpos if sp < lpos else sp):
            ctx.bad("R3", key, where,
                    f"CVode advances the integrator and reports the time reached into `{tret}`" + (f" (a by-value copy of {T0})" if "__byval" in tret else "") + f", not into {T0}; when it fails again "
                    f"(e.g. {res} = {open_for[0]}) the ladder starts from the state reached and subtracts the stale {T0} from the time left: the stretch integrated by this call is "
                    "integrated twice and Solve reports success",
                    expected=f"CVode(cv_mem_, tout, cv_y_, &{T0}, CV_NORMAL): progress reported into HandleError's own {T0}", found=f"{res} = CVode({', '.join(args)})")
        elif r == "reached" and not undecided and not open_for:
            ctx.ok("R3", key, where, "every recoverable result of this call leaves the function before a level starts")
        else:
            ctx.unrec("R3", key, where, f"CVode reports into `{tret}`, not into {T0}: cannot decide whether a level of the ladder can start afterwards")


def _r2_solve(ctx, label, mth):
    fn = _func(ctx, CV, {"general.method": mth}, "Naunet::Solve")
    if fn is None:
        return
    F = fn.fn
    if not fn.params or len(fn.params) < 2:
        ctx.unrec("R2", f"{label}:Solve:HandleError receives the flag", (CV, 0), f"parameters of Solve not understood: {fn.header}")
        return
    AB, DT = fn.params[0], fn.params[1]
    cvs = [(F.pos[id(s)], _is_call(s, "CVode")) for s, c in F.seq if _is_call(s, "CVode")]
    hes = [(F.pos[id(s)], _is_call(s, "HandleError")) for s, c in F.seq if _is_call(s, "HandleError")]
    if len(cvs) != 1 or len(hes) != 1:
        ctx.unrec("R2", f"{label}:Solve:HandleError receives the flag", (CV, 0), f"expected `x = CVode(..)` and `y = HandleError(..)`, found {len(cvs)} and {len(hes)}")
        return
    (cvi, cv), (hei, he) = cvs[0], hes[0]
    # (an argument handed over under another name -- `const realtype reached = t0;` after the call -- is that argument)
    ca, ha = [_bare(F.expand(a, cvi)) for a in cv[2]], [_bare(F.expand(a, hei)) for a in he[2]]
    T = ca[3][1:] if len(ca) == 5 and ca[3].startswith("&") else None
    ok = cvi < hei and T is not None and ca == ["cv_mem_", DT, "cv_y_", "&" + T, "CV_NORMAL"] and ha == [cv[0], AB, DT, T] \
        and not F.written_between({cv[0], T, DT}, cvi, hei)
    known = set(fn.params) | cstmt.declared_locals(fn.body)

    def plain(e):
        """an argument this rule understands although it is not the expected one: numbers and locals / parameters of Solve combined
        by arithmetic (no call, no member access, no indexing) -- a DIFFERENT value, not a different spelling"""
        toks = cstmt.tokenize(e)
        return bool(toks) and all((cstmt.IDENT.match(t) and t in known) or re.match(r"[\d.]", t) or t in ("+", "-", "*", "/", "(", ")", "&") for t in toks) \
            and not any(cstmt.IDENT.match(t) and toks[j + 1:j + 2] == ["("] for j, t in enumerate(toks))
    want_c = ["cv_mem_", DT, "cv_y_", "&" + (T or "?"), "CV_NORMAL"]
    want_h = [cv[0], AB, DT, T]
    differs = [(w, g) for w, g in list(zip(want_c, ca))[1:2] + (list(zip(want_h, ha)) if len(ha) == 4 else []) if w != g]
    key = f"{label}:Solve:HandleError receives the flag"
    if ok:
        ctx.ok("R2", key, (CV, 0), f"flag = HandleError({cv[0]}, {AB}, {DT}, {T}) right after {cv[0]} = CVode(cv_mem_, {DT}, cv_y_, &{T}, ..)")
    elif cvi < hei and T is not None and len(ca) == 5 and len(ha) == 4 and ca[0] == "cv_mem_" and ca[2] == "cv_y_" and ca[4] == "CV_NORMAL" \
            and (F.written_between({cv[0], T, DT}, cvi, hei) or (differs and all(plain(g) for w, g in differs))):
        # positive evidence: every argument is understood and one of them is another value (a stale local, a literal), or the
        # flag / time / interval is overwritten between the two calls
        ctx.bad("R2", key, (CV, 0), f"flag = HandleError({cv[0]}, {AB}, {DT}, {T}) right after {cv[0]} = CVode(cv_mem_, {DT}, cv_y_, &{T}, ..)",
                expected="the flag, the state, the interval and the time CVode reached", found=f"CVode({', '.join(ca)}) then HandleError({', '.join(ha)})")
    else:
        ctx.unrec("R2", key, (CV, 0), f"the hand-over from CVode to HandleError is not in a shape this rule understands: CVode({', '.join(ca)}) then HandleError({', '.join(ha)})")
    FL = he[0]
    rets = [s for s, c in F.seq if s[0] == "return"]
    ident = bool(rets) and all(cstmt.value(rets[-1][1], {FL: x, **CONSTS}) == x for x in (0, 1)) and not F.written_between({FL}, hei, F.pos[id(rets[-1])])
    rest = all(cstmt.value(r[1], {FL: 1, **CONSTS}) == 1 for r in rets)
    if not rets or any(cstmt.value(r[1], {FL: x, **CONSTS}) is None for r in rets for x in (0, 1)):
        ctx.unrec("R2", f"{label}:Solve:returns HandleError's result", (CV, 0), f"cannot evaluate what Solve returns: {[cstmt.txt(r[1]) for r in rets]}")
    else:
        ctx.check(ident and rest, "R2", f"{label}:Solve:returns HandleError's result", (CV, 0), f"Solve returns `{FL}`", found=str([cstmt.txt(r[1]) for r in rets]))
    OUT = ("fprintf", "fputs", "fwrite", "printf", "puts")
    logs = [(x, c) for x, c in F.seq if x[0] == "expr" and "ab_init_" in x[1] and any(o in x[1] for o in OUT)]
    ok, unsure = bool(logs), False
    for x, c in logs:
        # tests made before the result existed (the early returns of the set-up calls) say nothing about it
        g = [y for y in _guards(F, c, x, keep=(FL,)) if y[0] == "if" and F.pos.get(id(y[3]), 0) > hei]
        t1, t0_ = cstmt.guards_truth(g, {FL: 1, **CONSTS}), cstmt.guards_truth(g, {FL: 0, **CONSTS})
        unsure = unsure or t1 is None or t0_ is None
        ok = ok and t1 is True and t0_ is False
    key = f"{label}:Solve:initial state logged on failure"
    # without a recognised log statement: a violation only when what Solve does after HandleError is understood -- plain stdio
    # calls and nothing that could do the logging elsewhere (a call of another function, a stream, a mention of ab_init_)
    tail = [x for x, c in F.seq if F.pos[id(x)] > hei and x[0] in ("expr", "if", "while", "for", "return")]
    foreign = [t for x in tail for pt in ([x[1]] if x[0] != "for" else [x[1], x[2], x[3]]) for j, t in enumerate(pt)
               if (cstmt.IDENT.match(t) and pt[j + 1:j + 2] == ["("] and t not in OUT + ("fflush", "CVodeFree", "sizeof", "if", "for", "while") and t not in cstmt.CAST_TYPES) or t in ("<<", "ab_init_")]
    if ok:
        ctx.ok("R2", key, (CV, 0), f"ab_init_ is written to the error file exactly under `{FL} == NAUNET_FAIL`")
    elif (logs and not unsure) or (not logs and not foreign):
        ctx.bad("R2", key, (CV, 0), f"ab_init_ is written to the error file exactly under `{FL} == NAUNET_FAIL`",
                found="no statement that prints ab_init_" if not logs else "the statement that prints ab_init_ does not run exactly when the result is NAUNET_FAIL")
    else:
        ctx.unrec("R2", key, (CV, 0), "how (and under which test) the initial state is logged after HandleError is not understood" + (f": {sorted(set(foreign))[:4]}" if foreign else ""))
    into = [(F.pos[id(s)], src, n) for s, c in F.seq for d, src, n in (cstmt.copies(s) or []) if s[0] in ("for", "expr") and d == "ab_init_"]
    saved = [i for i, src, n in into if src == AB and n == "NEQUATIONS"]
    key = f"{label}:Solve:initial state saved"
    if saved and min(saved) < cvi and not F.written_between({AB}, min(saved), cvi):
        ctx.ok("R3", key, (CV, 0), "ab_init_ (and ab_tmp_) are copies of the state taken before the first CVode call")
    elif into or saved or not any("ab_init_" in pt for x, c in F.seq if F.pos[id(x)] < cvi for pt in x[1:] if isinstance(pt, list) and (not pt or isinstance(pt[0], str))):
        # a recognised copy into ab_init_ from something else / too late / of a state written since, or ab_init_ not touched at all before CVode
        ctx.bad("R3", key, (CV, 0), "ab_init_ (and ab_tmp_) are copies of the state taken before the first CVode call",
                found=f"copies into ab_init_: {[(src, n) for i, src, n in into]}" if into else "ab_init_ is not written before the CVode call")
    else:
        ctx.unrec("R3", key, (CV, 0), "ab_init_ is written before the CVode call in a way this rule does not recognise as a copy of the whole state")


def _r2_r3(ctx):
    for mth in ("dense", "sparse"):
        label = f"cvode/{mth}"
        fn = _func(ctx, CV, {"general.method": mth}, "Naunet::HandleError")
        if fn is None:
            ctx.missing("R2", f"{label}:HandleError", (CV, 0), "HandleError not found")
            continue
        if not fn.params or len(fn.params) != 4:
            ctx.unrec("R2", f"{label}:HandleError", (CV, 0), f"expected HandleError(flag, state, interval, time reached), found {fn.header}")
            continue
        FLAG, AB, DT, T0 = fn.params
        _r2_handle_error(ctx, label, fn.fn, FLAG)
        _r3_time_reached(ctx, label, fn, FLAG, T0)
        _r3_ladder(ctx, label, fn.fn, FLAG, AB, DT, T0)
        _r2_solve(ctx, label, mth)


def _r4(ctx):
    ob = _func(ctx, ODE, {}, "Observer::operator()")
    if ob is None:
        ctx.missing("R4", "Observer::operator()", (ODE, 0), "observer not found")
        return
    F = ob.fn
    thrown = None
    # the counter is the variable the observer increments by one; the budget is what the throw compares it with
    incs = [(i, nm) for nm, ds in F.defs.items() for i, op, rhs, decl in ds
            if op in ("++", "++cond") or (op == "+=" and cstmt.norm(rhs) == "1") or (op == "=" and cstmt.norm(rhs) in (f"{nm}+1", f"1+{nm}"))]
    incond = {i for nm, ds in F.defs.items() for i, op, rhs, decl in ds if op == "++cond"}
    for s, c in F.seq:
        if s[0] != "throw":
            continue
        m = re.match(r"(std::\w+)", "".join(s[1]))
        thrown = m.group(1) if m else "".join(s[1])[:40]
        ifs = [g for g in _guards(F, c, s) if g[0] == "if"]
        shown = str([("" if g[2] else "!") + "(" + cstmt.norm(g[1]) + ")" for g in ifs])
        names = sorted({t for g in ifs for t in g[1] if cstmt.IDENT.match(t)})
        cnt = [nm for i, nm in incs if nm in names]
        if not [g for g in c if g[0] == "if"]:
            ctx.bad("R4", "Observer:budget test", (ODE, 0), "the observer throws unconditionally", expected="if (step_ > mxsteps_) throw ..", found=shown)
            continue
        if len(cnt) != 1 or len(names) != 2:
            ctx.unrec("R4", "Observer:budget test", (ODE, 0), f"cannot tell the step counter and the budget apart in {shown}")
            continue
        C = cnt[0]
        M = [x for x in names if x != C][0]
        tt = [(cv, mv, cstmt.guards_truth(ifs, {C: cv, M: mv})) for cv in range(0, 8) for mv in range(-1, 7)]
        if any(t is None for _, _, t in tt):
            ctx.unrec("R4", "Observer:budget test", (ODE, 0), f"cannot evaluate {shown}")
        else:
            wrong = [(cv, mv) for cv, mv, t in tt if t != (cv > mv)]
            ctx.check(not wrong, "R4", "Observer:budget test", (ODE, 0), f"throws exactly when {C} > {M}", expected=f"if ({C} > {M}) throw ..",
                      found=shown + (f" differs for ({C}, {M}) = {wrong[0]}" if wrong else ""))
        first_test = min([F.pos.get(id(g[3]), 0) for g in ifs] or [0])
        cpos = [i for i, nm in incs if nm == C]
        uncond = [i for i in cpos if not [g for g in F.seq[i][1] if g[0] in ("if", "for", "while", "try", "catch")]]
        if len(cpos) == 1 and (uncond or all(g[0] == "if" for g in F.seq[cpos[0]][1])):
            ctx.check(bool(uncond), "R4", "Observer:counts every step", (ODE, 0), f"{C} is incremented on every observer call, unconditionally",
                      found=f"{C} is only incremented under a test")
        else:
            ctx.unrec("R4", "Observer:counts every step", (ODE, 0), f"{C} is incremented at {len(cpos)} places / inside a loop: cannot tell whether every observer call is counted once")
        ctx.check(bool(cpos) and (max(cpos) < first_test or (max(cpos) == first_test and max(cpos) in incond)), "R4", "Observer:counts before testing", (ODE, 0), "the call being observed is counted before the budget is tested",
                  found="the budget is compared with the count of the previous call: one step more than the budget is taken")
    if thrown is None:
        inc = any(not [g for g in F.seq[i][1] if g[0] == "if"] for i, nm in incs)
        ctx.check(inc, "R4", "Observer:counts every step", (ODE, 0), "step_ is incremented on every observer call, unconditionally") if incs else None
        # no `throw` in the observer (helpers of the file inlined): a violation when the body is understood -- nothing is called that
        # could raise on the observer's behalf
        calls = sorted({t for x, c in F.seq for pt in x[1:] if isinstance(pt, list) and (not pt or isinstance(pt[0], str)) for j, t in enumerate(pt)
                        if cstmt.IDENT.match(t) and pt[j + 1:j + 2] == ["("] and t not in cstmt.NO_THROW_CALLS and t not in cstmt.CAST_TYPES and t not in ("if", "for", "while", "sizeof")})
        if calls:
            ctx.unrec("R4", "Observer:throws", (ODE, 0), f"the observer does not throw itself and calls {calls[:4]}: cannot tell whether exceeding the budget raises an exception")
        else:
            ctx.bad("R4", "Observer:throws", (ODE, 0), "exceeding the budget raises an exception", found="no throw statement in the observer")
    else:
        ctx.ok("R4", "Observer:throws", (ODE, 0), "exceeding the budget raises an exception")
    sv = _func(ctx, OD, {}, "Naunet::Solve")
    if sv is None:
        ctx.missing("R4", "odeint Solve", (OD, 0), "Solve not found")
        return
    SF = sv.fn
    sb = sv.body
    DT = sv.params[1] if sv.params and len(sv.params) >= 2 else "dt"
    STATE = sv.params[0] if sv.params else "abund"
    tries = [s for s, c in SF.seq if s[0] == "try"]
    bare = [x for x, c in SF.seq if x[0] == "expr" and "integrate_adaptive" in x[1] and not any(g[0] == "try" for g in c)]
    if bare:
        # positive evidence: the integration runs outside every try block, what the observer throws leaves Solve
        ctx.bad("R4", "Solve:try", (OD, 0), "integrate_adaptive is called outside a try block: exceeding the step budget escapes Solve as an exception instead of returning NAUNET_FAIL",
                expected="try { .. integrate_adaptive(..) .. } catch (const std::runtime_error &e) { .. NAUNET_FAIL .. }", found=cstmt.txt(bare[0][1])[:120])
    elif len(tries) != 1:
        ctx.unrec("R4", "Solve:try", (OD, 0), f"expected one try block around the integration, found {len(tries)}: the shape of Solve is not understood")
    else:
        t = tries[0]
        integ_st = [x for x, _ in cstmt.walk(t[1]) if x[0] == "expr" and "integrate_adaptive" in x[1]]
        integ = [x[1] for x in integ_st]
        caught = ["".join(d) for d, b in t[2]]
        # the standard exception classes and their bases (<stdexcept>); a type outside the table is judged by its name only
        BASES = {"exception": (), "logic_error": ("exception",), "runtime_error": ("exception",), "bad_alloc": ("exception",),
                 "invalid_argument": ("logic_error", "exception"), "domain_error": ("logic_error", "exception"), "length_error": ("logic_error", "exception"),
                 "out_of_range": ("logic_error", "exception"), "range_error": ("runtime_error", "exception"), "overflow_error": ("runtime_error", "exception"),
                 "underflow_error": ("runtime_error", "exception"), "system_error": ("runtime_error", "exception")}
        tname = (thrown or "").replace("std::", "")
        def caught_type(d):
            ids = [x for x in d if x not in ("const", "&", "*", "&&", "std", "::", "volatile")]
            return "..." if "".join(d) == "..." else "".join(ids[:-1]) if len(ids) > 1 else "".join(ids)
        cnames = [caught_type(d) for d, b in t[2]]
        if thrown is None:
            pass
        elif any(c == "..." or c == tname or c in BASES.get(tname, ()) for c in cnames):
            ctx.ok("R4", "Solve catches what the observer throws", (OD, 0), f"the observer throws {thrown}, which the handler catches")
        elif tname in BASES and all(c in BASES for c in cnames):
            ctx.bad("R4", "Solve catches what the observer throws", (OD, 0),
                    f"the observer throws `{thrown}` but Solve only catches {caught}: exceeding the step budget escapes Solve instead of returning NAUNET_FAIL",
                    expected=f"catch (const {thrown} &e)", found=str(caught))
        else:
            ctx.unrec("R4", "Solve catches what the observer throws", (OD, 0), f"cannot relate the thrown type `{thrown}` to the caught type(s) {caught} (not standard exception classes)")
        OBS = None
        if integ:
            e = integ[0]
            k = e.index("integrate_adaptive")
            args = cstmt._top_split(e[k + 2:-1], (",",)) if e[k + 1:k + 2] == ["("] and e[-1] == ")" else []
            a = [cstmt.norm(x) for x in args]
            if len(a) == 7 and re.fullmatch(r"(?:std|boost)::ref\((\w+)\)", a[6]):
                a[6] = re.fullmatch(r"(?:std|boost)::ref\((\w+)\)", a[6]).group(1)      # the observer handed over by reference is that observer
            back = [src for s, c in SF.seq if SF.pos[id(s)] > SF.pos[id(t)] and s[0] in ("for", "expr") for d, src, n in (cstmt.copies(s) or []) if d == STATE]
            ipos = SF.pos.get(id(integ_st[0]), 0)

            def named(x):
                """an argument with once-defined locals (`const double t_end = dt;`) replaced by their definitions"""
                return SF.expand(x, ipos)
            if len(a) == 7 and cstmt.IDENT.match(a[2]) and cstmt.IDENT.match(a[6]):
                parts_ = [cstmt.value(named(args[3]), CONSTS), cstmt.same_value(" ".join(named(args[4])), DT), cstmt.same_value(" ".join(named(args[5])), DT)]
                if parts_[0] is None or None in parts_[1:]:
                    ctx.unrec("R4", "integrate over [0, dt] with the observer", (OD, 0), f"cannot follow the interval handed to integrate_adaptive: {cstmt.txt(e)[-90:]}")
                else:
                    args_ok = parts_[0] == 0 and parts_[1] is True and parts_[2] is True and (not back or a[2] in back)
                    ctx.check(bool(args_ok), "R4", "integrate over [0, dt] with the observer", (OD, 0), f"integrate_adaptive(.., y, 0.0, {DT}, {DT}, observer)", found=cstmt.txt(e)[-90:])
            else:
                ctx.unrec("R4", "integrate over [0, dt] with the observer", (OD, 0), f"integrate_adaptive is not called with (stepper, system, state, start, end, first step, observer): {cstmt.txt(e)[-90:]}")
            OBS = a[6] if len(a) == 7 and cstmt.IDENT.match(a[6]) else None
        else:
            ctx.unrec("R4", "integrate over [0, dt] with the observer", (OD, 0), "no integrate_adaptive call inside the try block")
        # ---- what Solve returns without / with a caught exception
        top = sb[1] if sb[0] == "block" else []
        ti = [i for i, x in enumerate(top) if x is t]
        if not ti:
            ctx.unrec("R4", "odeint Solve returns flag", (OD, 0), "the try block is nested in another statement: the two ways through Solve are not enumerated")
        else:
            before, after = ("block", top[:ti[0]]), ("block", top[ti[0] + 1:])

            def final(sym, parts):
                for pt in parts:
                    r = sym.run(pt)
                    if r is not None:
                        return cstmt.value(r[1], sym._env()) if r[0] == "return" else r[0]
                return "falls off the end"
            try:
                calm = final(cstmt.Sym(concrete=CONSTS), [before, t[1], after])
                rough = []
                for d, b in t[2]:
                    sy = cstmt.Sym(concrete=CONSTS)
                    r = sy.run(before)
                    if r is not None:
                        rough.append(r[0])
                        continue
                    # the handler is entered from a statement of the try block that can throw: what precedes it has run, what follows has not
                    entries = cstmt.handler_entry_states(sy, t[1])
                    if not entries:
                        for nm in cstmt.written(t[1]):
                            sy.s[nm] = sy.opaque(nm)
                            sy.c.pop(nm, None)
                        entries = [sy]
                    rough += [final(e, [b, after]) for e in entries]
            except cstmt.Unknown as ex:
                ctx.unrec("R4", "odeint Solve returns flag", (OD, 0), f"Solve is not straight-line around the try block: {ex}")
            else:
                ctx.check(calm == 0, "R4", "odeint Solve: flag starts as success", (OD, 0), "Solve returns NAUNET_SUCCESS when the integration completes" if calm == 0 else
                          "Solve does not return NAUNET_SUCCESS after a completed integration", found=str(calm)) if calm is not None else \
                    ctx.unrec("R4", "odeint Solve: flag starts as success", (OD, 0), "cannot follow the value returned after a completed integration")
                if any(x is None for x in rough):
                    ctx.unrec("R4", "handler sets failure", (OD, 0), "cannot follow the value returned after a caught exception")
                else:
                    ok = bool(rough) and all(x == 1 for x in rough)
                    ctx.check(ok, "R4", "handler sets failure", (OD, 0), "Solve returns NAUNET_FAIL when the handler ran" if ok else
                              "after a caught exception (step budget exceeded) Solve does not return NAUNET_FAIL: the unfinished state is reported as a success", expected="NAUNET_FAIL (1)", found=str(rough))
                ctx.check(calm is not None and all(x is not None for x in rough), "R4", "odeint Solve returns flag", (OD, 0), "what Solve returns is decided by whether the handler ran")
        decl = [x for x, c in SF.seq if x[0] == "expr" and OBS and OBS in x[1] and "Observer" in x[1]]
        # the budget may be handed over under a local name (`const int budget = mxsteps_;`)
        decl = [d[1][:d[1].index(OBS) + 1] + [t for t in SF.expand(d[1][d[1].index(OBS) + 1:], SF.pos[id(d)]) if t not in ("(", ")", "{", "}")] for d in decl]
        obs = any(cstmt.norm(d) in (f"Observer{OBS}mxsteps_", f"Observer{OBS}=Observermxsteps_", f"auto{OBS}=Observermxsteps_") for d in decl)
        key = "observer gets the step budget"
        shown = str([cstmt.txt(d) for d in decl])
        if obs:
            ctx.ok("R4", key, (OD, 0), "Observer observer(mxsteps_): a fresh observer per call, built from the configured budget")
        elif OBS is None:
            ctx.unrec("R4", key, (OD, 0), "cannot see which observer is handed to integrate_adaptive")
        elif not decl:
            # the observer handed to the integrator is not built in Solve at all: it is a member / global built once
            if OBS in cstmt.declared_locals(sb) or OBS in (sv.params or ()):
                ctx.unrec("R4", key, (OD, 0), f"`{OBS}` is a local of Solve but not declared as an Observer in a way this rule reads")
            else:
                ctx.bad("R4", key, (OD, 0), "Observer observer(mxsteps_): a fresh observer per call, built from the configured budget", found=f"`{OBS}` is not built in Solve: the budget (and count) of an earlier call stay in force")
        else:
            d = decl[0]
            rest = [t for t in d[d.index(OBS) + 1:] if t not in ("=", "Observer")]
            simple = bool(rest) and all(cstmt.IDENT.match(t) or re.match(r"[\d.]", t) or t in "+-*/" for t in rest) and not any(t in ("std", "make_unique", "make_shared", "new") for t in d)
            if "static" in d or "thread_local" in d or (simple and rest != ["mxsteps_"] and (len(rest) > 1 or not cstmt.IDENT.match(rest[0]))):
                # positive evidence: built once for all calls, or from a number / an expression other than the configured budget
                ctx.bad("R4", key, (OD, 0), "Observer observer(mxsteps_): a fresh observer per call, built from the configured budget", found=shown)
            elif simple and len(rest) == 1 and cstmt.IDENT.match(rest[0]) and rest[0] not in cstmt.declared_locals(sb) and rest[0] not in (sv.params or ()):
                ctx.ok("R4", key, (OD, 0), f"a fresh observer per call, built from the member `{rest[0]}` (R7: set by Init / Reset from their budget parameter)")
            elif simple and len(rest) == 1:
                ctx.bad("R4", key, (OD, 0), "Observer observer(mxsteps_): a fresh observer per call, built from the configured budget", found=shown)
            else:
                ctx.unrec("R4", key, (OD, 0), f"how the observer is built is not understood: {shown}")


def _r7_budget(ctx):
    """The budget the odeint observer enforces is the one the caller configured LAST: the member Solve builds the observer from is
    assigned from the parameter of Init / Reset on every path on which they report success (a success exit taken before the
    assignment leaves the budget of an earlier call in force: Solve then returns success although the budget asked for was exceeded)."""
    sv = _func(ctx, OD, {}, "Naunet::Solve")
    if sv is None:
        return
    SF = sv.fn
    M = None
    for x, c in SF.seq:
        if x[0] == "expr" and "Observer" in x[1]:
            i = x[1].index("Observer")
            if i + 1 < len(x[1]) and cstmt.IDENT.match(x[1][i + 1]):
                rest = [t for t in SF.expand(x[1][i + 2:], SF.pos[id(x)]) if t not in ("(", ")", "{", "}", "=", "Observer")]
                if len(rest) == 1 and cstmt.IDENT.match(rest[0]):
                    M = rest[0]
    if M is None or M in (sv.params or ()) or M in cstmt.declared_locals(sv.body):
        ctx.unrec("R7", "odeint:Solve:observer budget", (OD, 0), "cannot see which member of Naunet the observer's budget is taken from")
        return
    n = 0
    for fname in ("Naunet::Init", "Naunet::Reset"):
        fn = _func(ctx, OD, {}, fname)
        if fn is None:
            ctx.missing("R7", f"odeint:{fname}", (OD, 0), "function not found")
            continue
        n += 1
        F = fn.fn
        short = fname.split("::")[1]
        key = f"odeint:{short}:stores the step budget before reporting success"
        params = set(fn.params or ())
        stores = [(i, op, rhs) for i, op, rhs, decl in F.defs.get(M, ())]
        src = {_bare(F.expand(rhs, i)) if op == "=" and rhs is not None else None for i, op, rhs in stores}
        if not stores:
            others = {f.name.split("::")[-1] for f in fn.sk.funcs if f.name not in ("?", fname)}
            delegated = any(t in others and pt[j + 1:j + 2] == ["("] for st, _ in F.seq for pt in st[1:] if isinstance(pt, list) and (not pt or isinstance(pt[0], str)) for j, t in enumerate(pt))
            if delegated:
                ctx.unrec("R7", key, (OD, 0), f"`{M}` is not assigned in {short} itself and a function that could not be looked into is called")
            else:
                ctx.bad("R7", key, (OD, 0), f"{short} never stores the step budget it is given in `{M}` (the member Solve builds the observer from): the budget of an earlier call stays in force",
                        expected=f"{M} = <the mxsteps parameter>", found="no assignment")
            continue
        if len(src) != 1 or None in src or not (src <= params):
            ctx.unrec("R7", key, (OD, 0), f"`{M}` is assigned something other than a parameter of {short}: {sorted(map(str, src))}")
            continue
        P = next(iter(src))

        def same_already(conds):
            """a guard that says the member already equals the parameter"""
            for g in conds:
                if g[0] == "if" and g[2]:
                    for cj in cstmt._top_split(list(F.expand(g[1], F.pos.get(id(g[3]), 0))), ("&&",)):
                        if _bare(cj) in (f"{M}=={P}", f"{P}=={M}"):
                            return True
            return False
        early, unclear = [], []
        for st, c in F.seq:
            if st[0] != "return":
                continue
            val = cstmt.value(st[1], CONSTS)
            if val == 1:
                continue
            rp = F.pos[id(st)]
            mine = {(g[1], g[2], id(g[3])) for g in c if g[0] == "if"}
            before = [i for i, op, rhs in stores if i < rp]
            dom = [i for i in before if not any(g[0] in ("for", "while") for g in F.seq[i][1])
                   and {(g[1], g[2], id(g[3])) for g in F.seq[i][1] if g[0] == "if"} <= mine]
            if dom or same_already(c):
                continue
            if not before and val == 0 and not any(g[0] in ("for", "while", "try", "catch") for g in c):
                early.append(st)
            else:
                unclear.append(st)
        if early:
            g = [("" if x[2] else "!") + "(" + cstmt.norm(x[1]) + ")" for x in F.seq[F.pos[id(early[0])]][1] if x[0] == "if"]
            ctx.bad("R7", key, (OD, 0),
                    f"{short} returns NAUNET_SUCCESS before `{M} = {P}` is executed (under {g}): the call is reported as done while the observer of the next Solve is still built from the budget of an "
                    "earlier Init/Reset -- exceeding the budget asked for is not reported as failure",
                    expected=f"{M} = {P} on every path that returns NAUNET_SUCCESS", found=f"return {cstmt.txt(early[0][1])} under {g}, before the assignment")
        elif unclear:
            ctx.unrec("R7", key, (OD, 0), f"cannot decide whether `{M} = {P}` has been executed when {short} returns `{cstmt.txt(unclear[0][1])}`")
        else:
            ctx.ok("R7", key, (OD, 0), f"`{M} = {P}` precedes every exit that reports success")
    ctx.floor("R7", "configuration entry points", n, 2)


def _r5(ctx):
    for label, rel, cfg in (("cvode", CV, {"general.method": "dense"}), ("odeint", OD, {})):
        fn = _func(ctx, rel, cfg, "Naunet::PyWrapSolve")
        if fn is None:
            ctx.missing("R5", f"{label}:PyWrapSolve", (rel, 0), "wrapper not found")
            continue
        F = fn.fn

        def solve_call(toks):
            """tokens with the call `Solve(..)` replaced by the pseudo-variable __solve"""
            for i, t in enumerate(toks):
                if t == "Solve" and i + 1 < len(toks) and toks[i + 1] == "(" and not (i and toks[i - 1] in (".", "->")):
                    d = 0
                    for j in range(i + 1, len(toks)):
                        d += toks[j] == "("
                        d -= toks[j] == ")"
                        if d == 0:
                            return list(toks[:i]) + ["__solve"] + list(toks[j + 1:])
            return None
        call = [x for x, c in F.seq if x[0] == "expr" and solve_call(x[1])]
        stored = [cstmt.assigned_call(x[1]) for x in call]
        var = stored[0][0] if stored and stored[0] and stored[0][1] == "Solve" else None
        tested = False
        for x, c in F.seq:
            if x[0] != "throw":
                continue
            ifs = []
            for g in _guards(F, c, x, keep=(var,) if var else ()):
                if g[0] == "if":
                    ifs.append((g[0], tuple(solve_call(g[1]) or g[1]), g[2], g[3]))
            envs = [{**CONSTS, "__solve": r, **({var: r} if var else {})} for r in (0, 1)]
            if cstmt.guards_truth(ifs, envs[1]) is True and cstmt.guards_truth(ifs, envs[0]) is False:
                tested = True
        key = f"{label}:PyWrapSolve tests Solve"
        dropped = [x for x in call if cstmt.sole_call(x[1]) and cstmt.sole_call(x[1])[0] == "Solve"]
        unread = var is not None and call and not any(var in pt for x, c in F.seq if F.pos[id(x)] > F.pos[id(call[0])] for pt in x[1:] if isinstance(pt, list) and (not pt or isinstance(pt[0], str)))
        if tested:
            ctx.ok("R5", key, (rel, 0), "the Python wrapper raises when Solve returns NAUNET_FAIL")
        elif dropped or unread or not call:
            # positive evidence: the result is thrown away (`Solve(..);`), stored and never read, or Solve is not called
            ctx.bad("R5", key, (rel, 0), "the Python wrapper drops the result of Solve: a failed integration returns the unfinished state as if it had succeeded",
                    expected="int flag = Solve(..); if (flag == NAUNET_FAIL) throw ..", found="; ".join(cstmt.txt(x[1]) for x in call))
        else:
            ctx.unrec("R5", key, (rel, 0), "the result of Solve is used, but not in a `throw` under a test this rule can evaluate: " + "; ".join(cstmt.txt(x[1]) for x in call)[:160])


MUTANTS = [
    {"name": "cv_y-own-storage-copy-in", "file": CV, "old": "    N_VSetArrayPointer(ab, cv_y_);\n", "new": "    realtype *ydata = N_VGetArrayPointer(cv_y_);\n    for (int i = 0; i < NEQUATIONS; i++) ydata[i] = ab[i];\n", "rules": ["R6"]},
    {"name": "dt-minus-t0-deleted", "file": CV, "old": "            dt -= t0;\n", "new": "", "rules": ["R3"]},
    {"name": "reset-keeps-dt", "file": CV, "old": "            dt = dt_init;\n", "new": "            dt = dt;\n", "rules": ["R3"]},
    {"name": "recoverable-set-shrunk", "file": CV, "old": "if (cvflag < 0 && cvflag > -5) {", "new": "if (cvflag < 0 && cvflag > -4) {", "rules": ["R3"]},
    {"name": "odeint-catch-does-not-fail", "file": OD, "old": "        flag = NAUNET_FAIL;\n", "new": "", "rules": ["R4"]},
    {"name": "observer-off-by-one", "file": ODE, "old": "if (step_ > mxsteps_) {", "new": "if (step_ > mxsteps_ + 1) {", "rules": ["R4"]},
    {"name": "success-after-ladder", "file": CV, "old": "    /* {% endif -%} */\n\n    return NAUNET_FAIL;\n}\n\nint Naunet::Init", "new": "    /* {% endif -%} */\n\n    return NAUNET_SUCCESS;\n}\n\nint Naunet::Init", "rules": ["R2"]},
    {"name": "dt-init-inside-loop", "edits": [
        {"file": CV, "old": "    realtype dt_init = dt;\n\n    for (int level = 1; level < 6; level++) {\n        int nsubsteps = 10 * level;\n", "new": "    for (int level = 1; level < 6; level++) {\n        int nsubsteps = 10 * level;\n        realtype dt_init = dt;\n"}], "rules": ["R3"]},
    {"name": "observer-throws-other-type", "file": ODE, "old": "throw std::runtime_error(err);", "new": "throw std::length_error(err);", "rules": ["R4"]},
    {"name": "solve-ignores-handleerror", "file": CV, "old": "    CVodeFree(&cv_mem_);\n\n    return flag;", "new": "    CVodeFree(&cv_mem_);\n\n    return NAUNET_SUCCESS;", "rules": ["R2"]},
    {"name": "tret-not-t0", "file": CV, "old": "            cvflag        = CVode(cv_mem_, tout, cv_y_, &t0, CV_NORMAL);", "new": "            realtype tret;\n            cvflag        = CVode(cv_mem_, tout, cv_y_, &tret, CV_NORMAL);", "rules": ["R3"]},
    {"name": "substep-target-short", "file": CV, "old": "expo += (realtype)level * (realtype)step / (realtype)nsubsteps;", "new": "expo += (realtype)level * (realtype)(step - 1) / (realtype)nsubsteps;", "rules": ["R3"]},
    {"name": "reinit-flag-dropped", "file": CV, "old": "        cvflag = CVodeReInit(cv_mem_, t0, cv_y_);\n        if (CheckFlag(&cvflag, \"CVodeReInit\", 1, errfp_) == NAUNET_FAIL) {\n            return NAUNET_FAIL;\n        }\n", "new": "        cvflag = CVodeReInit(cv_mem_, t0, cv_y_);\n", "rules": ["R1"]},
    {"name": "observer-tests-before-counting", "edits": [
        {"file": ODE, "old": "    step_ += 1;\n    time_ = t;\n", "new": "    time_ = t;\n"},
        {"file": ODE, "old": "        throw std::runtime_error(err);\n    }\n", "new": "        throw std::runtime_error(err);\n    }\n    step_ += 1;\n"}], "rules": ["R4"]},
    {"name": "reset-copies-reached-state", "file": CV, "old": "                ab_tmp_[i] = ab_init_[i];\n", "new": "                ab_tmp_[i] = ab[i];\n", "rules": ["R3"]},
    {"name": "reinit-at-reached-time", "file": CV, "old": "        t0 = 0.0;\n        for (int i = 0; i < NEQUATIONS; i++) {\n            ab[i] = ab_tmp_[i];", "new": "        for (int i = 0; i < NEQUATIONS; i++) {\n            ab[i] = ab_tmp_[i];", "rules": ["R3"]},
    {"name": "fatal-flag-retried", "file": CV, "old": "        } else if (cvflag < 0) {\n            fprintf(\n                errfp_,\n                \"The error cannot be recovered by Naunet! Exit from Naunet!\\n\");", "new": "        } else if (cvflag < -7) {\n            fprintf(\n                errfp_,\n                \"The error cannot be recovered by Naunet! Exit from Naunet!\\n\");", "rules": ["R3"]},
    {"name": "substeps-stop-one-short", "file": CV, "old": "for (int step = 1; step < nsubsteps + 1; step++) {", "new": "for (int step = 1; step < nsubsteps; step++) {", "rules": ["R3"]},
    {"name": "success-guard-weakened", "file": CV, "old": "        // if CVode succeeded, leave the loop\n        if (cvflag >= 0) {", "new": "        // if CVode succeeded, leave the loop\n        if (cvflag >= -1) {", "rules": ["R2"]},
    {"name": "odeint-wrapper-drops-flag", "file": OD, "old": "    int flag             = Solve(abund, dt, data);\n    if (flag == NAUNET_FAIL) {\n        throw std::runtime_error(\"Something unrecoverable occurred\");\n    }\n\n    return py::array_t<double>(info.shape, abund);", "new": "    Solve(abund, dt, data);\n\n    return py::array_t<double>(info.shape, abund);", "rules": ["R5"]},
]
BENIGN = [
    {"name": "dt-assign-form", "file": CV, "old": "            dt -= t0;\n", "new": "            dt = dt - t0;\n"},
    {"name": "state-copies-in-a-helper", "edits": [
        {"file": CV, "old": "int Naunet::HandleError(int cvflag,", "new": "static void CopyAll(realtype *to, const realtype *from) {\n    for (int k = 0; k < NEQUATIONS; k++) {\n        to[k] = from[k];\n    }\n}\n\nint Naunet::HandleError(int cvflag,"},
        {"file": CV, "old": "            for (int i = 0; i < NEQUATIONS; i++) {\n                ab_tmp_[i] = ab[i];\n            }\n            dt -= t0;", "new": "            CopyAll(ab_tmp_, ab);\n            dt -= t0;"},
        {"file": CV, "old": "        t0 = 0.0;\n        for (int i = 0; i < NEQUATIONS; i++) {\n            ab[i] = ab_tmp_[i];\n        }\n", "new": "        t0 = 0.0;\n        CopyAll(ab, ab_tmp_);\n"}]},
    {"name": "state-copies-by-memcpy", "file": CV, "old": "            for (int i = 0; i < NEQUATIONS; i++) {\n                ab_tmp_[i] = ab_init_[i];\n            }\n", "new": "            memcpy(ab_tmp_, ab_init_, NEQUATIONS * sizeof(realtype));\n"},
    {"name": "flag-classified-into-named-tests", "edits": [
        {"file": CV, "old": "        if (cvflag < 0 && cvflag > -5) {\n", "new": "        const bool keep_going = -5 < cvflag && cvflag <= -1;\n        const bool start_over = -6 == cvflag;\n        if (keep_going) {\n"},
        {"file": CV, "old": "        } else if (cvflag == -6) {\n", "new": "        } else if (start_over) {\n"}]},
    {"name": "success-by-guard-clause", "file": CV, "old": "        if (cvflag >= 0) {\n            if (level > 0) {", "new": "        if (!(cvflag >= 0)) continue;\n        {\n            if (level > 0) {"},
    {"name": "substeps-as-while", "edits": [
        {"file": CV, "old": "        for (int step = 1; step < nsubsteps + 1; step++) {\n", "new": "        int step = 1;\n        while (step <= nsubsteps) {\n"},
        {"file": CV, "old": "                break;\n            }\n        }\n", "new": "                break;\n            }\n            ++step;\n        }\n"}]},
    {"name": "parameters-renamed", "edits": [
        {"file": CV, "old": "int Naunet::HandleError(int cvflag, realtype *ab, realtype dt, realtype t0) {\n    if (cvflag >= 0) {", "new": "int Naunet::HandleError(int cvflag, realtype *ab, realtype span, realtype t0) {\n    realtype dt = span;\n    if (cvflag >= 0) {"}]},
    {"name": "check-and-return-macro", "edits": [
        {"file": CV, "old": "int Naunet::HandleError(int cvflag,", "new": "#define RETURN_IF_FAILED(flagvar, what)                              \\\n    if (CheckFlag(&flagvar, what, 1, errfp_) == NAUNET_FAIL) { \\\n        return NAUNET_FAIL;                                           \\\n    }\n\nint Naunet::HandleError(int cvflag,"},
        {"file": CV, "old": "        if (CheckFlag(&cvflag, \"CVodeReInit\", 1, errfp_) == NAUNET_FAIL) {\n            return NAUNET_FAIL;\n        }\n", "new": "        RETURN_IF_FAILED(cvflag, \"CVodeReInit\")\n"},
        {"file": CV, "old": "    if (CheckFlag(&cvflag, \"CVodeSetMaxNumSteps\", 1, errfp_) == NAUNET_FAIL) {\n        return NAUNET_FAIL;\n    }\n", "new": "    RETURN_IF_FAILED(cvflag, \"CVodeSetMaxNumSteps\");\n"}]},
    {"name": "flag-classified-by-switch", "file": CV, "old": "        if (cvflag < 0 && cvflag > -5) {\n            for (int i = 0; i < NEQUATIONS; i++) {\n                ab_tmp_[i] = ab[i];\n            }\n            dt -= t0;\n        } else if (cvflag == -6) {\n            // The state may have something wrong\n            // Reset to the initial state and try finer steps\n            for (int i = 0; i < NEQUATIONS; i++) {\n                ab_tmp_[i] = ab_init_[i];\n            }\n            dt = dt_init;\n        } else if (cvflag < 0) {\n",
     "new": "        switch (cvflag) {\n            case -1:\n            case -2:\n            case -3:\n            case -4:\n                for (int i = 0; i < NEQUATIONS; i++) {\n                    ab_tmp_[i] = ab[i];\n                }\n                dt -= t0;\n                break;\n            case -6:\n                for (int i = 0; i < NEQUATIONS; i++) {\n                    ab_tmp_[i] = ab_init_[i];\n                }\n                dt = dt_init;\n                break;\n            default:\n                break;\n        }\n        if (cvflag < 0 && cvflag != -6 && !(cvflag > -5)) {\n"},
    {"name": "interval-by-ternary", "edits": [
        {"file": CV, "old": "            dt -= t0;\n", "new": ""},
        {"file": CV, "old": "            dt = dt_init;\n", "new": ""},
        {"file": CV, "old": "        // Reset initial conditions\n        t0 = 0.0;", "new": "        dt = (cvflag == -6) ? dt_init : dt - t0;\n        // Reset initial conditions\n        t0 = 0.0;"}]},
    {"name": "substep-bound-spelt-out", "file": CV, "old": "step < nsubsteps + 1; step++", "new": "step <= 10 * level; step++"},
    {"name": "state-source-by-pointer", "file": CV,
     "old": "        if (cvflag < 0 && cvflag > -5) {\n            for (int i = 0; i < NEQUATIONS; i++) {\n                ab_tmp_[i] = ab[i];\n            }\n            dt -= t0;\n        } else if (cvflag == -6) {\n            // The state may have something wrong\n            // Reset to the initial state and try finer steps\n            for (int i = 0; i < NEQUATIONS; i++) {\n                ab_tmp_[i] = ab_init_[i];\n            }\n            dt = dt_init;\n        } else if (cvflag < 0) {",
     "new": "        const realtype *from = (cvflag == -6) ? ab_init_ : ab;\n        if (cvflag == -6 || (cvflag < 0 && cvflag > -5)) {\n            for (int i = 0; i < NEQUATIONS; i++) {\n                ab_tmp_[i] = from[i];\n            }\n            dt = (cvflag == -6) ? dt_init : dt - t0;\n        } else if (cvflag < 0) {"},
    {"name": "check-macro-do-while", "edits": [
        {"file": CV, "old": "int Naunet::HandleError(int cvflag,", "new": "#define CHECKED(what)                                                   \\\n    do {                                                                \\\n        if (CheckFlag(&cvflag, what, 1, errfp_) == NAUNET_FAIL) return NAUNET_FAIL; \\\n    } while (0)\n\nint Naunet::HandleError(int cvflag,"},
        {"file": CV, "old": "        if (CheckFlag(&cvflag, \"CVodeReInit\", 1, errfp_) == NAUNET_FAIL) {\n            return NAUNET_FAIL;\n        }\n", "new": "        CHECKED(\"CVodeReInit\");\n"}]},
    {"name": "reinit-literal-zero", "file": CV, "old": "        cvflag = CVodeReInit(cv_mem_, t0, cv_y_);", "new": "        cvflag = CVodeReInit(cv_mem_, 0.0, cv_y_);"},
    {"name": "observer-counts-in-the-test", "file": ODE, "old": "    step_ += 1;\n    time_ = t;\n    if (step_ > mxsteps_) {", "new": "    time_ = t;\n    if (++step_ > mxsteps_) {"},
    {"name": "observer-early-return", "file": ODE, "old": "    if (step_ > mxsteps_) {\n        char err[70];", "new": "    if (mxsteps_ >= step_) return;\n    {\n        char err[70];"},
    {"name": "odeint-status-as-bool", "edits": [
        {"file": OD, "old": "    int flag = NAUNET_SUCCESS;\n\n    vector_type y", "new": "    bool failed = false;\n\n    vector_type y"},
        {"file": OD, "old": "        flag = NAUNET_FAIL;\n", "new": "        failed = true;\n"},
        {"file": OD, "old": "        abund[i] = y[i];\n    }\n\n    return flag;", "new": "        abund[i] = y[i];\n    }\n\n    return failed ? NAUNET_FAIL : NAUNET_SUCCESS;"}]},
    {"name": "odeint-names", "edits": [
        {"file": OD, "old": "    vector_type y(NEQUATIONS);\n    for (int i = 0; i < NEQUATIONS; i++) {\n        y[i] = abund[i];\n    }\n\n    Observer observer(mxsteps_);", "new": "    vector_type state(NEQUATIONS);\n    for (int i = 0; i < NEQUATIONS; i++) {\n        state[i] = abund[i];\n    }\n\n    Observer budget(mxsteps_);"},
        {"file": OD, "old": "y, 0.0, dt, dt, observer);", "new": "state, 0.0, dt, dt, budget);"},
        {"file": OD, "old": "        abund[i] = y[i];\n    }\n\n    return flag;", "new": "        abund[i] = state[i];\n    }\n\n    return flag;"}]},
    {"name": "wrapper-tests-inline", "file": OD, "old": "    int flag             = Solve(abund, dt, data);\n    if (flag == NAUNET_FAIL) {", "new": "    if (Solve(abund, dt, data) != NAUNET_SUCCESS) {"},
]


# ---------------------------------------------------------------- second catalogue: code moved into helpers, named constants, other loop shapes
_HEAD = "int Naunet::HandleError(int cvflag,"
_SOLVEHEAD = "int Naunet::Solve(realtype *ab, realtype dt, NaunetData *data) {\n    /* {% if general.method == \"dense\" or general.method == \"sparse\" -%} */\n"
_LOOP = """        realtype logdt = log10(dt);
        for (int step = 1; step < nsubsteps + 1; step++) {
            realtype expo = logdt - (realtype)level;
            expo += (realtype)level * (realtype)step / (realtype)nsubsteps;
            realtype tout = pow(10.0, expo);

            // printf("tout: %13.7e, step: %d, level: %d\\n", tout, step, level);
            // realtype tcur = 0.0;
            // cvflag = CVodeGetCurrentTime(cv_mem_, &tcur);
            cvflag        = CVode(cv_mem_, tout, cv_y_, &t0, CV_NORMAL);
            if (cvflag < 0) {
                fprintf(errfp_,
                        "CVode failed in Naunet! Flag = %d in the %dth substep "
                        "of %dth level! \\n",
                        cvflag, step, level);
                if (level < 5) {
                    fprintf(errfp_,
                            "Tyring to fix the error in the next level\\n");
                }
                // fprintf(errfp_, "Failed to fix the error! cvflag = %d in the
                // %dth substep! \\n", cvflag, i);
                break;
            }
        }
"""
_EXPO = "            realtype expo = logdt - (realtype)level;\n            expo += (realtype)level * (realtype)step / (realtype)nsubsteps;\n            realtype tout = pow(10.0, expo);\n"
_SUBSTEPTIME = ("static realtype SubstepTime(realtype logdt, int level, int step, int nsubsteps) {\n    realtype expo = logdt - (realtype)level;\n"
                "    expo += (realtype)level * (realtype)step / (realtype)nsubsteps;\n    return pow(10.0, expo);\n}\n\n")
_CHECKED = "    if (CheckFlag(&cvflag, \"%s\", 1, errfp_) == NAUNET_FAIL) {\n        return NAUNET_FAIL;\n    }\n"
_SETUP = ("    N_VSetArrayPointer(ab, cv_y_);\n\n    cv_mem_ = CVodeCreate(CV_BDF, cv_sunctx_);\n\n    cvflag  = CVodeSetErrFile(cv_mem_, errfp_);\n" + _CHECKED % "CVodeSetErrFile"
          + "\n    cvflag = CVodeSetMaxNumSteps(cv_mem_, mxsteps_);\n" + _CHECKED % "CVodeSetMaxNumSteps" + "\n    cvflag = CVodeInit(cv_mem_, Fex, t0, cv_y_);\n" + _CHECKED % "CVodeInit"
          + "\n    cvflag = CVodeSStolerances(cv_mem_, rtol_, atol_);\n" + _CHECKED % "CVodeSStolerances" + "\n    cvflag = CVodeSetLinearSolver(cv_mem_, cv_ls_, cv_a_);\n" + _CHECKED % "CVodeSetLinearSolver"
          + "\n    cvflag = CVodeSetJacFn(cv_mem_, Jac);\n" + _CHECKED % "CVodeSetJacFn" + "\n    cvflag = CVodeSetUserData(cv_mem_, data);\n" + _CHECKED % "CVodeSetUserData")
_CALL_SETUP = "    if (PrepareIntegrator(ab, t0, data) == NAUNET_FAIL) {\n        return NAUNET_FAIL;\n    }\n"
_CLASSIFIED = [
    {"file": CV, "old": "        if (cvflag < 0 && cvflag > -5) {\n", "new": "        const int kind = Classify(cvflag);\n        if (kind == 1) {\n"},
    {"file": CV, "old": "        } else if (cvflag == -6) {\n", "new": "        } else if (kind == 2) {\n"},
    {"file": CV, "old": "        } else if (cvflag < 0) {\n            fprintf(\n                errfp_,\n                \"The error cannot", "new": "        } else if (kind == 3) {\n            fprintf(\n                errfp_,\n                \"The error cannot"}]


def _subcycle(sig, tref):
    """the sub-step loop as a member function; `sig` decides how the time reached is passed"""
    return ("int Naunet::SubCycle(" + sig + ") {\n    int cvflag     = 0;\n    int nsubsteps  = 10 * level;\n    realtype logdt = log10(dt);\n\n"
            "    for (int step = 1; step < nsubsteps + 1; step++) {\n        realtype expo = logdt - (realtype)level;\n"
            "        expo += (realtype)level * (realtype)step / (realtype)nsubsteps;\n        realtype tout = pow(10.0, expo);\n"
            "        cvflag = CVode(cv_mem_, tout, cv_y_, " + tref + ", CV_NORMAL);\n        if (cvflag < 0) {\n            break;\n        }\n    }\n\n    return cvflag;\n}\n\n")


def _setup_member(body):
    return "int Naunet::PrepareIntegrator(realtype *ab, realtype t0, NaunetData *data) {\n    int cvflag;\n" + body + "\n    return NAUNET_SUCCESS;\n}\n\n"


def _classify(lowest):
    return f"static int Classify(int flag) {{\n    if (flag >= 0) return 0;\n    if (flag > {lowest}) return 1;\n    if (flag == -6) return 2;\n    return 3;\n}}\n\n"


MUTANTS += [
    {"name": "substeps-in-a-member-time-by-value", "edits": [
        {"file": CV, "old": _LOOP, "new": "        cvflag = SubCycle(level, dt, t0);\n"},
        {"file": CV, "old": _HEAD, "new": _subcycle("int level, realtype dt, realtype t0", "&t0") + _HEAD}], "rules": ["R3"]},
    {"name": "interval-shortened-on-a-by-value-copy", "edits": [
        {"file": CV, "old": _HEAD, "new": "static void Shorten(realtype dt, realtype t0) {\n    dt -= t0;\n}\n\n" + _HEAD},
        {"file": CV, "old": "            dt -= t0;\n", "new": "            Shorten(dt, t0);\n"}], "rules": ["R3"]},
    {"name": "recoverable-predicate-shrunk", "edits": [
        {"file": CV, "old": _HEAD, "new": "static bool Recoverable(int flag) { return flag < 0 && flag > -4; }\n\n" + _HEAD},
        {"file": CV, "old": "        if (cvflag < 0 && cvflag > -5) {\n", "new": "        if (Recoverable(cvflag)) {\n"}], "rules": ["R3"]},
    {"name": "classifier-shrunk", "edits": [{"file": CV, "old": _HEAD, "new": _classify(-4) + _HEAD}] + _CLASSIFIED, "rules": ["R3"]},
    {"name": "odeint-success-set-before-integrating", "edits": [
        {"file": OD, "old": "    int flag = NAUNET_SUCCESS;\n\n    vector_type y", "new": "    int flag = NAUNET_FAIL;\n\n    vector_type y"},
        {"file": OD, "old": "    try {\n        step_ = integrate_adaptive(", "new": "    try {\n        flag = NAUNET_SUCCESS;\n        step_ = integrate_adaptive("},
        {"file": OD, "old": "        flag = NAUNET_FAIL;\n", "new": ""}], "rules": ["R4"]},
    {"name": "setup-member-drops-a-status", "edits": [
        {"file": CV, "old": _SETUP, "new": _CALL_SETUP},
        {"file": CV, "old": _SOLVEHEAD, "new": _setup_member(_SETUP.replace(_CHECKED % "CVodeInit", "")) + _SOLVEHEAD}], "rules": ["R1"]},
    {"name": "setup-member-result-ignored", "edits": [
        {"file": CV, "old": _SETUP, "new": "    PrepareIntegrator(ab, t0, data);\n"},
        {"file": CV, "old": _SOLVEHEAD, "new": _setup_member(_SETUP) + _SOLVEHEAD}], "rules": ["R1"]},
    {"name": "setup-member-copies-the-state", "edits": [
        {"file": CV, "old": _SETUP, "new": _CALL_SETUP},
        {"file": CV, "old": _SOLVEHEAD, "new": _setup_member(_SETUP.replace("    N_VSetArrayPointer(ab, cv_y_);\n", "    realtype *ydata = N_VGetArrayPointer(cv_y_);\n    for (int i = 0; i < NEQUATIONS; i++) ydata[i] = ab[i];\n")) + _SOLVEHEAD}], "rules": ["R6"]},
    {"name": "success-after-the-loop-unguarded", "file": CV, "old": "            // break;\n            return NAUNET_SUCCESS;\n        }\n    }\n", "new": "            break;\n        }\n    }\n    return NAUNET_SUCCESS;\n", "rules": ["R2"]},
]
BENIGN += [
    {"name": "substeps-in-a-member-time-by-reference", "edits": [
        {"file": CV, "old": _LOOP, "new": "        cvflag = SubCycle(level, dt, t0);\n"},
        {"file": CV, "old": _HEAD, "new": _subcycle("int level, realtype dt, realtype &t0", "&t0") + _HEAD}]},
    {"name": "substeps-in-a-member-time-by-pointer", "edits": [
        {"file": CV, "old": _LOOP, "new": "        cvflag = this->SubCycle(level, dt, &t0);\n"},
        {"file": CV, "old": _HEAD, "new": _subcycle("int level, realtype dt, realtype *t0", "t0") + _HEAD}]},
    {"name": "substep-time-from-a-value-helper", "edits": [
        {"file": CV, "old": _HEAD, "new": _SUBSTEPTIME + _HEAD},
        {"file": CV, "old": _EXPO, "new": "            const realtype tout = SubstepTime(logdt, level, step, nsubsteps);\n"}]},
    {"name": "substep-time-helper-inside-the-call", "edits": [
        {"file": CV, "old": _HEAD, "new": _SUBSTEPTIME + _HEAD},
        {"file": CV, "old": _EXPO, "new": ""},
        {"file": CV, "old": "CVode(cv_mem_, tout, cv_y_, &t0, CV_NORMAL);", "new": "CVode(cv_mem_, SubstepTime(logdt, level, step, nsubsteps), cv_y_, &t0, CV_NORMAL);"}]},
    {"name": "flag-predicates-as-helpers", "edits": [
        {"file": CV, "old": _HEAD, "new": "static bool Recoverable(int flag) { return flag < 0 && flag > -5; }\nstatic bool NeedsReset(int flag) { return flag == -6; }\n\n" + _HEAD},
        {"file": CV, "old": "        if (cvflag < 0 && cvflag > -5) {\n", "new": "        if (Recoverable(cvflag)) {\n"},
        {"file": CV, "old": "        } else if (cvflag == -6) {\n", "new": "        } else if (NeedsReset(cvflag)) {\n"}]},
    {"name": "flag-classified-by-a-helper-with-early-returns", "edits": [{"file": CV, "old": _HEAD, "new": _classify(-5) + _HEAD}] + _CLASSIFIED},
    {"name": "cvode-flags-by-name", "edits": [
        {"file": CV, "old": "        if (cvflag < 0 && cvflag > -5) {\n", "new": "        if (cvflag <= CV_TOO_MUCH_WORK && cvflag >= CV_CONV_FAILURE) {\n"},
        {"file": CV, "old": "        } else if (cvflag == -6) {\n", "new": "        } else if (cvflag == CV_LSETUP_FAIL) {\n"}]},
    {"name": "levels-bounded-by-named-constants", "edits": [
        {"file": CV, "old": _HEAD, "new": "#define NAUNET_MAX_LEVEL 5\nstatic const int kStepsPerLevel = 10;\n\n" + _HEAD},
        {"file": CV, "old": "for (int level = 1; level < 6; level++) {\n        int nsubsteps = 10 * level;", "new": "for (int level = 1; level <= NAUNET_MAX_LEVEL; level++) {\n        int nsubsteps = kStepsPerLevel * level;"}]},
    {"name": "level-loop-as-while", "edits": [
        {"file": CV, "old": "    for (int level = 1; level < 6; level++) {\n", "new": "    const int last = 5;\n    int level = 1;\n    while (level <= last) {\n"},
        {"file": CV, "old": "            // break;\n            return NAUNET_SUCCESS;\n        }\n    }\n", "new": "            // break;\n            return NAUNET_SUCCESS;\n        }\n        level++;\n    }\n"}]},
    {"name": "level-counted-from-zero", "file": CV, "old": "    for (int level = 1; level < 6; level++) {\n        int nsubsteps = 10 * level;\n", "new": "    for (int lv = 0; lv < 5; lv++) {\n        const int level = lv + 1;\n        int nsubsteps = 10 * level;\n"},
    {"name": "substeps-counted-from-zero-std-math", "edits": [
        {"file": CV, "old": "for (int step = 1; step < nsubsteps + 1; step++) {", "new": "for (int step = 0; step < nsubsteps; step++) {"},
        {"file": CV, "old": "(realtype)level * (realtype)step / (realtype)nsubsteps;", "new": "(realtype)level * (realtype)(step + 1) / (realtype)nsubsteps;"},
        {"file": CV, "old": "realtype logdt = log10(dt);", "new": "realtype logdt = std::log10(dt);"},
        {"file": CV, "old": "realtype tout = pow(10.0, expo);", "new": "realtype tout = std::pow(10.0, expo);"}]},
    {"name": "handle-error-wrapped-in-the-failure-test", "edits": [
        {"file": CV, "old": "    if (cvflag >= 0) {\n        return NAUNET_SUCCESS;\n    }\n\n    fprintf(errfp_, \"CVode failed in Naunet! Flag", "new": "    if (cvflag < 0) {\n    fprintf(errfp_, \"CVode failed in Naunet! Flag"},
        {"file": CV, "old": "    /* {% endif -%} */\n\n    return NAUNET_FAIL;\n}\n\nint Naunet::Init", "new": "    /* {% endif -%} */\n\n    return NAUNET_FAIL;\n    }\n    return NAUNET_SUCCESS;\n}\n\nint Naunet::Init"}]},
    {"name": "success-through-a-latched-flag", "edits": [
        {"file": CV, "old": "            // break;\n            return NAUNET_SUCCESS;\n        }\n    }\n", "new": "            fixed = true;\n            break;\n        }\n    }\n    if (fixed) {\n        return NAUNET_SUCCESS;\n    }\n"},
        {"file": CV, "old": "    realtype dt_init = dt;\n", "new": "    realtype dt_init = dt;\n    bool fixed       = false;\n"}]},
    {"name": "setup-in-a-member-with-early-returns", "edits": [
        {"file": CV, "old": _SETUP, "new": _CALL_SETUP},
        {"file": CV, "old": _SOLVEHEAD, "new": _setup_member(_SETUP) + _SOLVEHEAD}]},
    {"name": "odeint-failed-until-the-integration-returns", "edits": [
        {"file": OD, "old": "    int flag = NAUNET_SUCCESS;\n\n    vector_type y", "new": "    int flag = NAUNET_FAIL;\n\n    vector_type y"},
        {"file": OD, "old": "dt, dt, observer);\n", "new": "dt, dt, observer);\n        flag = NAUNET_SUCCESS;\n"},
        {"file": OD, "old": "        flag = NAUNET_FAIL;\n", "new": ""}]},
    {"name": "odeint-interval-named", "edits": [
        {"file": OD, "old": "    Observer observer(mxsteps_);\n", "new": "    Observer observer(mxsteps_);\n    const double t_start = 0.0;\n    const double t_end   = dt;\n"},
        {"file": OD, "old": "y, 0.0, dt, dt, observer);", "new": "y, t_start, t_end, dt, observer);"}]},
    {"name": "observer-budget-in-a-predicate-postfix-count", "edits": [
        {"file": ODE, "old": "void Observer::operator()", "new": "static bool Exhausted(int taken, int budget) { return taken >= budget; }\n\nvoid Observer::operator()"},
        {"file": ODE, "old": "    step_ += 1;\n    time_ = t;\n    if (step_ > mxsteps_) {", "new": "    time_ = t;\n    if (Exhausted(step_++, mxsteps_)) {"}]},
    {"name": "wrapper-throws-in-a-helper", "edits": [
        {"file": OD, "old": "py::array_t<double> Naunet::PyWrapSolve(", "new": "static void ThrowIfFailed(int flag) {\n    if (flag == NAUNET_FAIL) {\n        throw std::runtime_error(\"Something unrecoverable occurred\");\n    }\n}\n\npy::array_t<double> Naunet::PyWrapSolve("},
        {"file": OD, "old": "    int flag             = Solve(abund, dt, data);\n    if (flag == NAUNET_FAIL) {\n        throw std::runtime_error(\"Something unrecoverable occurred\");\n    }\n\n    return py::array_t<double>(info.shape, abund);", "new": "    ThrowIfFailed(Solve(abund, dt, data));\n\n    return py::array_t<double>(info.shape, abund);"}]},
]


# ---------------------------------------------------------------- third catalogue: pieces of the ladder / of the odeint driver as members with early returns
_CHAIN = """        if (cvflag < 0 && cvflag > -5) {
            for (int i = 0; i < NEQUATIONS; i++) {
                ab_tmp_[i] = ab[i];
            }
            dt -= t0;
        } else if (cvflag == -6) {
            // The state may have something wrong
            // Reset to the initial state and try finer steps
            for (int i = 0; i < NEQUATIONS; i++) {
                ab_tmp_[i] = ab_init_[i];
            }
            dt = dt_init;
        } else if (cvflag < 0) {
            fprintf(
                errfp_,
                "The error cannot be recovered by Naunet! Exit from Naunet!\\n");
            fprintf(errfp_, "cvFlag = %d, level = %d\\n", cvflag, level);
            return NAUNET_FAIL;
        }
"""
_REINIT = """        t0 = 0.0;
        for (int i = 0; i < NEQUATIONS; i++) {
            ab[i] = ab_tmp_[i];
        }

        // Reinitialize
        cvflag = CVodeReInit(cv_mem_, t0, cv_y_);
        if (CheckFlag(&cvflag, "CVodeReInit", 1, errfp_) == NAUNET_FAIL) {
            return NAUNET_FAIL;
        }
"""
_RESTART = ("int Naunet::Restart(realtype *ab, realtype &t0) {\n    t0 = 0.0;\n    for (int i = 0; i < NEQUATIONS; i++) {\n        ab[i] = ab_tmp_[i];\n    }\n    int flag = CVodeReInit(cv_mem_, t0, cv_y_);\n"
            "    if (CheckFlag(&flag, \"CVodeReInit\", 1, errfp_) == NAUNET_FAIL) {\n        return NAUNET_FAIL;\n    }\n    return NAUNET_SUCCESS;\n}\n\n")
_TRY = """    step_ = 0;
    try {
        step_ = integrate_adaptive(
            make_controlled<rosenbrock4<double>>(atol_, rtol_),
            std::make_pair(Fex(data), Jac(data)), y, 0.0, dt, dt, observer);
    } catch (const std::runtime_error &e) {
        fprintf(errfp_, "%s\\n", e.what());

        flag = NAUNET_FAIL;
    }
"""
_INTEGRATE = "            std::make_pair(Fex(data), Jac(data)), y, 0.0, dt, dt, observer);\n"
_OSOLVE = "int Naunet::Solve(double *abund, double dt, NaunetData *data) {\n"
_CALL_PREPARE = "        if (!PrepareLevel(cvflag, ab, dt, t0, dt_init)) {\n            return NAUNET_FAIL;\n        }\n"


def _prepare_level(sig):
    """the classification of the flag at the start of a level as a member; `sig` decides how the interval is passed"""
    return ("bool Naunet::PrepareLevel(" + sig + ") {\n    if (cvflag < 0 && cvflag > -5) {\n        for (int i = 0; i < NEQUATIONS; i++) {\n            ab_tmp_[i] = ab[i];\n        }\n        dt -= t0;\n        return true;\n    }\n"
            "    if (cvflag == -6) {\n        for (int i = 0; i < NEQUATIONS; i++) {\n            ab_tmp_[i] = ab_init_[i];\n        }\n        dt = dt_init;\n        return true;\n    }\n"
            "    if (cvflag < 0) {\n        fprintf(errfp_, \"The error cannot be recovered by Naunet! Exit from Naunet!\\n\");\n        return false;\n    }\n    return true;\n}\n\n")


def _integrate_member(in_handler):
    return ("int Naunet::Integrate(vector_type &y, double dt, NaunetData *data, Observer &observer) {\n    step_ = 0;\n    try {\n        step_ = integrate_adaptive(\n            make_controlled<rosenbrock4<double>>(atol_, rtol_),\n"
            + _INTEGRATE + "    } catch (const std::runtime_error &e) {\n        fprintf(errfp_, \"%s\\n\", e.what());\n" + in_handler + "    }\n    return NAUNET_SUCCESS;\n}\n\n")


MUTANTS += [
    {"name": "level-preparation-member-interval-by-value", "edits": [
        {"file": CV, "old": _CHAIN, "new": _CALL_PREPARE},
        {"file": CV, "old": _HEAD, "new": _prepare_level("int cvflag, const realtype *ab, realtype dt, realtype t0, realtype dt_init") + _HEAD}], "rules": ["R3"]},
    {"name": "odeint-try-in-a-member-that-always-succeeds", "edits": [
        {"file": OD, "old": _TRY, "new": "    flag = Integrate(y, dt, data, observer);\n"},
        {"file": OD, "old": _OSOLVE, "new": _integrate_member("") + _OSOLVE}], "rules": ["R4"]},
    {"name": "odeint-integration-outside-try", "file": OD, "old": _TRY, "new": "    step_ = integrate_adaptive(\n            make_controlled<rosenbrock4<double>>(atol_, rtol_),\n" + _INTEGRATE, "rules": ["R4"]},
    {"name": "solve-hands-over-a-stale-time", "edits": [
        {"file": CV, "old": "    cvflag   = CVode(cv_mem_, dt, cv_y_, &t0, CV_NORMAL);\n", "new": "    const realtype reached = t0;\n    cvflag   = CVode(cv_mem_, dt, cv_y_, &t0, CV_NORMAL);\n"},
        {"file": CV, "old": "    int flag = HandleError(cvflag, ab, dt, t0);\n", "new": "    int flag = HandleError(cvflag, ab, dt, reached);\n"}], "rules": ["R2"]},
]
BENIGN += [
    {"name": "level-preparation-member-interval-by-reference", "edits": [
        {"file": CV, "old": _CHAIN, "new": _CALL_PREPARE},
        {"file": CV, "old": _HEAD, "new": _prepare_level("int cvflag, const realtype *ab, realtype &dt, realtype t0, realtype dt_init") + _HEAD}]},
    {"name": "reinitialisation-in-a-member", "edits": [
        {"file": CV, "old": _REINIT, "new": "        if (Restart(ab, t0) == NAUNET_FAIL) {\n            return NAUNET_FAIL;\n        }\n"},
        {"file": CV, "old": _HEAD, "new": _RESTART + _HEAD}]},
    {"name": "odeint-try-in-a-member-returning-from-the-handler", "edits": [
        {"file": OD, "old": _TRY, "new": "    flag = Integrate(y, dt, data, observer);\n"},
        {"file": OD, "old": _OSOLVE, "new": _integrate_member("        return NAUNET_FAIL;\n") + _OSOLVE}]},
    {"name": "arguments-under-local-names", "edits": [
        {"file": CV, "old": "    int flag = HandleError(cvflag, ab, dt, t0);\n", "new": "    const realtype reached = t0;\n    int flag = HandleError(cvflag, ab, dt, reached);\n"},
        {"file": OD, "old": "    Observer observer(mxsteps_);\n", "new": "    const int budget = mxsteps_;\n    Observer observer{budget};\n"}]},
]


# ---------------------------------------------------------------- fourth catalogue: integrator advanced before the ladder; configuration entry points
_RESET_OD = "int Naunet::Reset(int nsystem, double atol, double rtol, int mxsteps) {\n    if (nsystem != 1) {\n        printf(\"This solver doesn't support nsystem > 1!\");\n        return NAUNET_FAIL;\n    }\n\n"
_RESET_STORE = "    n_system_ = nsystem;\n    mxsteps_  = mxsteps;\n    atol_     = atol;\n    rtol_     = rtol;\n\n    return NAUNET_SUCCESS;\n};\n\n#ifdef IDX_ELEM_H\nint Naunet::SetReferenceAbund"
_HDR = "naunet/templates/cvode/include/naunet.h.j2"


def _resume(sig):
    return ("int Naunet::Resume(" + sig + ") {\n    int flag = CV_TOO_MUCH_WORK;\n    for (int k = 0; k < tries && flag == CV_TOO_MUCH_WORK; k++) {\n"
            "        flag = CVode(cv_mem_, tout, cv_y_, &tnow, CV_NORMAL);\n    }\n    return flag;\n}\n\n")


def _resumed(then):
    return "    if (cvflag == -1) {\n        cvflag = Resume(dt, t0);\n" + then + "    }\n\n    realtype dt_init = dt;\n"


_RESUME_DECL = {"file": _HDR, "old": "    realtype ab_tmp_[NEQUATIONS];  // Temporary state for error handling\n", "new": "    realtype ab_tmp_[NEQUATIONS];  // Temporary state for error handling\n    int Resume(realtype tout, realtype tnow, int tries = 2);\n"}
MUTANTS += [
    {"name": "resumed-before-the-ladder-time-by-value", "edits": [
        _RESUME_DECL,
        {"file": CV, "old": _HEAD, "new": _resume("realtype tout, realtype tnow, int tries") + _HEAD},
        {"file": CV, "old": "    realtype dt_init = dt;\n", "new": _resumed("        if (cvflag >= 0) {\n            return NAUNET_SUCCESS;\n        }\n")}], "rules": ["R3"]},
    {"name": "reset-early-exit-without-the-budget", "file": OD, "old": _RESET_OD, "new": _RESET_OD + "    if (nsystem == n_system_ && atol == atol_ && rtol == rtol_) {\n        return NAUNET_SUCCESS;\n    }\n\n", "rules": ["R7"]},
    {"name": "reset-does-not-store-the-budget", "file": OD, "old": _RESET_STORE, "new": _RESET_STORE.replace("    mxsteps_  = mxsteps;\n", ""), "rules": ["R7"]},
]
BENIGN += [
    {"name": "reset-early-exit-when-nothing-changes", "file": OD, "old": _RESET_OD,
     "new": _RESET_OD + "    if (nsystem == n_system_ && atol == atol_ && rtol == rtol_ && mxsteps == mxsteps_) {\n        return NAUNET_SUCCESS;\n    }\n\n"},
    {"name": "reset-stores-through-a-setter", "edits": [
        {"file": OD, "old": _RESET_STORE, "new": _RESET_STORE.replace("    n_system_ = nsystem;\n    mxsteps_  = mxsteps;\n    atol_     = atol;\n    rtol_     = rtol;\n", "    Configure(nsystem, atol, rtol, mxsteps);\n")},
        {"file": OD, "old": "int Naunet::Reset(int nsystem,", "new": "void Naunet::Configure(int nsystem, double atol, double rtol, int budget) {\n    n_system_ = nsystem;\n    mxsteps_  = budget;\n    atol_     = atol;\n    rtol_     = rtol;\n}\n\nint Naunet::Reset(int nsystem,"}]},
]
