"""C19 -- Solve integrates exactly the requested interval or reports failure (flag discipline + ladder premises)."""
from __future__ import annotations

import re

from .. import calg, cstmt, jmodel as J
from ..cskel import Skel, OPEN, CLOSE

EXPLANATION = (
    "On the C++ of cvode/src/naunet.cpp.j2 specialised per method and the two odeint files (statement parser, no compilation): R1 every status "
    "returned by a CVode* call in Solve / HandleError is read (CheckFlag, HandleError argument, comparison) before it is overwritten or the "
    "function returns; R2 in HandleError `return NAUNET_SUCCESS` is reachable only under `cvflag >= 0` with no later assignment to cvflag, every "
    "other exit returns NAUNET_FAIL; Solve returns HandleError's result and logs the initial state iff it is NAUNET_FAIL; R3 ladder premises: "
    "recoverable flags -1..-4 keep the reached state and subtract the elapsed time (dt -= t0), the reset flag -6 restores ab_init_ and dt_init "
    "(captured once, before the level loop), t0 = 0 and ab = ab_tmp_ precede CVodeReInit(cv_mem_, t0, cv_y_), the last sub-step target "
    "canonicalises to dt, and CVode reports progress into t0; R4 odeint: the observer throws when step_ > mxsteps_, the thrown type is the type "
    "Solve catches, the handler sets flag = NAUNET_FAIL, Solve returns flag, integrate_adaptive runs over [0, dt] with that observer; R5 every "
    "caller of Solve inside the templates tests its result (cvode and odeint Python wrappers agree); R6 (premise of R3) cv_y_ has no storage of its own "
    "and is pointed at the caller's array before CVodeInit, so the state HandleError writes is the state CVodeReInit restarts from.")
ASSUMPTIONS = [
    "CVODE's / Boost.Odeint's own behaviour, floating-point exactness of pow(10, log10(dt)) and the scheduling of failures are not decided",
    "DESIGN.md Appendix D gives the invariant whose premises R2/R3 are",
    "the C++ cannot be compiled in this sandbox (no SUNDIALS/Boost/CUDA); the statement parser covers the statement kinds these functions use",
]
ENGINES = ["jmodel", "cskel", "cstmt", "calg"]

CV = "naunet/templates/cvode/src/naunet.cpp.j2"
OD = "naunet/templates/odeint/src/naunet.cpp.j2"
ODE = "naunet/templates/odeint/src/naunet_ode.cpp.j2"


def _ctext(sk, s):
    """C text of a piece of the skeleton: a `{% set %}` emits nothing, a `{{ .. }}` is one opaque token."""
    s = re.sub(f"{OPEN}(\\d+){CLOSE}", lambda m: " " if sk.marks[int(m.group(1))][0] in ("set", "setblock") else " __HOLE__ ", s)
    return sk.plain(s)


def _body(ctx, rel, cfg, fname):
    sk = Skel(J.flatten(ctx.tree, rel, cfg))
    fs = sk.func(fname)
    if not fs:
        return None, None
    text = _ctext(sk, fs[0].body)
    try:
        return cstmt.parse_body(text), text
    except cstmt.CStmtError as ex:
        ctx.unrec("R1", f"{rel.split('/')[-1]}:{fname}", (rel, 0), f"statement parser: {ex}")
        return None, None


def check(ctx):
    ctx.saw(CV), ctx.saw(OD), ctx.saw(ODE)
    _r1(ctx)
    _r2_r3(ctx)
    _r4(ctx)
    _r5(ctx)
    _r6(ctx)


def _r6(ctx):
    """The ladder of HandleError restores / keeps the state by writing the caller's array `ab` and then CVodeReInit(.., cv_y_).
    That reaches the integrator only because cv_y_ has no storage of its own and is pointed at `ab` before CVodeInit: the
    aliasing is a premise of R3 (dense and sparse; the cusparse branch is the listed finding)."""
    for mth in ("dense", "sparse"):
        cfg = {"general.method": mth}
        sk = Skel(J.flatten(ctx.tree, CV, cfg))
        fs = sk.func("Naunet::Solve")
        if not fs:
            ctx.missing("R6", f"cvode/{mth}:Solve", (CV, 0), "Naunet::Solve not found")
            continue
        body = sk.plain(fs[0].body)
        alias = [m.start() for m in re.finditer(r"\bN_VSetArrayPointer\s*\(\s*ab\s*,\s*cv_y_\s*\)", body)]
        init = [m.start() for m in re.finditer(r"\bCVodeInit\s*\(\s*cv_mem_\s*,\s*\w+\s*,\s*\w+\s*,\s*cv_y_\s*\)", body)]
        ok = len(alias) == 1 and len(init) == 1 and alias[0] < init[0]
        ctx.check(ok, "R6", f"cvode/{mth}:Solve:cv_y_ wraps ab", (CV, 0),
                  "N_VSetArrayPointer(ab, cv_y_) precedes CVodeInit(cv_mem_, Fex, t0, cv_y_): what HandleError writes into ab is the integrator's state" if ok else
                  "cv_y_ is not pointed at the caller's array before CVodeInit: HandleError resets `ab` (flag -6: back to ab_init_) but CVodeReInit restarts from cv_y_'s own copy -- "
                  "the interval is integrated from the partially advanced state and Solve reports success",
                  expected="N_VSetArrayPointer(ab, cv_y_); ... CVodeInit(cv_mem_, Fex, t0, cv_y_)", found=f"{len(alias)} aliasing call(s), {len(init)} CVodeInit on cv_y_")
        for fname in ("Naunet::Init", "Naunet::Reset"):
            f2 = sk.func(fname)
            if not f2:
                continue
            b2 = sk.plain(f2[0].body)
            mk = re.findall(r"cv_y_\s*=\s*(\w+)\s*\(", b2)
            ctx.check(bool(mk) and set(mk) == {"N_VNewEmpty_Serial"}, "R6", f"cvode/{mth}:{fname.split('::')[1]}:cv_y_ has no storage of its own", (CV, 0),
                      "cv_y_ is an empty vector (data pointer set per Solve call)", expected="cv_y_ = N_VNewEmpty_Serial(..)", found=str(mk))


def _r1(ctx):
    n = 0
    for mth in ("dense", "sparse", "cusparse"):
        for fname in ("Naunet::Solve", "Naunet::HandleError", "Naunet::Init", "Naunet::Reset"):
            body, _ = _body(ctx, CV, {"general.method": mth}, fname)
            if body is None:
                if fname in ("Naunet::Solve", "Naunet::HandleError"):
                    ctx.missing("R1", f"cvode/{mth}:{fname}", (CV, 0), "function not found")
                continue
            n += 1
            probs = cstmt.unchecked_flags(body, lambda c: c.startswith("CVode") and not c.startswith("CVodeCreate") and not c.startswith("CVodeFree"))
            key = f"cvode/{mth}:{fname}"
            if not probs:
                ncalls = sum(1 for s, c in cstmt.walk(body) if s[0] == "expr" and cstmt.assigned_call(s[1]) and cstmt.assigned_call(s[1])[1].startswith("CVode"))
                ctx.ok("R1", key, (CV, 0), f"every status of the {ncalls} CVode* calls is tested before it is overwritten or the function returns")
            for var, callee, how in probs:
                ctx.bad("R1", f"{key}:{callee}", (CV, 0),
                        f"the status `{var}` returned by {callee}(..) is {how}: a failed integration is reported as success",
                        expected=f"CheckFlag(&{var}, ..) / HandleError({var}, ..) / a comparison on every path", found=f"{var} = {callee}(..) then {how}")
    ctx.floor("R1", "driver functions", n, 9)


def _strip_casts(s):
    return re.sub(r"\(\s*(realtype|double|float|int)\s*\)", "", s)


def _r2_r3(ctx):
    for mth in ("dense", "sparse"):
        label = f"cvode/{mth}"
        body, text = _body(ctx, CV, {"general.method": mth}, "Naunet::HandleError")
        if body is None:
            ctx.missing("R2", f"{label}:HandleError", (CV, 0), "HandleError not found")
            continue
        stmts = list(cstmt.walk(body))
        # ---------------- R2: guarded success
        rets = [(s, c) for s, c in stmts if s[0] == "return"]
        vals = {cstmt.norm(s[1]) for s, c in rets}
        ctx.check(vals <= {"NAUNET_SUCCESS", "NAUNET_FAIL"}, "R2", f"{label}:HandleError:return values", (CV, 0), "every exit returns NAUNET_SUCCESS or NAUNET_FAIL", found=str(sorted(vals)))
        nsucc = 0
        for s, c in rets:
            if cstmt.norm(s[1]) != "NAUNET_SUCCESS":
                continue
            nsucc += 1
            guards = [cstmt.norm(g[1]) for g in c if g[0] == "if" and g[2]]
            ok = any(g in ("cvflag>=0", "0<=cvflag", "cvflag>-1") for g in guards)
            ctx.check(ok, "R2", f"{label}:HandleError:success#{nsucc} guarded", (CV, 0),
                      "success is returned only under `cvflag >= 0`" if ok else "a `return NAUNET_SUCCESS` is reachable without the test `cvflag >= 0` on the last integrator flag",
                      expected="if (cvflag >= 0) { .. return NAUNET_SUCCESS; }", found=str(guards))
        ctx.check(nsucc == 2, "R2", f"{label}:HandleError:success exits", (CV, 0), "success exits: at entry (nothing to repair) and after a completed level", found=str(nsucc))
        # the last statement of the function is the failure return
        last = body[1][-1]
        ctx.check(last[0] == "return" and cstmt.norm(last[1]) == "NAUNET_FAIL", "R2", f"{label}:HandleError:falls through to failure", (CV, 0),
                  "when all levels are exhausted the function returns NAUNET_FAIL", found=cstmt.txt(last[1]) if last[0] == "return" else last[0])
        # no assignment to cvflag between the success test and the return, inside that if
        for s, c in stmts:
            if s[0] == "if" and cstmt.norm(s[1]) == "cvflag>=0":
                inner = [x for x, _ in cstmt.walk(s[2]) if x[0] == "expr" and x[1][:2] == ["cvflag", "="]]
                ctx.check(not inner, "R2", f"{label}:HandleError:flag unchanged before success", (CV, 0), "the tested flag is the one returned on")
        # ---------------- R3 premises
        level_loops = [(s, c) for s, c in stmts if s[0] == "for" and "level" in s[1]]
        ctx.check(len(level_loops) == 1, "R3", f"{label}:level loop", (CV, 0), "one recovery ladder `for (int level = 1; level < 6; level++)`", found=str(len(level_loops)))
        if len(level_loops) != 1:
            continue
        loop, lconds = level_loops[0]
        lcond = cstmt.norm(loop[2])
        ctx.check(cstmt.norm(loop[1]) == "intlevel=1" and lcond == "level<6" and cstmt.norm(loop[3]) in ("level++", "++level", "level+=1"), "R3", f"{label}:five levels", (CV, 0),
                  "levels 1..5", found=f"{cstmt.txt(loop[1])}; {cstmt.txt(loop[2])}; {cstmt.txt(loop[3])}")
        # dt_init captured once, before the loop
        decl = [(s, c) for s, c in stmts if s[0] == "expr" and "dt_init" in s[1] and "=" in s[1] and s[1][s[1].index("=") - 1] == "dt_init"]
        in_loop = {id(x) for x, _ in cstmt.walk(loop[4])}
        ok = len(decl) == 1 and id(decl[0][0]) not in in_loop and cstmt.norm(decl[0][0][1]).endswith("dt_init=dt") and not any(g[0] in ("for", "while") for g in decl[0][1])
        ctx.check(ok, "R3", f"{label}:dt_init captured once before the ladder", (CV, 0),
                  "dt_init = dt is taken once, before any level changes dt" if ok else
                  "dt_init is (re)assigned inside the level loop: after a recoverable failure has shortened dt, a later reset (-6) restores the shortened value and part of the "
                  "interval is skipped while success is returned",
                  expected="realtype dt_init = dt;  before `for (int level ..`", found="; ".join(cstmt.txt(s[1]) + (" [inside the loop]" if id(s) in in_loop else "") for s, c in decl))
        lb = loop[4]
        # the if / else-if chain on cvflag
        chain = [s for s in (lb[1] if lb[0] == "block" else [lb]) if s[0] == "if"]
        branches = {}
        if chain:
            st = chain[0]
            while st is not None and st[0] == "if":
                branches[cstmt.norm(st[1])] = st[2]
                st = st[3]
        rec = next((b for c, b in branches.items() if c in ("cvflag<0&&cvflag>-5", "cvflag>-5&&cvflag<0", "cvflag>=-4&&cvflag<0", "cvflag<0&&cvflag>=-4")), None)
        rst = next((b for c, b in branches.items() if c in ("cvflag==-6", "-6==cvflag")), None)
        unr = next((b for c, b in branches.items() if c == "cvflag<0"), None)
        ctx.check(rec is not None, "R3", f"{label}:recoverable flags", (CV, 0), "flags -1..-4 are the recoverable set", expected="cvflag < 0 && cvflag > -5", found=str(sorted(branches)))
        ctx.check(rst is not None, "R3", f"{label}:reset flag", (CV, 0), "flag -6 is the reset flag", expected="cvflag == -6", found=str(sorted(branches)))
        ctx.check(unr is not None and any(x[0] == "return" and cstmt.norm(x[1]) == "NAUNET_FAIL" for x, _ in cstmt.walk(unr)), "R3", f"{label}:other flags fail", (CV, 0),
                  "any other negative flag leaves with NAUNET_FAIL")

        def has(block, pats):
            exprs = [cstmt.norm(x[1]) for x, _ in cstmt.walk(block) if x[0] == "expr"]
            return all(any(re.fullmatch(p, e) for e in exprs) for p in pats), exprs
        if rec is not None:
            ok, ex = has(rec, [r"dt-=t0|dt=dt-t0", r"ab_tmp_\[i\]=ab\[i\]"])
            ctx.check(ok, "R3", f"{label}:recoverable branch", (CV, 0), "keeps the reached state (ab_tmp_ <- ab) and the time still to integrate (dt <- dt - t0)",
                      expected="ab_tmp_[i] = ab[i]; dt -= t0;", found="; ".join(ex))
        if rst is not None:
            ok, ex = has(rst, [r"dt=dt_init", r"ab_tmp_\[i\]=ab_init_\[i\]"])
            ctx.check(ok, "R3", f"{label}:reset branch", (CV, 0), "restores the initial state and the full interval", expected="ab_tmp_[i] = ab_init_[i]; dt = dt_init;", found="; ".join(ex))
        # order inside the level body: t0 = 0; ab = ab_tmp_; CVodeReInit(cv_mem_, t0, cv_y_)
        flat = [(x, c) for x, c in cstmt.walk(lb)]
        seq = [cstmt.norm(x[1]) for x, c in flat if x[0] == "expr"]

        def pos(p):
            return next((i for i, e in enumerate(seq) if re.fullmatch(p, e)), -1)
        p_t0, p_ab, p_re = pos(r"t0=0(\.0*)?"), pos(r"ab\[i\]=ab_tmp_\[i\]"), pos(r"cvflag=CVodeReInit\(cv_mem_,t0,cv_y_\)")
        ctx.check(0 <= p_t0 < p_re and 0 <= p_ab < p_re, "R3", f"{label}:re-initialisation", (CV, 0),
                  "t0 = 0 and ab = ab_tmp_ are installed before CVodeReInit(cv_mem_, t0, cv_y_)", found=f"t0@{p_t0} ab@{p_ab} reinit@{p_re}")
        # sub-step target
        env = {}
        tout = None
        for e in seq:
            e2 = _strip_casts(e)
            m = re.fullmatch(r"(?:realtype|double)?(\w+)=(.+)", e2)
            m2 = re.fullmatch(r"(\w+)\+=(.+)", e2)
            if m2:
                env[m2.group(1)] = f"({env.get(m2.group(1), m2.group(1))})+({m2.group(2)})"
            elif m and m.group(1) in ("logdt", "expo", "tout"):
                env[m.group(1)] = m.group(2)
        ok = False
        found = str(env)
        try:
            if "tout" in env:
                expr = env["tout"]
                for _ in range(4):
                    for k, v in env.items():
                        if k != "tout":
                            expr = re.sub(r"\b" + k + r"\b", f"({v})", expr)
                expr = re.sub(r"\bstep\b", "nsubsteps", _strip_casts(expr))
                c = calg.canon_str(expr)
                ok = c.equiv(calg.canon_str("dt"))
                found = f"{expr} -> {c.show()}"
        except calg.CParseError as ex:
            found = f"{ex}"
        ctx.check(ok, "R3", f"{label}:last sub-step reaches dt", (CV, 0), "with step = nsubsteps the target pow(10, expo) canonicalises to dt (the level integrates the whole remaining time)",
                  expected="dt", found=found[:200])
        calls = [cstmt.assigned_call(x[1]) for x, c in flat if x[0] == "expr" and cstmt.assigned_call(x[1])]
        cv = [a for a in calls if a[1] == "CVode"]
        ok = len(cv) == 1 and cv[0][0] == "cvflag" and [cstmt.norm(a) for a in cv[0][2]] == ["cv_mem_", "tout", "cv_y_", "&t0", "CV_NORMAL"]
        ctx.check(ok, "R3", f"{label}:CVode call", (CV, 0), "cvflag = CVode(cv_mem_, tout, cv_y_, &t0, CV_NORMAL): progress is reported into t0", found=str([cstmt.norm(a) for a in cv[0][2]]) if cv else "")
        # ---------------- Solve
        sb, _ = _body(ctx, CV, {"general.method": mth}, "Naunet::Solve")
        if sb is None:
            continue
        sst = list(cstmt.walk(sb))
        exprs = [cstmt.norm(x[1]) for x, c in sst if x[0] == "expr"]
        he = next((i for i, e in enumerate(exprs) if re.fullmatch(r"intflag=HandleError\(cvflag,ab,dt,t0\)", e)), -1)
        cvi = next((i for i, e in enumerate(exprs) if re.fullmatch(r"cvflag=CVode\(cv_mem_,dt,cv_y_,&t0,CV_NORMAL\)", e)), -1)
        ctx.check(0 <= cvi < he, "R2", f"{label}:Solve:HandleError receives the flag", (CV, 0), "flag = HandleError(cvflag, ab, dt, t0) right after cvflag = CVode(cv_mem_, dt, cv_y_, &t0, ..)",
                  found=f"CVode@{cvi} HandleError@{he}")
        rets = [cstmt.norm(x[1]) for x, c in sst if x[0] == "return"]
        ctx.check(rets and rets[-1] == "flag" and set(rets) <= {"flag", "NAUNET_FAIL"}, "R2", f"{label}:Solve:returns HandleError's result", (CV, 0), "Solve returns `flag`", found=str(rets))
        logs = [(x, c) for x, c in sst if x[0] == "expr" and "ab_init_" in x[1] and "fprintf" in x[1]]
        ok = bool(logs) and all(any(g[0] == "if" and cstmt.norm(g[1]) == "flag==NAUNET_FAIL" and g[2] for g in c) for x, c in logs)
        ctx.check(ok, "R2", f"{label}:Solve:initial state logged on failure", (CV, 0), "ab_init_ is written to the error file exactly under `flag == NAUNET_FAIL`")
        init = next((i for i, e in enumerate(exprs) if e == "ab_init_[i]=ab[i]"), -1)
        ctx.check(0 <= init < cvi, "R3", f"{label}:Solve:initial state saved", (CV, 0), "ab_init_ (and ab_tmp_) are copies of the state taken before the first CVode call")


def _r4(ctx):
    ob, _ = _body(ctx, ODE, {}, "Observer::operator()")
    if ob is None:
        ctx.missing("R4", "Observer::operator()", (ODE, 0), "observer not found")
        return
    thrown = None
    for s, c in cstmt.walk(ob):
        if s[0] == "throw":
            guards = [cstmt.norm(g[1]) for g in c if g[0] == "if" and g[2]]
            ok = guards in (["step_>mxsteps_"], ["mxsteps_<step_"])
            ctx.check(ok, "R4", "Observer:budget test", (ODE, 0), "throws exactly when step_ > mxsteps_", expected="if (step_ > mxsteps_) throw ..", found=str(guards))
            m = re.match(r"(std::\w+)", "".join(s[1]))
            thrown = m.group(1) if m else "".join(s[1])[:40]
    inc = any(s[0] == "expr" and cstmt.norm(s[1]) in ("step_+=1", "step_++", "++step_", "step_=step_+1") and not [g for g in c if g[0] == "if"] for s, c in cstmt.walk(ob))
    ctx.check(inc, "R4", "Observer:counts every step", (ODE, 0), "step_ is incremented on every observer call, unconditionally")
    ctx.check(thrown is not None, "R4", "Observer:throws", (ODE, 0), "exceeding the budget raises an exception")
    sb, _ = _body(ctx, OD, {}, "Naunet::Solve")
    if sb is None:
        ctx.missing("R4", "odeint Solve", (OD, 0), "Solve not found")
        return
    tries = [s for s, c in cstmt.walk(sb) if s[0] == "try"]
    ok = False
    found = ""
    if len(tries) == 1:
        t = tries[0]
        inside = ["".join(x[1]) for x, _ in cstmt.walk(t[1]) if x[0] == "expr"]
        integ = [e for e in inside if "integrate_adaptive(" in e]
        caught = ["".join(d) for d, b in t[2]]
        found = f"catch {caught}; thrown {thrown}"
        types = [re.sub(r"^const|&\w*$|\w+$", "", c).strip("& ") for c in caught]
        handler_sets = any(any(x[0] == "expr" and cstmt.norm(x[1]) == "flag=NAUNET_FAIL" for x, _ in cstmt.walk(b)) for d, b in t[2])
        type_ok = thrown is not None and any(thrown in c or "std::exception" in c or c == "..." for c in caught)
        ok = bool(integ) and type_ok and handler_sets
        ctx.check(type_ok, "R4", "Solve catches what the observer throws", (OD, 0),
                  f"the observer throws {thrown}, which the handler catches" if type_ok else
                  f"the observer throws `{thrown}` but Solve only catches {caught}: exceeding the step budget escapes Solve instead of returning NAUNET_FAIL",
                  expected=f"catch (const {thrown} &e)", found=str(caught))
        ctx.check(handler_sets, "R4", "handler sets failure", (OD, 0), "the handler sets flag = NAUNET_FAIL")
        if integ:
            e = integ[0]
            args_ok = re.search(r",y,0(\.0*)?,dt,dt,observer\)$", e) is not None and "step_=integrate_adaptive(" in e
            ctx.check(args_ok, "R4", "integrate over [0, dt] with the observer", (OD, 0), "integrate_adaptive(.., y, 0.0, dt, dt, observer)", found=e[-60:])
    else:
        ctx.bad("R4", "Solve:try", (OD, 0), f"expected one try block around the integration, found {len(tries)}")
    rets = [cstmt.norm(x[1]) for x, c in cstmt.walk(sb) if x[0] == "return"]
    ctx.check(rets == ["flag"], "R4", "odeint Solve returns flag", (OD, 0), "Solve returns the flag the handler may have set", found=str(rets))
    init = [cstmt.norm(x[1]) for x, c in cstmt.walk(sb) if x[0] == "expr" and x[1][:3] == ["int", "flag", "="]]
    ctx.check(init == ["intflag=NAUNET_SUCCESS"], "R4", "odeint Solve: flag starts as success", (OD, 0), "flag is NAUNET_SUCCESS unless the handler ran", found=str(init))
    obs = any("".join(x[1]) == "Observerobserver(mxsteps_)" for x, c in cstmt.walk(sb) if x[0] == "expr")
    ctx.check(obs, "R4", "observer gets the step budget", (OD, 0), "Observer observer(mxsteps_)")


def _r5(ctx):
    for label, rel, cfg in (("cvode", CV, {"general.method": "dense"}), ("odeint", OD, {})):
        wb, _ = _body(ctx, rel, cfg, "Naunet::PyWrapSolve")
        if wb is None:
            ctx.missing("R5", f"{label}:PyWrapSolve", (rel, 0), "wrapper not found")
            continue
        stmts = list(cstmt.walk(wb))
        call = [x for x, c in stmts if x[0] == "expr" and "Solve" in x[1]]
        stored = [cstmt.assigned_call(x[1]) for x in call]
        var = stored[0][0] if stored and stored[0] else None
        tested = var is not None and any(x[0] == "if" and var in x[1] and "NAUNET_FAIL" in x[1] and any(y[0] == "throw" for y, _ in cstmt.walk(x[2])) for x, c in stmts)
        ctx.check(bool(tested), "R5", f"{label}:PyWrapSolve tests Solve", (rel, 0),
                  "the Python wrapper raises when Solve returns NAUNET_FAIL" if tested else
                  "the Python wrapper drops the result of Solve: a failed integration returns the unfinished state as if it had succeeded",
                  expected="int flag = Solve(..); if (flag == NAUNET_FAIL) throw ..", found="; ".join(cstmt.txt(x[1]) for x in call))


MUTANTS = [
    {"name": "cv_y-own-storage-copy-in", "file": CV, "old": "    N_VSetArrayPointer(ab, cv_y_);\n", "new": "    realtype *ydata = N_VGetArrayPointer(cv_y_);\n    for (int i = 0; i < NEQUATIONS; i++) ydata[i] = ab[i];\n", "rules": ["R6"]},
    {"name": "dt-minus-t0-deleted", "file": CV, "old": "            dt -= t0;\n", "new": "", "rules": ["R3"]},
    {"name": "reset-keeps-dt", "file": CV, "old": "            dt = dt_init;\n", "new": "            dt = dt;\n", "rules": ["R3"]},
    {"name": "recoverable-set-shrunk", "file": CV, "old": "if (cvflag < 0 && cvflag > -5) {", "new": "if (cvflag < 0 && cvflag > -4) {", "rules": ["R3"]},
    {"name": "odeint-catch-does-not-fail", "file": OD, "old": "        flag = NAUNET_FAIL;\n", "new": "", "rules": ["R4"]},
    {"name": "observer-off-by-one", "file": ODE, "old": "if (step_ > mxsteps_) {", "new": "if (step_ > mxsteps_ + 1) {", "rules": ["R4"]},
    {"name": "success-after-ladder", "file": CV, "old": "    /* {% endif -%} */\n\n    return NAUNET_FAIL;\n}\n\nint Naunet::Init", "new": "    /* {% endif -%} */\n\n    return NAUNET_SUCCESS;\n}\n\nint Naunet::Init", "rules": ["R2"]},
    {"name": "dt-init-inside-loop", "edits": [
        {"file": CV, "old": "    realtype dt_init = dt;\n\n    for (int level = 1; level < 6; level++) {\n        int nsubsteps = 10 * level;\n", "new": "    for (int level = 1; level < 6; level++) {\n        int nsubsteps = 10 * level;\n        realtype dt_init = dt;\n"}], "rules": ["R3"]},
    {"name": "observer-throws-other-type", "file": ODE, "old": "throw std::runtime_error(err);", "new": "throw std::length_error(err);", "rules": ["R4"]},
    {"name": "solve-ignores-handleerror", "file": CV, "old": "    CVodeFree(&cv_mem_);\n\n    return flag;", "new": "    CVodeFree(&cv_mem_);\n\n    return NAUNET_SUCCESS;", "rules": ["R2"]},
    {"name": "tret-not-t0", "file": CV, "old": "            cvflag        = CVode(cv_mem_, tout, cv_y_, &t0, CV_NORMAL);", "new": "            realtype tret;\n            cvflag        = CVode(cv_mem_, tout, cv_y_, &tret, CV_NORMAL);", "rules": ["R3"]},
    {"name": "substep-target-short", "file": CV, "old": "expo += (realtype)level * (realtype)step / (realtype)nsubsteps;", "new": "expo += (realtype)level * (realtype)(step - 1) / (realtype)nsubsteps;", "rules": ["R3"]},
    {"name": "reinit-flag-dropped", "file": CV, "old": "        cvflag = CVodeReInit(cv_mem_, t0, cv_y_);\n        if (CheckFlag(&cvflag, \"CVodeReInit\", 1, errfp_) == NAUNET_FAIL) {\n            return NAUNET_FAIL;\n        }\n", "new": "        cvflag = CVodeReInit(cv_mem_, t0, cv_y_);\n", "rules": ["R1"]},
    {"name": "odeint-wrapper-drops-flag", "file": OD, "old": "    int flag             = Solve(abund, dt, data);\n    if (flag == NAUNET_FAIL) {\n        throw std::runtime_error(\"Something unrecoverable occurred\");\n    }\n\n    return py::array_t<double>(info.shape, abund);", "new": "    Solve(abund, dt, data);\n\n    return py::array_t<double>(info.shape, abund);", "rules": ["R5"]},
]
BENIGN = [
    {"name": "dt-assign-form", "file": CV, "old": "            dt -= t0;\n", "new": "            dt = dt - t0;\n"},
]
