"""C14 -- network contents stay consistent under edit histories (cache invariant by construction + CLI wiring)."""
from __future__ import annotations

import ast
import re

from ..core import AnalysisError
from ..pymodel import package
from ..valueflow import Flow, as_map, match, V, show, simp, walk

EXPLANATION = (
    "R1 paired update: in every method of Network that changes self.reaction_list (append, pop, re-assignment), the cached sets _reactants and "
    "_products are updated or rebuilt on every path on which the list changes, and nothing outside Network assigns reaction_list / _reactants / "
    "_products / _skipped_reactions; R2 filter: in _add_reaction the append is reached only when the allowed list is empty or ALL of reactants + "
    "products are members of it (Species equality, so spellings of one species agree), a rejected reaction is kept in _skipped_reactions, and the "
    "allowed_species setter clears all three caches and re-examines reaction_list + _skipped_reactions through add_reaction; R3 command wiring: "
    "every option / argument name the five commands read (literal or f-string with a finite expansion) is declared by that command; R4 the caches "
    "are read, not recomputed differently: species / find_source_sink / grain_groups derive from _reactants, _products and the declared extra "
    "species only; R5 removal by positions removes exactly those positions and the de-duplicating callers pass positions (shared with C15.R4); "
    "R6 every property view of Network is recomputed on each read, or, if it memoises, every method that writes one of its inputs resets the memo; "
    "R7 no command installs a persistent allowed_species filter on a network it goes on adding reactions to; R8 no reaction is lost before it reaches "
    "the filter: the pre-processing hook the formats inherit from Reaction returns every line it is given (shared with C07.R1).")
ASSUMPTIONS = [
    "equivalence with a reference model after arbitrary histories (order of reactions after re-filtering, identity of removed duplicates) is not decided",
]
ENGINES = ["pymodel", "valueflow"]

NF = "naunet/network.py"
SELF = ("param", "self")
RL = ("attr", SELF, "reaction_list")
CACHES = ("_reactants", "_products")
COMMANDS = ["InitCommand", "RenderCommand", "ExampleCommand", "ExtendCommand", "NewCommand"]


def check(ctx):
    pkg = package(ctx.tree)
    _r1(ctx, pkg)
    _r2(ctx, pkg)
    _r3(ctx, pkg)
    _r4(ctx, pkg)
    # removal by a list of positions removes exactly those positions (shared with C15.R4)
    from .c15 import _r4 as removal_rule, _r4_callers
    removal_rule(ctx, pkg, "R5")
    _r4_callers(ctx, pkg, "R5")
    _r6(ctx, pkg)
    _r7(ctx, pkg)
    # "it holds every added reaction whose species are all allowed": a reaction handed over as text reaches the filter of _add_reaction
    # only if the line survives the format's pre-processing -- the base hook every format but KROME inherits keeps EVERY line
    # (a line beginning with the surface prefix '#' is a reaction, not a comment).  Shared with C07.R1.
    from .c07 import _r1 as line_flow
    from ..core import AnalysisError

    def identity_only(sub):
        try:
            line_flow(sub, package(sub.tree))
        except AnalysisError as e:
            # another obligation of C07.R1 lost its anchor: C07's business -- unless the base hook itself was never reached
            if not any(o.key == "Reaction.preprocessing:identity" for o in sub.obs):
                sub.unrec("R1", "Reaction.preprocessing:identity", e.where or ("naunet/reactions/reaction.py", 0), f"the base pre-processing hook could not be read: {e}")
    ctx.absorb(identity_only, "R8", only=lambda o: o.key == "Reaction.preprocessing:identity" and o.outcome != "MISSING")


def _aliases(fl, attr_ir):
    """locals that are only ever bound to the given attribute of self (`pool = self.reaction_list`): the same object under another
    name -- what is done to the local in place is done to the attribute"""
    return {name for name, lst in fl.assigns.items() if lst and all(simp(v) == attr_ir for v, *_ in lst)}


def _appends_to(fl, attr_ir):
    """[(fact, appended value)] for `self.<attr>.append(x)`, also through a local alias of the attribute"""
    al = _aliases(fl, attr_ir)
    out = []
    for f in fl.facts:
        if f.kind == "call" and f.target == "append" and f.value and f.value[0] == "meth" and simp(f.value[1]) == attr_ir and len(f.value[3]) == 1:
            out.append((f, simp(f.value[3][0])))
        elif f.kind == "append" and f.op == "append" and f.target in al:
            out.append((f, simp(f.value)))
    return out


def _mutations(fl):
    out = []
    al = _aliases(fl, RL)
    for f in fl.facts:
        if f.kind in ("append", "remove", "mutate") and f.target in al:
            out.append((f.op, f))
        elif (f.kind in ("store", "augstore") and f.target in al) or (f.kind == "delete" and f.target.split("[")[0].strip() in al and "[" in f.target):
            out.append(("del" if f.kind == "delete" else "item", f))
        if f.kind == "attrstore" and f.target == "reaction_list" and f.extra.get("obj") == SELF:
            out.append(("assign", f))
        elif f.kind == "call" and f.value and f.value[0] == "meth" and f.value[1] == RL and f.target in ("append", "pop", "remove", "clear", "extend", "insert", "sort", "reverse"):
            out.append((f.target, f))
        elif f.kind == "delete" and "reaction_list" in f.target:
            out.append(("del", f))
    return out


def _cache_updates(fl, pkg):
    """facts that (re)establish a cache: {cache: [fact]}; a call of self.add_reaction/_add_reaction counts for both."""
    out = {c: [] for c in CACHES}
    al = {name: c for c in CACHES for name in _aliases(fl, ("attr", SELF, c))}
    for f in fl.facts:
        if f.kind in ("append", "mutate") and f.target in al and f.op in ("update", "add", "clear"):
            out[al[f.target]].append(f)
        if f.kind == "attrstore" and f.target in CACHES and f.extra.get("obj") == SELF:
            out[f.target].append(f)
        elif f.kind == "call" and f.value and f.value[0] == "meth":
            obj = f.value[1]
            if obj[0] == "attr" and obj[1] == SELF and obj[2] in CACHES and f.target in ("update", "add", "clear", "difference_update", "discard"):
                out[obj[2]].append(f)
            if obj == SELF and f.target in ("add_reaction", "_add_reaction", "add_reaction_from_file"):
                for c in CACHES:
                    out[c].append(f)
    return out


def _cache_growth(f, al=None):
    """(cache, what is added) when the fact adds members to a cached set of self: `.update(X)`, `|= X`, `= self.<cache> | X`,
    `= self.<cache>.union(X)`; else None.  al: {local name: cache} for locals that alias a cache"""
    if al and f.kind == "mutate" and f.target in al and f.op == "update" and f.value is not None:
        return al[f.target], simp(f.value)
    if f.kind == "call" and f.target == "update" and f.value and f.value[0] == "meth" and f.value[1][0] == "attr" and f.value[1][1] == SELF \
            and f.value[1][2] in CACHES and len(f.value[3]) == 1:
        return f.value[1][2], simp(f.value[3][0])
    if f.kind == "attrstore" and f.target in CACHES and f.extra.get("obj") == SELF:
        own = ("attr", SELF, f.target)
        v = simp(f.value)
        if f.op == "BitOr":
            return f.target, v
        if f.op == "=" and v[0] == "binop" and v[1] == "BitOr" and own in (v[2], v[3]):
            return f.target, v[3] if v[2] == own else v[2]
        if f.op == "=" and v[0] == "meth" and v[1] == own and v[2] == "union" and len(v[3]) == 1:
            return f.target, v[3][0]
    return None


def _concat_operands(v):
    """the sequences a new list is the concatenation of, whatever the spelling: `a + b`, `[*a, *b]`, `list(chain(a, b))`, with
    list(..) / tuple(..) / .copy() / [:] of an operand being that operand"""
    from .c09 import _is_chain, _unwrap_seq
    v = _unwrap_seq(v)
    if v[0] == "sub" and v[2] == ("slice", ("const", None), ("const", None), ("const", None)):
        return _concat_operands(v[1])
    if v[0] == "binop" and v[1] == "Add":
        return _concat_operands(v[2]) + _concat_operands(v[3])
    if v[0] in ("list", "tuple") and v[1] and all(e[0] == "star" for e in v[1]):
        return [o for e in v[1] for o in _concat_operands(e[1])]
    ch = _is_chain(v)
    if ch is not None:
        return [o for a in ch for o in _concat_operands(a)]
    return [v]


def _flat_and(g):
    if g[0] == "bool" and g[1] == "And":
        out = []
        for x in g[2]:
            out.extend(_flat_and(x))
        return out
    return [g]


def _covers(update, mutation):
    """the update executes whenever the mutation does: every guard of the update is a guard of the mutation, or is
    the negated exit condition of a chain one of whose arms the mutation sits in."""
    from ..valueflow import guards_imply
    # `if new: cache.update(new)` -- an update skipped only when there is nothing to add -- is an update on every path
    added = None
    if update.kind == "call" and update.target in ("update", "add") and update.value and len(update.value[3]) == 1:
        added = simp(update.value[3][0])
    elif update.kind in ("mutate", "append") and update.value is not None:
        added = simp(update.value)
    elif update.kind == "attrstore" and update.op == "BitOr":
        added = simp(update.value)
    need = [(c, p) for c, p in update.guards if not (p and added is not None and simp(c) == added)]
    return guards_imply(mutation.guards, need)


def _r1(ctx, pkg):
    ci = pkg.cls("Network")
    n = 0
    judged = set()
    # helper PROCEDURES of the class are expanded where they are called (`self._rebuild_caches()` is the statements it holds); the
    # adders stay calls: they are the cache-maintaining primitives _cache_updates knows
    def procs(name):
        return None if name in ("add_reaction", "_add_reaction", "add_reaction_from_file") else pkg.resolve("Network", name)[1]
    ADDERS = ("add_reaction", "_add_reaction", "add_reaction_from_file")

    def calls_of(fn_, name):
        return [c for c in ast.walk(fn_) if isinstance(c, ast.Call) and isinstance(c.func, ast.Attribute) and c.func.attr == name
                and isinstance(c.func.value, ast.Name) and c.func.value.id in ("self", "cls")]
    for mname, fn in ci.methods.items():
        # statement helpers that hand a result back (`return self._record(r)`, `a, b = self._scan(x)`) are put back as well
        try:
            efn = pkg.expanded("Network", mname, keep=ADDERS)
        except Exception:
            efn = fn
        fl = Flow(efn, NF, proc_resolver=procs)
        muts = _mutations(fl)
        if not muts:
            continue
        ctx.saw(NF, f"Network.{mname}")
        ups = _cache_updates(fl, pkg)
        # a private step of a pipeline (`self._store(r)` appends, `self._note_species(r)` updates the caches) is judged where the
        # pipeline is assembled: in every method that calls it, with the step put back in place
        callers = [(cn, cf) for cn, cf in ci.methods.items() if cf is not fn and calls_of(cf, mname)] if mname.startswith("_") and not mname.startswith("__") and mname not in ADDERS else []
        for kind, m in muts:
            missing = [c for c in CACHES if not any(_covers(u, m) for u in ups[c])]
            key = f"Network.{mname}:{kind}@{' & '.join(('' if p else 'not ') + show(simp(g))[:40] for g, p in m.guards) or 'always'}"
            if missing and callers:
                left = []
                for cn, cf in callers:
                    try:
                        if calls_of(pkg.expanded("Network", cn, keep=ADDERS), mname):
                            left.append(cn)
                    except Exception:
                        left.append(cn)
                if left:
                    ctx.unrec("R1", key, (NF, m.line), f"`{mname}` changes self.reaction_list without updating {missing}; it is a step of {left}, where it could not be put back in place to see whether the caller completes the update")
                continue            # judged as part of each caller (the step is expanded there)
            n += 1
            judged.add(mname)
            if missing:
                # the network itself (or one of the cached sets) is handed to code that is not read here -- a module-level function, a
                # helper of the class that was not put back in place: whether the update happens there is not known (never a verdict)
                handed = [c for c in ast.walk(efn) if isinstance(c, ast.Call) and not (isinstance(c.func, ast.Attribute) and c.func.attr in ADDERS)
                          and (any(isinstance(a, ast.Name) and a.id == "self" for a in list(c.args) + [k.value for k in c.keywords])
                               or any(isinstance(a, ast.Attribute) and isinstance(a.value, ast.Name) and a.value.id == "self" and a.attr in CACHES for a in list(c.args) + [k.value for k in c.keywords])
                               or (isinstance(c.func, ast.Attribute) and isinstance(c.func.value, ast.Name) and c.func.value.id == "self" and pkg.resolve("Network", c.func.attr)[1] is not None
                                   and any(a in _self_writes(pkg.resolve("Network", c.func.attr)[1]) for a in CACHES)))]
                if handed:
                    ctx.unrec("R1", key, (NF, m.line), f"self.reaction_list is changed here ({kind}); {missing} may be updated by `{ast.unparse(handed[0])[:60]}`, which this rule does not read")
                    continue
            ctx.check(not missing, "R1", key, (NF, m.line),
                      "the cached species sets are updated on this path" if not missing else
                      f"self.reaction_list is changed here ({kind}) but {missing} are neither updated nor rebuilt on this path: "
                      "species / sources / sinks keep the species of reactions that are gone",
                      expected="update or rebuild of self._reactants and self._products", found=f"{kind} of reaction_list only")
    # (counted per METHOD: how many statements a method spreads its edit over -- one rebuild per kind of argument, or one rebuild
    # with the test chosen beforehand -- is spelling; today: _add_reaction, remove_reaction, the allowed_species setter)
    ctx.floor("R1", "methods that change reaction_list", len(judged), 3)
    # nobody outside Network writes the caches
    outside = []
    own = {id(n_) for n_ in ast.walk(ci.node)}        # statements of Network's own methods, whatever the receiver is called
    for f in pkg.files:
        mod = pkg.modules[f]
        for node in ast.walk(mod):
            if id(node) in own:
                continue
            tgts = []
            if isinstance(node, ast.Assign):
                tgts = node.targets
            elif isinstance(node, ast.AugAssign):
                tgts = [node.target]
            for t in tgts:
                if isinstance(t, ast.Attribute) and t.attr in ("reaction_list", "_reactants", "_products", "_skipped_reactions"):
                    owner = ast.unparse(t.value)
                    # `self.<attr>` inside another class is that class's own attribute (ThermalProcess._reactants)
                    if owner != "self":
                        outside.append((f, node.lineno, ast.unparse(t)))
    ctx.check(not outside, "R1", "writers outside Network", (outside[0][0], outside[0][1]) if outside else (NF, 0),
              "only Network's own methods assign reaction_list and its caches", found=str(outside[:3]))


def _r2(ctx, pkg):
    fn = pkg.method("Network", "_add_reaction")
    ctx.saw(NF, "Network._add_reaction")
    # the steps may sit in helper methods (conversion, the filter predicate, the recording of an admitted reaction): statement
    # helpers are put back where they are called, value / predicate helpers are followed by the flow
    fn = pkg.expanded("Network", "_add_reaction")
    fl = Flow(fn, NF, resolver=lambda name: pkg.resolve("Network", name)[1])
    app = _appends_to(fl, RL)
    skipped = _appends_to(fl, ("attr", SELF, "_skipped_reactions"))
    skip = [f for f, _ in skipped]
    if len(app) != 1:
        ctx.unrec("R2", "_add_reaction:append", (NF, fn.lineno), f"expected one append to reaction_list, found {len(app)}")
        return
    a, reac = app[0]
    ALLOWED = ("attr", SELF, "_allowed_species")

    def all_test(x):
        """+1 for all([rp in self._allowed_species for rp in reactants + products]), -1 for its negation written
        any([rp not in self._allowed_species for ..]) (the parser's canonical form of `not all(..)`), else 0"""
        for fn_, op_, sign in (("all", "In", 1), ("any", "NotIn", -1)):
            b = match(("call", ("global", fn_), (V("c"),), ()), x)
            if not b:
                continue
            m = as_map(b["c"])
            if not m:
                continue
            bv, body, base, ifs = m
            want_base = ("binop", "Add", ("attr", reac, "reactants"), ("attr", reac, "products"))
            if body == ("cmp", (op_,), (bv, ALLOWED)) and not ifs and base in (want_base, ("binop", "Add", want_base[3], want_base[2])):
                return sign
        return 0

    def is_all_test(x):
        return all_test(x) != 0
    dominated = False
    detail = ""

    def only_allowed(x):
        names = [y for y in walk(x) if isinstance(y, tuple) and len(y) == 3 and y[0] == "attr" and y[1] == SELF]
        return bool(names) and all(y == ALLOWED for y in names) and not any(isinstance(y, tuple) and y and y[0] == "param" and y != SELF for y in walk(x))
    from ..valueflow import guards_satisfiable
    detail = "; ".join(("" if pol else "not ") + show(simp(g))[:150] for g, pol in a.guards)
    # the append must be unreachable when the allowed list is non-empty and the all(..) test fails -- whatever the spelling of the
    # conditions that guard it.  The all-test atom is located by shape, the emptiness test is the truthiness of the list itself.
    tests = [x for g, _ in a.guards for x in walk(simp(g)) if isinstance(x, tuple) and is_all_test(x)]
    if tests:
        fails = (tests[0], all_test(tests[0]) < 0)          # the polarity under which "some species is not allowed"
        dominated = not guards_satisfiable(a.guards, [(ALLOWED, True), fails])
    if not tests:
        # no all(.. in allowed ..) over the reaction's species among the guards.  Understood and wrong: an all / any with another
        # membership test, or no mention of the allowed list at all (the append is unguarded).  A test of the allowed list in another
        # form (subset comparison of sets, a helper that could not be followed) is not understood.
        gtxt = [x for g, _ in a.guards for x in walk(simp(g)) if isinstance(x, tuple) and len(x) >= 2]
        quantified = any(x[0] == "call" and x[1] in (("global", "all"), ("global", "any")) for x in gtxt)
        mentions = any(x == ALLOWED for x in gtxt) or any(x[0] == "meth" and x[1] == SELF for x in gtxt)
        if mentions and not quantified:
            # understood and wrong: the species are looked up BY HASH (`self._lookup.issuperset(..)`, `.. <= self._lookup`, `rp in self._lookup`
            # with _lookup a set / frozenset of the allowed list) while Species.__hash__ does not follow Species.__eq__ (two spellings of one
            # grain are == with different hashes, C15.R2 / C09.R7): an allowed species is then "not allowed" and its reactions vanish
            hashed = []
            for mn_, mf_ in pkg.cls("Network").methods.items():
                for st_ in ast.walk(mf_):
                    if isinstance(st_, ast.Assign) and len(st_.targets) == 1 and isinstance(st_.targets[0], ast.Attribute) and isinstance(st_.targets[0].value, ast.Name) \
                            and st_.targets[0].value.id == "self" and isinstance(st_.value, (ast.Call, ast.SetComp, ast.Set)):
                        v_ = st_.value
                        if (isinstance(v_, ast.Call) and isinstance(v_.func, ast.Name) and v_.func.id in ("set", "frozenset") and any(
                                isinstance(x, ast.Attribute) and x.attr in ("_allowed_species", "allowed_species") for x in ast.walk(v_))) or \
                                (isinstance(v_, ast.SetComp) and any(isinstance(x, ast.Attribute) and x.attr in ("_allowed_species", "allowed_species") for x in ast.walk(v_))):
                            hashed.append(st_.targets[0].attr)
            used = [x for x in gtxt if (x[0] == "meth" and len(x) >= 3 and x[1][:1] == ("attr",) and x[1][1:2] == (SELF,) and x[1][2] in hashed and x[2] in ("issuperset", "issubset", "isdisjoint", "__contains__"))
                    or (x[0] == "cmp" and any(isinstance(y, tuple) and y[:1] == ("attr",) and y[1:2] == (SELF,) and y[2] in hashed for y in walk(x)))]
            if hashed and used:
                from .c09 import hash_contract
                from ..core import Ctx
                sub = Ctx(ctx.tree, ctx.prop, ctx.tier)
                hash_contract(sub, pkg, "R2")
                broken = [o for o in sub.obs if o.key.startswith("hash vs eq") and o.outcome == "VIOLATION"]
                if broken:
                    ctx.bad("R2", "_add_reaction:filter dominates append", (NF, a.line),
                            f"the allowed list is consulted through the hashed copy self.{sorted(set(hashed))[0]} (set membership), but Species.__hash__ does not follow Species.__eq__ "
                            f"({broken[0].key}): a species that IS in the allowed list under another spelling (GRAIN / GRAIN0) is not found and its reactions are dropped from the network",
                            expected="membership by == over the allowed list (all(rp in self._allowed_species ..))", found=detail[:200])
                    return
            ctx.unrec("R2", "_add_reaction:filter dominates append", (NF, a.line), f"the test of the allowed list that guards the append is not understood: {detail[:200]}")
            return
        if not mentions and not quantified:
            # nothing about the allowed list on the way to the append.  If another method of the class tests the list (the filter was
            # moved to a caller / a wrapper), where reactions are rejected is not read here; if NOBODY reads it, the filter is gone
            elsewhere = [mn for mn, mf in pkg.cls("Network").methods.items() if not mn.startswith("allowed_species") and mn != "_add_reaction"
                         and any(isinstance(x, ast.Attribute) and x.attr in ("_allowed_species", "allowed_species") and isinstance(x.ctx, ast.Load) for x in ast.walk(mf))
                         and mn not in ("__init__",)]
            if elsewhere:
                ctx.unrec("R2", "_add_reaction:filter dominates append", (NF, a.line), f"_add_reaction appends without testing the allowed list, which {elsewhere[:3]} read: where reactions are rejected is not understood")
                return
    ctx.check(dominated, "R2", "_add_reaction:filter dominates append", (NF, a.line),
              "a reaction is appended only if the allowed list is empty or all of its reactants and products are in it (Species membership)" if dominated else
              "the append is not dominated by `all(rp in self._allowed_species for rp in reactants + products)`: a reaction mentioning a disallowed species "
              "can enter, or spellings of one species (E / e-, another surface prefix) are compared by text instead of Species equality",
              expected="if self._allowed_species and not all([rp in self._allowed_species for rp in reaction.reactants + reaction.products]): skip", found=detail[:300])
    ok_skip = len(skip) == 1 and skipped[0][1] == reac and \
        bool(tests) and not guards_satisfiable(skip[0].guards, [(tests[0], all_test(tests[0]) > 0)]) and guards_satisfiable(skip[0].guards, [(ALLOWED, True), (tests[0], all_test(tests[0]) < 0)])
    # understood: one append of the reaction itself (judged by the path it sits on), or no trace of _skipped_reactions in the method at
    # all (rejected reactions are forgotten).  Several appends, another value, the list written in another way: not understood.
    touched = [n_ for n_ in ast.walk(fn) if isinstance(n_, ast.Attribute) and n_.attr == "_skipped_reactions"]
    if not ok_skip and (not tests or len(skip) > 1 or (len(skip) == 1 and skipped[0][1] != reac) or (not skip and touched)):
        ctx.unrec("R2", "_add_reaction:rejected are remembered", (NF, skip[0].line if skip else fn.lineno),
                  f"how rejected reactions are recorded is not understood ({len(skip)} appends to _skipped_reactions, {len(touched)} mentions)")
    else:
        ctx.check(ok_skip, "R2", "_add_reaction:rejected are remembered", (NF, skip[0].line if skip else fn.lineno),
                  "a rejected reaction is recorded in _skipped_reactions (so a later change of the allowed list can re-admit it)")
    # cache updates use the appended reaction: self._reactants.update(X) / self._reactants |= X / self._reactants = self._reactants | X
    cal = {name: c for c in CACHES for name in _aliases(fl, ("attr", SELF, c))}
    ups = [(f, g) for f in fl.facts for g in [_cache_growth(f, cal)] if g is not None]
    good = len(ups) == 2 and {g[0] for _, g in ups} == set(CACHES)
    for u, (cache, arg) in ups:
        side = "reactants" if cache == "_reactants" else "products"
        ug, ag = {(simp(g), p) for g, p in u.guards}, {(simp(g), p) for g, p in a.guards}
        # the same path as the append -- apart from `if <what is added>:` (adding nothing is no update)
        good = good and any(x == ("attr", reac, side) for x in walk(arg)) and ag <= ug and all(g == (arg, True) for g in ug - ag)
    # the caches are written in some other way (element-wise add in a loop, ..): not understood, no verdict
    other = [f for f in fl.facts if not any(f is u for u, _ in ups) and
             ((f.kind == "call" and f.value and f.value[0] == "meth" and f.value[1][0] == "attr" and f.value[1][1] == SELF and f.value[1][2] in CACHES) or
              (f.kind == "attrstore" and f.target in CACHES and f.extra.get("obj") == SELF) or
              (f.kind in ("append", "mutate", "remove", "store") and f.target in cal))]
    if not good and other:
        ctx.unrec("R2", "_add_reaction:cache update", (NF, other[0].line), f"the cached sets are maintained in a way that is not understood ({other[0].kind} {other[0].target})")
    elif not good and not ups and any(isinstance(c, ast.Call) and any(isinstance(a_, ast.Name) and a_.id == "self" for a_ in c.args) for c in ast.walk(fn)):
        ctx.unrec("R2", "_add_reaction:cache update", (NF, fn.lineno), "no update of the cached sets in _add_reaction, and the network is handed to code this rule does not read")
    else:
        ctx.check(good, "R2", "_add_reaction:cache update", (NF, ups[0][0].line if ups else fn.lineno), "_reactants/_products receive the species of exactly the appended reaction, on the same path")
    # setter
    st = pkg.cls("Network").methods.get("allowed_species.setter")
    if st is None:
        ctx.missing("R2", "allowed_species.setter", (NF, 0), "setter vanished")
        return
    # (the setter is read with the helpers it may have been split into -- methods of the class, functions of the module -- put back)
    try:
        st_x = pkg.expanded("Network", "allowed_species.setter", keep=("add_reaction", "_add_reaction"))
    except (AnalysisError, RecursionError):
        st_x = st
    sfl = Flow(st_x, NF)
    SETTER = "allowed_species.setter"
    SK = ("attr", SELF, "_skipped_reactions")
    STATE = ("reaction_list", "_skipped_reactions") + CACHES

    def members(r):
        """the attributes of self a receiver stands for: itself, or -- for the variable of a loop over a display of them -- each"""
        r = simp(r)
        if r[0] == "attr" and r[1] == SELF:
            return [r[2]]
        if r[0] == "elem" and simp(r[1])[0] in ("tuple", "list") and all(e[0] == "attr" and e[1] == SELF for e in simp(r[1])[1]):
            return [e[2] for e in simp(r[1])[1]]
        return None
    emptied, unread = {}, []                 # attribute -> seq of the statement that empties it;  writes this rule cannot attribute
    al = {name: simp(lst[0][0])[2] for name, lst in sfl.assigns.items() if lst and all(simp(v) == simp(lst[0][0]) for v, *_ in lst)
          and simp(lst[0][0])[0] == "attr" and simp(lst[0][0])[1] == SELF and simp(lst[0][0])[2] in STATE}
    for f in sfl.facts:
        if f.kind == "call" and f.target == "clear" and f.value and f.value[0] == "meth":
            ms = members(f.value[1])
            if ms is None:
                unread.append(f)
            else:
                for a_ in ms:
                    emptied.setdefault(a_, f.seq)
        elif f.kind == "mutate" and f.op == "clear" and f.target in al:
            emptied.setdefault(al[f.target], f.seq)
        elif f.kind == "attrstore" and f.extra.get("obj") == SELF and f.target in STATE:
            v = simp(f.value)
            if v in (("list", ()), ("call", ("global", "list"), (), ()), ("call", ("global", "set"), (), ()), ("set", ())) and f.op == "=":
                emptied.setdefault(f.target, f.seq)
            else:
                unread.append(f)
        elif f.kind == "call" and f.value and f.value[0] == "meth" and simp(f.value[1]) == SELF and f.target not in ("add_reaction", "_add_reaction"):
            unread.append(f)                # a helper of the class: what it resets is not read here
        elif f.kind == "call" and f.value and f.value[0] == "call" and any(x == ("global", "setattr") for x in walk(f.value)):
            unread.append(f)
        elif f.kind == "call" and f.value and f.value[0] == "call" and any(simp(a_) == SELF for a_ in tuple(f.value[2]) + tuple(v_ for _, v_ in f.value[3])):
            unread.append(f)                # the network itself is handed to a function: what that does with it is not read here
    # by role: the snapshot is the list the re-adding loop iterates
    adds = [f for f in sfl.facts if f.kind == "call" and f.target in ("add_reaction", "_add_reaction") and f.value and f.value[0] == "meth" and simp(f.value[1]) == SELF]
    looped = [f for f in adds if f.loops]
    # a queue drained from the front -- `while q: self.add_reaction(q.popleft())` (or .pop(0)), q tested for emptiness only -- visits the
    # members of q in order, as `for x in q` does
    drained = None
    if len(looped) == 1 and looped[0].loops[0].kind == "while" and len(looped[0].loops) == 1 and len(looped[0].value[3]) == 1:
        arg, test = simp(looped[0].value[3][0]), simp(looped[0].loops[0].iter[1])
        if arg[0] == "meth" and arg[1] == test and ((arg[2] == "popleft" and not arg[3]) or (arg[2] == "pop" and arg[3] == (("const", 0),))) and not arg[4] \
                and sum(1 for f in sfl.facts if looped[0].loops[0] in f.loops) == 1:
            drained = test
    if not looped or (any(f.loops[0].kind != "for" for f in looped) and drained is None) or len(looped) != 1:
        if not adds and not unread:
            ctx.bad("R2", SETTER, (NF, st.lineno), "the setter installs a new allowed list without re-examining the reactions through add_reaction: reactions admitted under the old list stay, "
                    "skipped ones are never re-admitted", expected="for reaction in reaction_list + _skipped_reactions: self.add_reaction(reaction)", found="no call of add_reaction")
        else:
            ctx.unrec("R2", SETTER, (NF, st.lineno), "how the setter re-examines the recorded reactions is not understood (expected one `for` loop calling self.add_reaction)")
        return
    radd = looped[0]
    it0 = drained if drained is not None else simp(radd.loops[0].iter)
    rec = [e for lst in sfl.assigns.values() for e in lst if simp(e[0]) == it0]
    from .c09 import _unwrap_seq
    snap = _unwrap_seq(it0)
    while snap[0] == "call" and snap[1] in (("global", "deque"), ("attr", ("global", "collections"), "deque")) and len(snap[2]) == 1 and not snap[3]:
        snap = _unwrap_seq(snap[2][0])
    ops = [simp(o) for o in _concat_operands(snap)]
    arg_ok = len(radd.value[3]) == 1 and (simp(radd.value[3][0])[0] == "elem" or drained is not None)
    if not rec or not all(o[0] == "attr" and o[1] == SELF for o in ops) or not arg_ok:
        ctx.unrec("R2", SETTER, (NF, radd.line), f"the collection whose members are re-added is not a recorded concatenation of the network's own lists: {show(it0)[:100]}")
        return
    seq_rec = rec[0][4]
    want = sorted([RL, SK])
    missing = [a_ for a_ in STATE if a_ not in emptied]
    early = [a_ for a_ in STATE if a_ in emptied and emptied[a_] < seq_rec and a_ in ("reaction_list", "_skipped_reactions")]
    late = [a_ for a_ in STATE if a_ in emptied and emptied[a_] > radd.seq]
    if (missing or late) and unread:
        ctx.unrec("R2", SETTER, (NF, unread[0].line), f"{missing or late} may be reset by a statement this rule cannot read ({unread[0].kind} {unread[0].target})")
        return
    ok = sorted(ops) == want and not missing and not early and not late
    ctx.check(ok, "R2", SETTER, (NF, st.lineno),
              "the setter records reaction_list + _skipped_reactions, clears all caches, and re-adds every recorded reaction through add_reaction",
              found=f"emptied {sorted(emptied)}, recorded={show(snap)[:60]}, emptied before the record was taken: {early}, after the re-adding: {late}")
    # the new allowed list is installed before re-adding
    al_ = [f for f in sfl.facts if f.kind == "attrstore" and f.target == "_allowed_species"]
    if len(al_) != 1:
        ctx.unrec("R2", SETTER + ":order", (NF, st.lineno), f"expected one assignment of self._allowed_species in the setter, found {len(al_)}")
    else:
        ctx.check(al_[0].seq < radd.seq, "R2", SETTER + ":order", (NF, st.lineno), "the new allowed list is installed before the reactions are re-examined")


class _Strings:
    """Which strings an expression of a command class can denote -- by following the value, not by its spelling: literals, f-strings /
    `+` / %-formatting / str.format / str.join over such, locals and module / class-level constants bound once, the variables of
    `for` loops and comprehensions over literal tables (also zip / enumerate / dict items of such, module- or class-level ones),
    and a parameter of a helper method (the values its call sites in the class pass).  Everything is finite and syntactic; what
    is not understood is None (the caller answers UNRECOGNISED)."""

    def __init__(self, pkg, ci):
        self.pkg, self.ci = pkg, ci
        self.mod = pkg.modules[ci.file]
        self._parents = {}
        self._once = {}

    # ---- scopes
    def parents(self, fn):
        if id(fn) not in self._parents:
            m = {}
            for n in ast.walk(fn):
                for ch in ast.iter_child_nodes(n):
                    m[id(ch)] = n
            self._parents[id(fn)] = m
        return self._parents[id(fn)]

    def once(self, scope, name):
        """the value a name is bound to by its ONLY binding in a scope (function / module body), a plain assignment; else None"""
        key = (id(scope), name)
        if key not in self._once:
            stores = [n for n in ast.walk(scope) if isinstance(n, ast.Name) and n.id == name and isinstance(n.ctx, (ast.Store, ast.Del))]
            args = isinstance(scope, ast.FunctionDef) and any(a.arg == name for a in ast.walk(scope.args) if isinstance(a, ast.arg))
            vals = [st.value for st in ast.walk(scope) if isinstance(st, (ast.Assign, ast.AnnAssign)) and st.value is not None
                    for t in (st.targets if isinstance(st, ast.Assign) else [st.target]) if isinstance(t, ast.Name) and t.id == name]
            self._once[key] = vals[0] if len(stores) == 1 and len(vals) == 1 and not args else None
        return self._once[key]

    def deref(self, e, fn):
        """the expression a name / class attribute stands for (one step), or None"""
        if isinstance(e, ast.Name):
            v = self.once(fn, e.id) if fn is not None else None
            if v is None and (fn is None or not any(isinstance(n, ast.Name) and n.id == e.id and isinstance(n.ctx, ast.Store) for n in ast.walk(fn))):
                v = self.once(self.mod, e.id)
            return v
        if isinstance(e, ast.Attribute) and isinstance(e.value, ast.Name) and e.value.id in ("self", "cls", self.ci.name):
            return self.pkg.resolve_attr(self.ci.name, e.attr)[1]
        return None

    # ---- sequences
    def seq(self, e, fn, depth=0):
        """the element expressions of a literal table, or None"""
        if depth > 6 or e is None:
            return None
        if isinstance(e, (ast.List, ast.Tuple, ast.Set)):
            return None if any(isinstance(x, ast.Starred) for x in e.elts) else list(e.elts)
        if isinstance(e, ast.Dict):
            return None if any(k is None for k in e.keys) else list(e.keys)
        if isinstance(e, (ast.Name, ast.Attribute)):
            return self.seq(self.deref(e, fn), fn, depth + 1)
        if isinstance(e, ast.BinOp) and isinstance(e.op, ast.Add):
            a, b = self.seq(e.left, fn, depth + 1), self.seq(e.right, fn, depth + 1)
            return None if a is None or b is None else a + b
        if isinstance(e, ast.Call) and not e.keywords:
            f = e.func
            if isinstance(f, ast.Name) and f.id in ("list", "tuple", "sorted", "tqdm", "iter") and len(e.args) == 1:
                return self.seq(e.args[0], fn, depth + 1)
            if isinstance(f, ast.Name) and f.id == "reversed" and len(e.args) == 1:
                a = self.seq(e.args[0], fn, depth + 1)
                return None if a is None else a[::-1]
            if isinstance(f, ast.Name) and f.id == "zip" and e.args:
                cols = [self.seq(a, fn, depth + 1) for a in e.args]
                if any(c is None for c in cols):
                    return None
                return [ast.Tuple(elts=list(r), ctx=ast.Load()) for r in zip(*cols)]
            if isinstance(f, ast.Name) and f.id == "enumerate" and len(e.args) == 1:
                a = self.seq(e.args[0], fn, depth + 1)
                return None if a is None else [ast.Tuple(elts=[ast.Constant(value=i), x], ctx=ast.Load()) for i, x in enumerate(a)]
            if isinstance(f, ast.Attribute) and f.attr in ("items", "keys", "values") and not e.args:
                d = f.value
                for _ in range(4):
                    if isinstance(d, ast.Dict) or d is None:
                        break
                    d = self.deref(d, fn)
                if isinstance(d, ast.Dict) and not any(k is None for k in d.keys):
                    if f.attr == "keys":
                        return list(d.keys)
                    if f.attr == "values":
                        return list(d.values)
                    return [ast.Tuple(elts=[k, v], ctx=ast.Load()) for k, v in zip(d.keys, d.values)]
        return None

    @staticmethod
    def _bind(target, elt, row):
        if isinstance(target, ast.Name):
            row[target.id] = elt
            return True
        if isinstance(target, (ast.Tuple, ast.List)) and isinstance(elt, (ast.Tuple, ast.List)) and len(target.elts) == len(elt.elts) \
                and not any(isinstance(x, ast.Starred) for x in list(target.elts) + list(elt.elts)):
            return all(_Strings._bind(t, x, row) for t, x in zip(target.elts, elt.elts))
        return False

    def rows(self, node, fn):
        """the bindings of the loop / comprehension variables over literal tables in force at `node`: [{name: element expr}]"""
        par = self.parents(fn)
        binders = []
        ch, p_ = node, par.get(id(node))
        while p_ is not None:
            if isinstance(p_, ast.For) and any(ch is x for x in p_.body):
                binders.append((p_.target, p_.iter))
            elif isinstance(p_, (ast.ListComp, ast.SetComp, ast.GeneratorExp, ast.DictComp)) and not any(ch is g for g in p_.generators):
                for g in reversed(p_.generators):
                    binders.append((g.target, g.iter))
            elif isinstance(p_, ast.comprehension):
                # inside a generator's own iterable / filter: the earlier generators of the comprehension bind
                comp = par.get(id(p_))
                if comp is not None:
                    i = next(i for i, g in enumerate(comp.generators) if g is p_)
                    upto = i + (0 if ch is p_.iter else 1)
                    for g in reversed(comp.generators[:upto]):
                        binders.append((g.target, g.iter))
                    ch, p_ = comp, par.get(id(comp))
                    continue
            ch, p_ = p_, par.get(id(p_))
        out = [{}]
        for tg, it in reversed(binders):
            elts = self.seq(it, fn)
            if elts is None:
                continue                # the names it binds stay unknown
            new = []
            for r in out:
                for x in elts:
                    r2 = dict(r)
                    if self._bind(tg, x, r2):
                        new.append(r2)
            if not new or len(new) > 400:
                continue
            out = new
        return out

    # ---- strings
    def text(self, e, row, fn, depth=0):
        """the string an expression denotes under a binding of loop variables, or None"""
        if depth > 8 or e is None:
            return None
        if isinstance(e, ast.Constant):
            return e.value if isinstance(e.value, str) else None
        if isinstance(e, ast.JoinedStr):
            parts = []
            for v in e.values:
                if isinstance(v, ast.FormattedValue):
                    if v.format_spec is not None or v.conversion not in (-1, 115):
                        return None
                    v = v.value
                parts.append(self.text(v, row, fn, depth + 1))
            return None if any(x is None for x in parts) else "".join(parts)
        if isinstance(e, ast.Name) and e.id in row:
            return self.text(row[e.id], {k: v for k, v in row.items() if k != e.id}, fn, depth + 1)
        if isinstance(e, (ast.Name, ast.Attribute)):
            return self.text(self.deref(e, fn), row, fn, depth + 1)
        if isinstance(e, ast.BinOp) and isinstance(e.op, ast.Add):
            a, b = self.text(e.left, row, fn, depth + 1), self.text(e.right, row, fn, depth + 1)
            return None if a is None or b is None else a + b
        if isinstance(e, ast.BinOp) and isinstance(e.op, ast.Mod):
            fmt = self.text(e.left, row, fn, depth + 1)
            args = e.right.elts if isinstance(e.right, ast.Tuple) else [e.right]
            vals = [self.text(a, row, fn, depth + 1) for a in args]
            if fmt is None or any(v is None for v in vals) or fmt.count("%s") != len(vals) or fmt.count("%") != len(vals):
                return None
            return fmt % tuple(vals)
        if isinstance(e, ast.Subscript) and isinstance(e.slice, ast.Constant) and isinstance(e.slice.value, int):
            base = e.value
            if isinstance(base, ast.Name) and base.id in row:
                base = row[base.id]
            elts = self.seq(base, fn)
            if elts is not None and -len(elts) <= e.slice.value < len(elts):
                return self.text(elts[e.slice.value], row, fn, depth + 1)
            return None
        if isinstance(e, ast.Call) and isinstance(e.func, ast.Attribute) and not e.keywords:
            recv = self.text(e.func.value, row, fn, depth + 1)
            if recv is not None and e.func.attr == "format":
                vals = [self.text(a, row, fn, depth + 1) for a in e.args]
                if any(v is None for v in vals):
                    return None
                try:
                    return recv.format(*vals)
                except Exception:
                    return None
            if recv is not None and e.func.attr == "join" and len(e.args) == 1:
                elts = self.seq(e.args[0], fn)
                vals = [self.text(a, row, fn, depth + 1) for a in elts] if elts is not None else None
                return None if vals is None or any(v is None for v in vals) else recv.join(vals)
        if isinstance(e, ast.Call) and isinstance(e.func, ast.Name) and e.func.id == "str" and len(e.args) == 1 and not e.keywords:
            return self.text(e.args[0], row, fn, depth + 1)
        return None

    def values(self, e, fn, depth=0):
        """every string the expression `e` (a node inside method `fn`) can denote, or None when some case is not understood"""
        rows = self.rows(e, fn)
        # a parameter of the method: the values the call sites `self.<method>(..)` in the class pass for it
        params = [a.arg for a in fn.args.args[1:]] + [a.arg for a in fn.args.kwonlyargs]
        used = [p_ for p_ in params if any(isinstance(n, ast.Name) and n.id == p_ for n in ast.walk(e))
                and not any(isinstance(n, ast.Name) and n.id == p_ and isinstance(n.ctx, ast.Store) for n in ast.walk(fn))]
        if used:
            if depth > 2:
                return None
            sites = [(g, c) for g in self.ci.methods.values() for c in ast.walk(g)
                     if isinstance(c, ast.Call) and isinstance(c.func, ast.Attribute) and c.func.attr == fn.name and isinstance(c.func.value, ast.Name) and c.func.value.id in ("self", "cls")]
            if not sites:
                return None
            per_site = []
            for g, c in sites:
                if any(isinstance(a, ast.Starred) for a in c.args) or any(k.arg is None for k in c.keywords):
                    return None
                given = dict(zip([a.arg for a in fn.args.args[1:]], c.args))
                given.update({k.arg: k.value for k in c.keywords})
                defaults = dict(zip([a.arg for a in fn.args.args][len(fn.args.args) - len(fn.args.defaults):], fn.args.defaults))
                combos = [{}]
                for p_ in used:
                    a = given.get(p_, defaults.get(p_))
                    vals = self.values(a, g, depth + 1) if p_ in given else ([self.text(a, {}, None)] if a is not None else None)
                    if not vals or any(v is None for v in vals):
                        return None
                    combos = [dict(cb, **{p_: ast.Constant(value=v)}) for cb in combos for v in vals]
                per_site += combos
            rows = [dict(r, **cb) for r in rows for cb in per_site]
        out = []
        for r in rows:
            t = self.text(e, r, fn)
            if t is None:
                return None
            if t not in out:
                out.append(t)
        return out


def _declared(pkg, ci):
    """names a command declares: {"options": set | None, "arguments": set | None} -- None when the declaration list is built in a way
    that is not understood (then nothing is said about reads of that kind)"""
    S = _Strings(pkg, ci)
    names = {}
    for attr, helper in (("options", "option"), ("arguments", "argument")):
        node = pkg.resolve_attr(ci.name, attr)[1]
        if node is None:
            names[attr] = set()
            continue
        out = set()

        def collect(e, depth=0):
            """False when an entry of the list is not understood"""
            if depth > 6 or e is None:
                return False
            if isinstance(e, (ast.List, ast.Tuple)):
                return all(collect(x.value if isinstance(x, ast.Starred) else x, depth + 1) if isinstance(x, ast.Starred) else entry(x, {}) for x in e.elts)
            if isinstance(e, ast.BinOp) and isinstance(e.op, ast.Add):
                return collect(e.left, depth + 1) and collect(e.right, depth + 1)
            if isinstance(e, (ast.Name, ast.Attribute)):
                return collect(S.deref(e, None), depth + 1)
            if isinstance(e, ast.Call) and isinstance(e.func, ast.Name) and e.func.id in ("list", "tuple") and len(e.args) == 1 and not e.keywords:
                return collect(e.args[0], depth + 1)
            if isinstance(e, (ast.ListComp, ast.GeneratorExp)) and all(not g.ifs for g in e.generators):
                rows = [{}]
                for g in e.generators:
                    elts = S.seq(g.iter, None)
                    if elts is None:
                        return False
                    new = []
                    for r in rows:
                        for x in elts:
                            r2 = dict(r)
                            if not S._bind(g.target, x, r2):
                                return False
                            new.append(r2)
                    rows = new
                return all(entry(e.elt, r) for r in rows)
            return False

        def entry(x, row):
            if isinstance(x, ast.Call) and ast.unparse(x.func) == helper:
                a = x.args[0] if x.args else next((k.value for k in x.keywords if k.arg in ("name", "long_name")), None)
                t = S.text(a, row, None) if a is not None else None
                if t is not None:
                    out.add(t)
                    return True
            return False
        names[attr] = out if collect(node) else None
    return names


def _r3(ctx, pkg):
    n = 0
    for cname in COMMANDS:
        if cname not in pkg.classes:
            ctx.missing("R3", cname, ("naunet/console/commands", 0), "command class vanished")
            continue
        ci = pkg.cls(cname)
        ctx.saw(ci.file, f"{cname}.handle")
        decl = _declared(pkg, ci)
        S = _Strings(pkg, ci)
        for kind in ("options", "arguments"):
            if decl[kind] is None:
                ctx.unrec("R3", f"{cname}:{kind} declared", (ci.file, ci.node.lineno), f"the list `{kind}` of {cname} is built in a way that is not understood")
        for mname, fn in ci.methods.items():
            for c in ast.walk(fn):
                if isinstance(c, ast.Call) and isinstance(c.func, ast.Attribute) and isinstance(c.func.value, ast.Name) and c.func.value.id == "self" \
                        and c.func.attr in ("option", "argument") and (c.args or c.keywords):
                    kind = "options" if c.func.attr == "option" else "arguments"
                    a = c.args[0] if c.args else c.keywords[0].value
                    names = S.values(a, fn)
                    if names is None:
                        ctx.unrec("R3", f"{cname}.{mname}:{ast.unparse(a)[:40]}", (ci.file, c.lineno), "option name is not a literal or a finitely expandable expression")
                        continue
                    if decl[kind] is None:
                        n += len(names)
                        continue
                    for nm in names:
                        n += 1
                        ok = nm in decl[kind]
                        ctx.check(ok, "R3", f"{cname}:{c.func.attr}({nm!r})", (ci.file, c.lineno),
                                  f"`{nm}` is declared in {cname}.{kind}" if ok else
                                  f"{cname}.{mname} reads the {kind[:-1]} `{nm}`, which {cname}.{kind} does not declare: cleo raises and the command aborts",
                                  expected=f"one of {sorted(decl[kind])[:12]}", found=nm)
    ctx.floor("R3", "option/argument reads", n, 45)


def _set_difference(v):
    """(a, b) for the set difference a - b spelled `a - b` or `a.difference(b)`; else None"""
    if v[0] == "binop" and v[1] == "Sub":
        return v[2], v[3]
    if v[0] == "meth" and v[2] == "difference" and len(v[3]) == 1 and not v[4]:
        return v[1], v[3][0]
    # {x for x in a if x not in b}
    if v[0] == "comp" and v[1] == "set" and len(v[3]) == 1:
        tg, it, ifs = v[3][0]
        if tg is not None and tg[0] == "bv" and v[2] == tg and len(ifs) == 1 and ifs[0][0] == "cmp" and ifs[0][1] == ("NotIn",) and ifs[0][2][0] == tg:
            return it, ifs[0][2][1]
    if v[0] == "call" and v[1] == ("global", "set") and len(v[2]) == 1 and not v[3] and v[2][0][0] == "comp":
        return _set_difference(("comp", "set") + tuple(v[2][0][2:]))
    return None


def _r4(ctx, pkg):
    from .c09 import species_order, union_operands, class_resolver
    ci = pkg.cls("Network")
    R, P, Q = ("attr", SELF, "_reactants"), ("attr", SELF, "_products"), ("attr", SELF, "_required_species")
    want = {R, P, ("call", ("global", "set"), (Q,), ())}
    # by role: what the value handed out is sorted from (helper methods inlined).  The ORDER is C09/C17's subject; here only the
    # membership matters
    fn, fl, rets = species_order(pkg)
    for f, layers, members in rets[:1]:
        ops = union_operands(members)
        ok = len(ops) == 3 and set(ops) == want
        # VIOLATION only for a union that is understood -- every operand one of the instance's own collections (as it is, or as a
        # set) -- and is not the three: one is missing, another one is mixed in.  A helper that could not be followed, a selection,
        # a loop-carried value: not understood (never a verdict)
        plain = lambda o: (o[0] == "attr" and o[1] == SELF) or (o[0] == "call" and o[1] in (("global", "set"), ("global", "frozenset")) and len(o[2]) == 1 and not o[3]
                                                                and o[2][0][0] == "attr" and o[2][0][1] == SELF)
        if not ok and not (ops and all(plain(o) for o in ops)):
            ctx.unrec("R4", "Network.species:source", (NF, fn.lineno), f"where the species come from is not understood: {show(members)[:120]}")
        else:
            ctx.check(ok, "R4", "Network.species:source", (NF, fn.lineno), "species are the members of _reactants | _products | set(_required_species)", found=show(members)[:100])
    if not rets:
        ctx.unrec("R4", "Network.species:source", (NF, fn.lineno), "Network.species returns nothing")
    fn = ci.methods["find_source_sink"]
    fl = Flow(fn, NF, resolver=class_resolver(pkg, "Network"))
    rv = [simp(f.value) for f in fl.facts if f.kind == "return"]
    src = snk = None
    if len(rv) == 1 and rv[0][0] == "tuple" and len(rv[0][1]) == 2:
        src, snk = _set_difference(rv[0][1][0]), _set_difference(rv[0][1][1])
    if src is None or snk is None:
        ctx.unrec("R4", "Network.find_source_sink", (NF, fn.lineno), "the result is not a pair of set differences: " + "; ".join(show(x)[:80] for x in rv))
    else:
        def bare(o):
            while o[0] == "call" and o[1] in (("global", "set"), ("global", "frozenset")) and len(o[2]) == 1 and not o[3]:
                o = o[2][0]
            return o
        src, snk = tuple(bare(o) for o in src), tuple(bare(o) for o in snk)
        ok = src == (R, P) and snk == (P, R)
        if not ok and not all(o in (R, P) for o in src + snk):
            ctx.unrec("R4", "Network.find_source_sink", (NF, fn.lineno), f"a difference of collections other than the two cached sets: {show(src[0])[:60]} - {show(src[1])[:60]} / {show(snk[0])[:60]} - {show(snk[1])[:60]}")
        else:
            ctx.check(ok, "R4", "Network.find_source_sink", (NF, fn.lineno), "sources = reactants - products, sinks = products - reactants",
                      found=f"{show(src[0])} - {show(src[1])} / {show(snk[0])} - {show(snk[1])}")


# ------------------------------------------------------------------ R7  a one-off reduction must not stay behind as a filter

def _r7(ctx, pkg):
    """Commands edit a network step by step.  `x.allowed_species = [...]` is not a one-off reduction: the list stays on the network
    and silently rejects (into _skipped_reactions) every reaction a LATER step of the same command adds.  So inside one command
    function no add_reaction*/append step follows a store to .allowed_species of the same object."""
    n = 0
    for f in pkg.files:
        if not f.startswith("naunet/console/commands/"):
            continue
        for fn in ast.walk(pkg.modules[f]):
            if not isinstance(fn, ast.FunctionDef):
                continue
            sets = [(a.lineno, t.value.id) for a in ast.walk(fn) if isinstance(a, ast.Assign) for t in a.targets
                    if isinstance(t, ast.Attribute) and t.attr == "allowed_species" and isinstance(t.value, ast.Name)]
            adds = [(c.lineno, c.func.value.id, c.func.attr) for c in ast.walk(fn) if isinstance(c, ast.Call) and isinstance(c.func, ast.Attribute)
                    and c.func.attr in ("add_reaction", "add_reaction_from_file", "_add_reaction") and isinstance(c.func.value, ast.Name)]
            if adds:
                n += 1
            for ln, obj in sets:
                later = [a for a in adds if a[1] == obj and a[0] > ln]
                ctx.check(not later, "R7", f"{f.rsplit('/', 1)[1]}:{fn.name}:{obj}.allowed_species then add", (f, ln),
                          "no reaction is added to this network after the filter was installed" if not later else
                          f"`{obj}.allowed_species = ...` installs a persistent filter and `{obj}.{later[0][2]}(..)` at line {later[0][0]} adds reactions afterwards: reactions naming "
                          "species outside the list (the #X of appended depletion / desorption steps) are silently dropped",
                          expected="reduce into a new unconstrained Network, then append", found=f"filter at line {ln}, {len(later)} later add calls")
    ctx.floor("R7", "command functions that add reactions", n, 1)


# ------------------------------------------------------------------ R6  derived views follow every edit

MUTATORS = {"append", "add", "update", "pop", "remove", "clear", "extend", "insert", "sort", "reverse", "discard", "difference_update", "intersection_update", "setdefault", "popitem"}


def _self_reads(fn):
    return {n.attr for n in ast.walk(fn) if isinstance(n, ast.Attribute) and isinstance(n.value, ast.Name) and n.value.id == "self" and isinstance(n.ctx, ast.Load)}


def _self_writes(fn):
    """attributes of self a function stores to or mutates in place -> {attr: line}"""
    out = {}
    for n in ast.walk(fn):
        tgts = []
        if isinstance(n, ast.Assign):
            tgts = n.targets
        elif isinstance(n, (ast.AugAssign, ast.AnnAssign)):
            tgts = [n.target]
        for t in tgts:
            for e in (t.elts if isinstance(t, ast.Tuple) else [t]):
                b = e
                while isinstance(b, ast.Subscript):
                    b = b.value
                if isinstance(b, ast.Attribute) and isinstance(b.value, ast.Name) and b.value.id == "self":
                    out.setdefault(b.attr, n.lineno)
        if isinstance(n, ast.Call) and isinstance(n.func, ast.Attribute) and n.func.attr in MUTATORS:
            b = n.func.value
            if isinstance(b, ast.Attribute) and isinstance(b.value, ast.Name) and b.value.id == "self":
                out.setdefault(b.attr, n.lineno)
    return out


def _self_calls(fn):
    return {n.func.attr for n in ast.walk(fn) if isinstance(n, ast.Call) and isinstance(n.func, ast.Attribute) and isinstance(n.func.value, ast.Name) and n.func.value.id == "self"}


def _plain_reads(fn):
    """self attributes whose VALUE is read (not merely the receiver of an in-place reset such as self.x.clear())"""
    skip = set()
    for n in ast.walk(fn):
        if isinstance(n, ast.Call) and isinstance(n.func, ast.Attribute) and n.func.attr in ("clear", "pop", "popitem", "discard") and isinstance(n.func.value, ast.Attribute):
            skip.add(id(n.func.value))
    return {n.attr for n in ast.walk(fn) if isinstance(n, ast.Attribute) and isinstance(n.value, ast.Name) and n.value.id == "self" and isinstance(n.ctx, ast.Load) and id(n) not in skip}


def _r6(ctx, pkg):
    """A view of the network (species, elements, grains, ...) is recomputed from the live caches on every read, or -- if it
    memoises -- every public way of changing anything it is computed from resets the memo.  The same for any other method that keeps
    a memo of its own (an attribute it reads before it writes it and nobody else reads): find_duplicate_reaction's key lists, ..."""
    ci = pkg.cls("Network")
    getters, others, allm = {}, {}, {}
    for fn in ci.node.body:
        if not isinstance(fn, ast.FunctionDef):
            continue
        decs = [ast.unparse(d) for d in fn.decorator_list]
        if "property" in decs or any(d.endswith("cached_property") for d in decs):
            getters[fn.name] = fn
        else:
            others.setdefault(fn.name + ("@setter" if any(d.endswith(".setter") for d in decs) else ""), fn)
    plain = {fn.name: fn for k, fn in others.items() if not k.endswith("@setter")}       # callable as self.name(..)

    def closure(fn, what):
        """attributes `what`(f) yields for fn and every method / getter of the class it reaches through self"""
        out, todo, seen = {}, [fn], set()
        while todo:
            g = todo.pop()
            if id(g) in seen:
                continue
            seen.add(id(g))
            for a, ln in what(g).items():
                out.setdefault(a, ln)
            for c in _self_calls(g):
                if c in plain:
                    todo.append(plain[c])
            for a in _self_reads(g):
                if a in getters:
                    todo.append(getters[a])
        return out
    reads_of = lambda g: {a: 0 for a in _self_reads(g)}

    def sure_writes(fn, depth=0):
        """attributes written on EVERY call: by a top-level statement of the method, or by a method it calls in a top-level statement
        (a reset inside a loop or a branch -- or done by a callee only on some path -- may not happen)"""
        out = set()
        for st in fn.body:
            if isinstance(st, (ast.If, ast.For, ast.While, ast.Try, ast.With, ast.FunctionDef)):
                if isinstance(st, ast.If) and st.orelse:
                    a = set.intersection(*[set().union(*[sure_writes_stmt(x, depth) for x in blk]) if blk else set() for blk in (st.body, st.orelse)])
                    out |= a
                continue
            out |= sure_writes_stmt(st, depth)
        return out

    def sure_writes_stmt(st, depth):
        out = set()
        if isinstance(st, (ast.If, ast.For, ast.While, ast.Try, ast.With, ast.FunctionDef, ast.Return, ast.Raise)) and not isinstance(st, (ast.Return,)):
            return out
        holder = ast.Module(body=[st], type_ignores=[])
        out |= set(_self_writes(holder))
        if depth < 4:
            for c in _self_calls(holder):
                if c in plain:
                    out |= sure_writes(plain[c], depth + 1)
        return out
    n = 0
    cands = [(name, fn, True) for name, fn in sorted(getters.items())] + [(k, fn, False) for k, fn in sorted(others.items()) if k != "__init__"]
    for name, fn, is_view in cands:
        decs = [ast.unparse(d) for d in fn.decorator_list]
        key = f"Network.{name}:view is live" if is_view else f"Network.{name}:memo is fresh"
        if is_view:
            n += 1
        if any("cache" in d for d in decs):
            ctx.bad("R6", key, (NF, fn.lineno), f"the result is memoised by decorator ({decs}) and can never follow an edit of the network", found=", ".join(decs))
            continue
        # a memo is an attribute the method reads BEFORE (re)computing it; store-then-return recomputes on every read
        first_load = {}
        for x in ast.walk(fn):
            if isinstance(x, ast.Attribute) and isinstance(x.value, ast.Name) and x.value.id == "self" and isinstance(x.ctx, ast.Load):
                first_load[x.attr] = min(first_load.get(x.attr, x.lineno), x.lineno)
        memo = {a: ln for a, ln in _self_writes(fn).items() if a in first_load and first_load[a] < ln}
        # ... that nobody else reads (state such as reaction_list, which a setter reads and then replaces, is not a memo)
        memo = {a: ln for a, ln in memo.items() if not any(a in _plain_reads(g) for g in list(getters.values()) + list(others.values()) if g is not fn)}
        if not memo:
            if is_view:
                ctx.ok("R6", key, (NF, fn.lineno), "recomputed on every read (the getter keeps nothing in the instance)")
            continue
        # inputs: self attributes read (through the getters and helper methods it calls), apart from the memo itself
        inputs = {a for a in closure(fn, reads_of) if a not in memo and a not in getters and (a.startswith("_") or a == "reaction_list")}
        missing = []
        for oname, ofn in sorted(others.items()):
            if oname == "__init__" or ofn is fn or oname.startswith("_"):
                continue                    # private helpers are judged through the public methods that call them
            # every DIRECT write of an input, in this method or in a helper it calls, is accompanied on its own path by a reset of the
            # memo: a reset in the same block or an enclosing one -- of the helper, or of the caller around the call
            def check_fn(g, anc, depth, stack):
                def blocks(stmts, anc_):
                    here = set()
                    for st in stmts:
                        if not isinstance(st, (ast.If, ast.For, ast.While, ast.Try, ast.With, ast.FunctionDef)):
                            here |= sure_writes_stmt(st, 0)
                    resets = anc_ | here
                    for st in stmts:
                        if isinstance(st, ast.FunctionDef):
                            continue
                        if isinstance(st, (ast.If, ast.For, ast.While, ast.Try, ast.With)):
                            for fld in ("body", "orelse", "finalbody"):
                                b = getattr(st, fld, None)
                                if b:
                                    yield from blocks(b, resets)
                            for h in getattr(st, "handlers", []):
                                yield from blocks(h.body, resets)
                            # calls in the header expressions (loop iterable, test) are rare for mutators: ignored
                            continue
                        holder = ast.Module(body=[st], type_ignores=[])
                        w_ = _self_writes(holder)
                        hit_ = sorted(a for a in w_ if a in inputs)
                        if hit_ and not all(m in resets for m in memo):
                            yield (hit_, st.lineno, g.name)
                        if depth < 4:
                            for c in _self_calls(holder):
                                if c in plain and plain[c] not in stack:
                                    yield from check_fn(plain[c], resets, depth + 1, stack + [plain[c]])
                yield from blocks(g.body, anc)
            bad_ = list(check_fn(ofn, set(), 0, [ofn]))
            if bad_:
                hit_, ln_, gname = bad_[0]
                missing.append((oname if gname == ofn.name else f"{oname} (through {gname})", hit_, ln_))
        for oname, hit, ln in missing:
            ctx.bad("R6", f"{key}:reset in {oname}", (NF, ln), f"Network.{name} memoises its result in self.{sorted(memo)[0]}, which is computed from {sorted(inputs)}; "
                    f"`{oname}` changes {hit} without resetting the memo: the result (and everything rendered or decided from it) is stale after that edit",
                    expected=f"self.{sorted(memo)[0]} reset in every public method that changes {sorted(inputs)}", found=f"{oname} writes {hit}")
        if not missing:
            ctx.ok("R6", key, (NF, fn.lineno), f"memo {sorted(memo)} is reset by every writer of {sorted(inputs)}")
    ctx.floor("R6", "views of Network", n, 15)


EXT = "naunet/console/commands/extend.py"
REBUILD = "        # the cached species sets must follow the reactions that are left\n        self._reactants = {r for reac in self.reaction_list for r in reac.reactants}\n        self._products = {p for reac in self.reaction_list for p in reac.products}\n"
MUTANTS = [
    {"name": "extend-reduces-through-setter", "file": EXT, "old": "            net = Network(newlist)\n", "new": "            net.allowed_species = allowed_species\n", "rules": ["R7"]},
    {"name": "species-memo-missing-reset", "edits": [
        {"file": NF, "old": "            list[Species]: species in the network\n        \"\"\"\n", "new": "            list[Species]: species in the network\n        \"\"\"\n        if self._spc is not None:\n            return list(self._spc)\n"},
        {"file": NF, "old": "        speclist = sorted(speclist, key=lambda x: (len(connection[x]), x))\n", "new": "        speclist = sorted(speclist, key=lambda x: (len(connection[x]), x))\n        self._spc = speclist\n"},
        {"file": NF, "old": "        self._skipped_reactions = []\n\n        # TODO: rename", "new": "        self._skipped_reactions = []\n        self._spc = None\n\n        # TODO: rename"}], "rules": ["R6"]},
    {"name": "elements-cached-property", "file": NF, "old": "    @property\n    def elements(self)", "new": "    @__import__('functools').cached_property\n    def elements(self)", "rules": ["R6"]},
    {"name": "extend-removes-dupes-by-object", "file": "naunet/console/commands/extend.py", "old": "            _, dupidx, _ = net.find_duplicate_reaction()\n            net.remove_reaction(dupidx)", "new": "            dupes, _, _ = net.find_duplicate_reaction()\n            net.remove_reaction(dupes)", "rules": ["R5"]},
    {"name": "products-update-deleted", "file": NF, "old": "        self._products.update(new_products)\n", "new": "", "rules": ["R1", "R2"]},
    {"name": "any-for-all", "file": NF, "old": "            if not all(\n                [\n                    rp in self._allowed_species", "new": "            if not any(\n                [\n                    rp in self._allowed_species", "rules": ["R2"]},
    {"name": "skipped-not-cleared", "file": NF, "old": "        self.reaction_list = []\n        self._skipped_reactions = []\n\n        for reaction in recorded_reactions:", "new": "        self.reaction_list = []\n\n        for reaction in recorded_reactions:", "rules": ["R2"]},
    {"name": "option-renamed-in-declaration", "file": EXT, "old": '            "remove-species",\n            None,', "new": '            "drop-species",\n            None,', "rules": ["R3"]},
    {"name": "remove-without-cache-rebuild", "file": NF, "old": "        # the cached species sets must follow the reactions that are left\n        self._reactants = {r for reac in self.reaction_list for r in reac.reactants}\n        self._products = {p for reac in self.reaction_list for p in reac.products}\n", "new": "", "rules": ["R1"]},
    {"name": "filter-by-name-text", "file": NF, "old": "                    rp in self._allowed_species\n                    for rp in reaction.reactants + reaction.products", "new": "                    rp.name in {s.name for s in self._allowed_species}\n                    for rp in reaction.reactants + reaction.products", "rules": ["R2"]},
    {"name": "filter-reactants-only", "file": NF, "old": "                    for rp in reaction.reactants + reaction.products\n                ]\n            ):\n                self._skipped_reactions.append(reaction)", "new": "                    for rp in reaction.reactants\n                ]\n            ):\n                self._skipped_reactions.append(reaction)", "rules": ["R2"]},
    {"name": "undeclared-option-read", "file": EXT, "old": 'allowed_species = self.option("reduce-by-species")', "new": 'allowed_species = self.option("limit-species")', "rules": ["R3"]},
    {"name": "remove-in-place-backwards", "file": NF, "old": "            self.reaction_list = [\n                r for idx, r in enumerate(self.reaction_list) if idx not in reaction\n            ]\n", "new": "            for idx in sorted(reaction, reverse=True):\n                del self.reaction_list[idx]\n", "rules": ["R5"]},
    {"name": "cache-rebuild-helper-forgets-products", "file": NF, "old": REBUILD,
     "new": "        self._recache()\n\n    def _recache(self):\n        self._reactants = {r for reac in self.reaction_list for r in reac.reactants}\n", "rules": ["R1"]},
    {"name": "products-grown-by-reactants-operator", "file": NF, "old": "        self._products.update(new_products)\n", "new": "        self._products |= new_reactants\n", "rules": ["R2"]},
    {"name": "sink-by-operator-wrong-way", "file": NF, "old": "sink = self._products.difference(self._reactants)", "new": "sink = self._reactants - self._products", "rules": ["R4"]},
    {"name": "source-sink-swapped", "file": NF, "old": "source = self._reactants.difference(self._products)", "new": "source = self._reactants.difference(self._reactants)", "rules": ["R4"]},
]
BENIGN = [
    {"name": "cache-rebuild-in-helper-procedure", "file": NF, "old": REBUILD,
     "new": "        self._recache()\n\n    def _recache(self):\n        self._reactants = {r for reac in self.reaction_list for r in reac.reactants}\n        self._products = {p for reac in self.reaction_list for p in reac.products}\n"},
    {"name": "cache-growth-and-differences-by-operator", "edits": [
        {"file": NF, "old": "        self._reactants.update(new_reactants)\n        self._products.update(new_products)\n", "new": "        self._reactants |= new_reactants\n        self._products = self._products | new_products\n"},
        {"file": NF, "old": "        source = self._reactants.difference(self._products)\n        sink = self._products.difference(self._reactants)\n",
         "new": "        consumed, produced = self._reactants, self._products\n        source = consumed - produced\n        sink = produced - consumed\n"}]},
    {"name": "removal-by-closure-dispatch", "file": NF,
     "old": "        elif isinstance(reaction, list) and all(isinstance(r, int) for r in reaction):\n            self.reaction_list = [\n                r for idx, r in enumerate(self.reaction_list) if idx not in reaction\n            ]\n\n"
            "        elif isinstance(reaction, Reaction):\n            self.reaction_list = [r for r in self.reaction_list if r != reaction]\n\n"
            "        elif isinstance(reaction, list) and all(\n            isinstance(r, Reaction) for r in reaction\n        ):\n            self.reaction_list = [r for r in self.reaction_list if r not in reaction]\n\n"
            "        else:\n            raise TypeError\n",
     "new": "        else:\n            if isinstance(reaction, list) and all(isinstance(r, int) for r in reaction):\n                def keep(idx, r):\n                    return idx not in reaction\n"
            "            elif isinstance(reaction, Reaction):\n                def keep(idx, r):\n                    return r != reaction\n"
            "            elif isinstance(reaction, list) and all(isinstance(r, Reaction) for r in reaction):\n                def keep(idx, r):\n                    return r not in reaction\n"
            "            else:\n                raise TypeError\n            self.reaction_list = [r for idx, r in enumerate(self.reaction_list) if keep(idx, r)]\n"},
    {"name": "species-memo-reset-by-every-writer", "edits": [
        {"file": NF, "old": "            list[Species]: species in the network\n        \"\"\"\n", "new": "            list[Species]: species in the network\n        \"\"\"\n        if self._spc is not None:\n            return list(self._spc)\n"},
        {"file": NF, "old": "        speclist = sorted(speclist, key=lambda x: (len(connection[x]), x))\n", "new": "        speclist = sorted(speclist, key=lambda x: (len(connection[x]), x))\n        self._spc = speclist\n"},
        {"file": NF, "old": "        self._skipped_reactions = []\n\n        # TODO: rename", "new": "        self._skipped_reactions = []\n        self._spc = None\n\n        # TODO: rename"},
        {"file": NF, "old": "        self.reaction_list.append(reaction)\n", "new": "        self.reaction_list.append(reaction)\n        self._spc = None\n"},
        {"file": NF, "old": "        self.reaction_list = []\n        self._skipped_reactions = []\n\n        for reaction in recorded_reactions:", "new": "        self.reaction_list = []\n        self._skipped_reactions = []\n        self._spc = None\n\n        for reaction in recorded_reactions:"},
        {"file": NF, "old": "        self._products = {p for reac in self.reaction_list for p in reac.products}\n", "new": "        self._products = {p for reac in self.reaction_list for p in reac.products}\n        self._spc = None\n"},
        {"file": NF, "old": "        self._required_species = [Species(s, **self._species_kwargs) for s in speclist]\n", "new": "        self._required_species = [Species(s, **self._species_kwargs) for s in speclist]\n        self._spc = None\n"}]},
    {"name": "filter-condition-restructured", "file": NF, "old": "        if self._allowed_species:\n            if not all(", "new": "        if len(self._allowed_species) > 0 and self._allowed_species:\n            if not all("},
]

# --- spellings accepted since the second hardening wave (each with the defect it must still see) ---------------------------------
_ADD_OLD = ("        if not isinstance(reaction, Reaction):\n            reaction = _reaction_factory(*reaction)\n\n"
            "        # return empty set for updating if it is a fake react_string\n        if not reaction:\n            return set(), set(), None\n\n"
            "        if self._allowed_species:\n            if not all(\n                [\n                    rp in self._allowed_species\n"
            "                    for rp in reaction.reactants + reaction.products\n                ]\n            ):\n"
            "                self._skipped_reactions.append(reaction)\n                return set(), set(), None\n\n"
            "        self.reaction_list.append(reaction)\n        new_reactants = set(reaction.reactants).difference(self._reactants)\n"
            "        new_products = set(reaction.products).difference(self._products)\n        self._reactants.update(new_reactants)\n        self._products.update(new_products)\n")
_ADD_TAIL = ("        # if len(self.reaction_list) % 100 == 0:\n        #     print(\"Processing: {} reactions...\".format(len(self.reaction_list)))\n"
             "        return new_reactants, new_products, reaction\n")


def _add_pipeline(members="entry.reactants + entry.products", admit_products=True):
    """_add_reaction as a pipeline of private methods: conversion (value helper with an early return), the filter (predicate
    helper with a guard clause), the bookkeeping of an admitted reaction (statement helper whose result is returned)"""
    return [{"file": NF, "old": _ADD_OLD + _ADD_TAIL,
             "new": "        reaction = self._coerce(reaction)\n\n        if not reaction:\n            return set(), set(), None\n\n"
                    "        if not self._admits(reaction):\n            self._skipped_reactions.append(reaction)\n            return set(), set(), None\n\n"
                    "        return self._admit(reaction)\n\n"
                    "    @staticmethod\n    def _coerce(entry):\n        if isinstance(entry, Reaction):\n            return entry\n        return _reaction_factory(*entry)\n\n"
                    "    def _admits(self, entry):\n        if not self._allowed_species:\n            return True\n        involved = " + members + "\n"
                    "        return all(rp in self._allowed_species for rp in involved)\n\n"
                    "    def _admit(self, entry):\n        self.reaction_list.append(entry)\n        fresh_r = set(entry.reactants).difference(self._reactants)\n"
                    "        fresh_p = set(entry.products).difference(self._products)\n        self._reactants.update(fresh_r)\n"
                    + ("        self._products.update(fresh_p)\n" if admit_products else "") + "        return fresh_r, fresh_p, entry\n"}]


_DESORB_OLD = ('        options = ["thermal", "photon", "cosmic-ray"]\n        rtypes = [\n            ReactionType.GRAIN_DESORB_THERMAL,\n            ReactionType.GRAIN_DESORB_PHOTON,\n'
               '            ReactionType.GRAIN_DESORB_COSMICRAY,\n        ]\n        for option, rtype in zip(options, rtypes):\n            if self.option(f"append-{option}-desorption"):\n')


def _desorb_table(third="append-cosmic-ray-desorption"):
    return [{"file": EXT, "old": "    def __init__(self):\n        super(ExtendCommand, self).__init__()\n",
             "new": "    _DESORB = (\n        (\"append-thermal-desorption\", ReactionType.GRAIN_DESORB_THERMAL),\n        (\"append-photon-desorption\", ReactionType.GRAIN_DESORB_PHOTON),\n"
                    "        (\"" + third + "\", ReactionType.GRAIN_DESORB_COSMICRAY),\n    )\n\n    def __init__(self):\n        super(ExtendCommand, self).__init__()\n"},
            {"file": EXT, "old": _DESORB_OLD, "new": "        for flag, rtype in self._DESORB:\n            if self.option(flag):\n"}]


_SCAN_OLD = ("        seen = {}\n        dupes = []\n        dupidx = []\n\n        check_list = reactions\n")
_SCAN_LOOP = ("        for idx, chk in enumerate(\n            tqdm(check_list, desc=\"Checking Repeated Reactions...\")\n        ):\n            if chk not in seen:\n                seen[chk] = [idx]\n"
              "            else:\n                if len(seen[chk]) >= 1:\n                    dupes.append(reactions[idx])\n                    dupidx.append(idx)\n                seen[chk].append(idx)\n")


def _scan_helper():
    return [{"file": NF, "old": _SCAN_OLD, "new": "        check_list = reactions\n"},
            {"file": NF, "old": _SCAN_LOOP, "new": "        seen, dupidx = self._later_copies(check_list)\n        dupes = [reactions[i] for i in dupidx]\n"},
            {"file": NF, "old": "    def find_source_sink(self)", "new": "    @staticmethod\n    def _later_copies(keys):\n        groups = {}\n        later = []\n        for pos, key in enumerate(tqdm(keys)):\n"
             "            if key not in groups:\n                groups[key] = [pos]\n            else:\n                later.append(pos)\n                groups[key].append(pos)\n"
             "        return groups, later\n\n    def find_source_sink(self)"}]


MUTANTS += [
    {"name": "pipeline-filter-looks-at-reactants-only", "edits": _add_pipeline(members="entry.reactants"), "rules": ["R2"]},
    {"name": "pipeline-admit-forgets-products", "edits": _add_pipeline(admit_products=False), "rules": ["R1", "R2"]},
    {"name": "class-table-option-misspelt", "edits": _desorb_table("append-cosmicray-desorption"), "rules": ["R3"]},
    {"name": "scan-helper-and-removal-by-object", "edits": _scan_helper() + [
        {"file": EXT, "old": "            _, dupidx, _ = net.find_duplicate_reaction()\n            net.remove_reaction(dupidx)", "new": "            dupes, _, _ = net.find_duplicate_reaction()\n            net.remove_reaction(dupes)"}], "rules": ["R5"]},
]
BENIGN += [
    {"name": "add-reaction-pipeline-of-private-methods", "edits": _add_pipeline()},
    {"name": "desorption-options-class-table", "edits": _desorb_table()},
    {"name": "duplicate-scan-in-static-helper", "edits": _scan_helper()},
]
_POOL_OLD = "        speclist = sorted(\n            self._reactants | self._products | set(self._required_species)\n        )\n\n        connection = {sp: set() for sp in speclist}\n"
BENIGN += [
    {"name": "species-pool-by-set-method", "file": NF, "old": _POOL_OLD,
     "new": "        speclist = sorted(set().union(self._reactants, self._products, self._required_species))\n\n        connection = {sp: set() for sp in speclist}\n"},
    {"name": "species-pool-by-chain", "file": NF, "old": _POOL_OLD,
     "new": "        speclist = sorted(set(itertools.chain(self._reactants, self._products, self._required_species)))\n\n        connection = {sp: set() for sp in speclist}\n"},
]
MUTANTS += [
    {"name": "species-pool-without-products", "file": NF, "old": _POOL_OLD,
     "new": "        speclist = sorted(set().union(self._reactants, self._required_species))\n\n        connection = {sp: set() for sp in speclist}\n", "rules": ["R4"]},
]
NEWC = "naunet/console/commands/new.py"
_NEW_DECL = ('    options = [\n        option("name", None, "Project name."),\n        option("description", None, "Project description."),\n    ]\n')


def _new_by_tables(declared='("description", "Project description.")', read='"description"', helper_arg='"name"'):
    """NewCommand with the option list built from a class-level table by a comprehension, one option read through a helper method that
    takes the name as parameter, the other through a dict comprehension over a literal tuple"""
    return [
        {"file": NEWC, "old": _NEW_DECL, "new": '    _SPECS = (("name", "Project name."), ' + declared + ')\n    options = [option(label, None, text) for label, text in _SPECS]\n'},
        {"file": NEWC, "old": "    def handle(self):\n", "new": "    def _given(self, label):\n        return self.option(label)\n\n    def handle(self):\n"},
        {"file": NEWC, "old": '        name = self.option("name") or path.name\n', "new": "        name = self._given(" + helper_arg + ") or path.name\n"},
        {"file": NEWC, "old": '        description = self.option("description") or ""\n',
         "new": "        texts = {label: self.option(label) for label in (" + read + ",)}\n        description = texts[" + read + '] or ""\n'}]


BENIGN += [{"name": "options-declared-and-read-through-tables-and-helper", "edits": _new_by_tables()}]
MUTANTS += [
    {"name": "helper-call-site-passes-undeclared-name", "edits": _new_by_tables(helper_arg='"title"'), "rules": ["R3"]},
    {"name": "table-declares-another-name", "edits": _new_by_tables(declared='("summary", "Project description.")'), "rules": ["R3"]},
    {"name": "comprehension-reads-undeclared-name", "edits": _new_by_tables(read='"descr"'), "rules": ["R3"]},
]
_RECORD_OLD = ("        self.reaction_list.append(reaction)\n        new_reactants = set(reaction.reactants).difference(self._reactants)\n"
               "        new_products = set(reaction.products).difference(self._products)\n        self._reactants.update(new_reactants)\n        self._products.update(new_products)\n")


def _record_by_alias(products_line="        made.update(new_products)\n"):
    return {"file": NF, "old": _RECORD_OLD, "new": "        pool, used, made = self.reaction_list, self._reactants, self._products\n        pool.append(reaction)\n"
            "        new_reactants = set(reaction.reactants).difference(used)\n        new_products = set(reaction.products).difference(made)\n        used.update(new_reactants)\n" + products_line}


BENIGN += [dict(_record_by_alias(), name="attributes-under-local-names")]
MUTANTS += [dict(_record_by_alias(products_line=""), name="local-names-products-not-updated", rules=["R1", "R2"]),
            dict(_record_by_alias(products_line="        made.update(new_reactants)\n"), name="local-names-products-grown-by-reactants", rules=["R2"])]
BENIGN += [{"name": "setter-snapshot-by-unpacking", "file": NF, "old": "recorded_reactions = self.reaction_list + self._skipped_reactions",
            "new": "recorded_reactions = [*self.reaction_list, *self._skipped_reactions]"}]
MUTANTS += [{"name": "setter-snapshot-forgets-skipped", "file": NF, "old": "recorded_reactions = self.reaction_list + self._skipped_reactions",
             "new": "recorded_reactions = [*self.reaction_list]", "rules": ["R2"]}]
BENIGN += [{"name": "source-by-set-comprehension", "file": NF, "old": "source = self._reactants.difference(self._products)", "new": "source = {sp for sp in self._reactants if sp not in self._products}"}]
MUTANTS += [{"name": "source-by-set-comprehension-of-products", "file": NF, "old": "source = self._reactants.difference(self._products)", "new": "source = {sp for sp in self._products if sp not in self._products}", "rules": ["R4"]}]


def _two_steps(products="        self._products.update(fresh_p)\n"):
    return {"file": NF, "old": _RECORD_OLD + _ADD_TAIL, "new": "        self._store(reaction)\n        return self._note_species(reaction)\n\n    def _store(self, entry):\n        self.reaction_list.append(entry)\n\n"
            "    def _note_species(self, entry):\n        fresh_r = set(entry.reactants).difference(self._reactants)\n        fresh_p = set(entry.products).difference(self._products)\n"
            "        self._reactants.update(fresh_r)\n" + products + "        return fresh_r, fresh_p, entry\n"}


BENIGN += [dict(_two_steps(), name="append-and-cache-update-in-separate-steps")]
MUTANTS += [dict(_two_steps(products=""), name="separate-steps-products-forgotten", rules=["R1", "R2"])]
BENIGN += [{"name": "cache-update-only-when-something-is-new", "file": NF, "old": "        self._reactants.update(new_reactants)\n        self._products.update(new_products)\n",
            "new": "        if new_reactants:\n            self._reactants.update(new_reactants)\n        if new_products:\n            self._products.update(new_products)\n"}]
MUTANTS += [{"name": "products-updated-only-when-reactants-are-new", "file": NF, "old": "        self._reactants.update(new_reactants)\n        self._products.update(new_products)\n",
             "new": "        if new_reactants:\n            self._reactants.update(new_reactants)\n            self._products.update(new_products)\n", "rules": ["R1", "R2"]}]
BENIGN += [{"name": "setter-clears-the-lists-in-place", "file": NF, "old": "        self.reaction_list = []\n        self._skipped_reactions = []\n\n        for reaction in recorded_reactions:",
            "new": "        self.reaction_list.clear()\n        self._skipped_reactions.clear()\n\n        for reaction in recorded_reactions:"}]

# --- third hardening wave ---------------------------------------------------------------------------------------------------------
RXF = "naunet/reactions/reaction.py"
MUTANTS += [{"name": "base-preprocessing-drops-hash-lines", "file": RXF, "old": '        """\n\n        return line\n', "new": '        """\n\n        if line.startswith("#"):\n            return ""\n\n        return line\n', "rules": ["R8"]}]
BENIGN += [{"name": "base-preprocessing-returns-through-a-local", "file": RXF, "old": '        """\n\n        return line\n', "new": '        """\n\n        kept = line\n        return kept\n'}]


def _setter_queue(snapshot="self.reaction_list + self._skipped_reactions"):
    return [{"file": NF, "old": "import logging\n", "new": "import logging\nfrom collections import deque\n"},
            {"file": NF, "old": "        recorded_reactions = self.reaction_list + self._skipped_reactions\n", "new": "        recorded_reactions = deque(" + snapshot + ")\n"},
            {"file": NF, "old": "        for reaction in recorded_reactions:\n            self.add_reaction(reaction)\n",
             "new": "        while recorded_reactions:\n            self.add_reaction(recorded_reactions.popleft())\n"}]


BENIGN += [{"name": "setter-drains-a-queue-of-the-recorded-reactions", "edits": _setter_queue()}]
MUTANTS += [{"name": "setter-queue-forgets-the-skipped-reactions", "edits": _setter_queue("self.reaction_list"), "rules": ["R2"]}]
