"""C08 -- species names are decomposed into the right elements, charge and phase (PARTLY claimed: the tokenizer's discipline).

What a tokenizer returns for every name over every alphabet is not a static fact.  What IS visible in the source are the
necessary conditions of the clauses "longest symbol wins", "unrecognised text is rejected", "charge = trailing signs",
"counts add up", "renaming is consistent" and the definition of "is an atom" -- each a statement about how
Species._parse_molecule_name / _add_element_count / charge / is_atom are built, found by role (the method that records element
counts, the method that scans the name and calls it), never by name or position."""
from __future__ import annotations

import ast
import itertools
import re

from ..pymodel import package, species_count_method, species_parse_method
from ..valueflow import Flow, show, simp, walk

EXPLANATION = (
    "R1 longest symbol wins: the name is scanned symbol by symbol (re.finditer / search per symbol) over the symbol list sorted by "
    "length, longest first (or with one alternation built from that sorted list) -- a scan in list or alphabetical order lets S match "
    "inside Si; R2 a matched span is masked in place by a filler of the SAME length, so that a shorter symbol cannot match inside it and "
    "the recorded offsets stay valid; R3 text between two matches that is not a count (isdigit) raises -- it is not skipped; R4 the "
    "charge is the number of TRAILING '+' minus TRAILING '-': every regular expression over the name that mentions a sign is anchored "
    "at the end, and no sign is counted over the whole name (c-C3H2, l-C3H carry a dash inside); R5 counts add up: the count method is "
    "called once per match occurrence (not once per distinct symbol through a dict) and the composition table accumulates (shared "
    "with C04.R6); R6 renaming is consistent: where a replacement table is applied, the count is recorded under the replaced symbol, "
    "the same that is written into the new name; R7 `is_atom` is exactly: one element, one atom, neutral, not the electron, not on a "
    "surface (decided by truth table, whatever the arrangement of guard clauses); R8 no process-wide table (memo of parsed names, cached "
    "symbol list) stands between a name and its decomposition (shared with C17.R3); R9 the symbol tables consulted are the configured ones, "
    "the defaults only when nothing at all is configured (shared with C01.R6); R10 every entry point of Network that parses names installs both of "
    "its own symbol lists first, unconditionally (shared with C17.R3); R11 the symbol tables hold the caller's symbols verbatim: every value a method of "
    "Species stores into _known_elements / _known_pseudoelements from one of its parameters is an element of that parameter untouched (the tokenizer "
    "searches the entries as patterns but recognises a match by comparing its TEXT with the entries).")
ASSUMPTIONS = [
    "the composition a given name decodes to, the pairing of a count with the symbol before it, mass numbers (data tables), the gas-phase counterpart and the behaviour of "
    "`re` on a given alphabet are NOT decided: this check decides necessary structural conditions of the tokenizer, not its results",
    "symbols are matched as regular expressions (C09.R3 decides that every table entry's pattern equals its literal)",
]
ENGINES = ["pymodel", "valueflow"]
LEVEL = ("Static analysis of /repo's current source, PARTIAL claim (necessary structural conditions of the name tokenizer; the decoded composition of a given name is not decided): "
         + EXPLANATION)

SP = "naunet/species.py"
SELF = ("param", "self")
SCAN_FUNCS = {"finditer", "search", "match", "findall", "fullmatch", "split", "sub"}


def check(ctx):
    pkg = package(ctx.tree)
    cname, cfn = _count_method(pkg)
    pname, pfn = _tokenizer(pkg, cname)
    ctx.saw(SP, f"Species.{pname}")
    ctx.saw(SP, f"Species.{cname}")

    def proc(name):
        if name == cname:
            return None
        return pkg.resolve("Species", name)[1]
    fl = Flow(pfn, SP, resolver=proc, proc_resolver=proc)
    _r1_r2(ctx, fl, pfn, pname)
    _r3(ctx, fl, pfn, pname)
    _r4(ctx, pkg, pfn, pname)
    _r5_r6(ctx, fl, pfn, pname, cname)
    from .c04 import _r6 as table_accumulates
    ctx.absorb(table_accumulates, "R5", only=lambda o: o.outcome != "MISSING")
    _r7(ctx, pkg)
    _r11(ctx, pkg, cname, cfn)
    # R8 the decomposition is a function of the name and the configured tables: no table shared by all Species (a memo of parsed
    # names, a cached symbol list) stands between them (shared with C17.R3 process-wide state discovery)
    from .c17 import discovered_state
    ctx.absorb(lambda sub: discovered_state(sub, package(sub.tree), "R8"), "R8", only=lambda o: o.outcome != "MISSING")
    # R9 the symbol tables consulted are the configured ones: the defaults stand in only when NOTHING was configured (shared with C01.R6)
    from .c01 import _r6 as pseudo_rule
    ctx.absorb(pseudo_rule, "R9", only=lambda o: ("known_pseudoelements" in o.key or "pseudo-filter" in o.key) and o.outcome != "MISSING")
    # R10 ... and they are THIS network's: every entry point of Network that parses names installs both of its lists first, whatever
    # they contain (shared with C17.R3; the guarded installation of today's tree is the known finding F-17a, which is also a C08 defect:
    # a network with default lists decodes its names with the symbols of whichever network was used before it)
    from .c17 import _r3 as installation_rule
    ctx.absorb(lambda sub: installation_rule(sub, package(sub.tree)), "R10",
               only=lambda o: o.key.startswith("Network.") and "installation" in o.key and o.outcome != "MISSING")


def _records_counts(fn) -> bool:
    for n in ast.walk(fn):
        tg = n.targets if isinstance(n, ast.Assign) else [n.target] if isinstance(n, ast.AugAssign) else []
        if any(isinstance(t, ast.Subscript) and ast.unparse(t.value) == "self.element_count" for t in tg):
            return True
        if isinstance(n, ast.Call) and isinstance(n.func, ast.Attribute) and n.func.attr in ("update", "setdefault") and ast.unparse(n.func.value) == "self.element_count":
            return True
    return False


def _count_method(pkg):
    """(name, FunctionDef) of the Species method that records element counts.  The statement that writes self.element_count[..]
    may have been moved into a private step of that method (a helper method, or a function of the module handed `self`): a step is
    used by one function only and called there once, outside any loop -- the count method itself is what the tokenizer calls once
    per match, inside its loop.  From the function that holds the write, climb through such steps; the method is returned with its
    steps put back."""
    from ..core import AnalysisError
    from .c17 import _users_of, _top_functions, _calls_of
    ci = pkg.cls("Species")
    try:
        name, fn = species_count_method(pkg)
        q = f"Species.{name}"
    except AnalysisError:
        cands = [n for (f_, n), fn_ in pkg.functions.items() if f_ == SP and n.startswith("_") and any(a.arg == "self" for a in fn_.args.args) and _records_counts(fn_)]
        if len(cands) != 1:
            raise
        q = cands[0]
    fns, _ = _top_functions(pkg, SP)
    start = q
    for _ in range(4):
        users = _users_of(pkg, SP, q)
        if not users or len(users) != 1:
            break
        u = next(iter(users))
        ufn = fns.get(u)
        if ufn is None or not u.startswith("Species."):
            break
        calls = _calls_of(ufn, q.split(".")[-1])
        in_loop = any(c is x for lp in ast.walk(ufn) if isinstance(lp, (ast.For, ast.While, ast.ListComp, ast.GeneratorExp, ast.DictComp, ast.SetComp)) for x in ast.walk(lp) for c in calls)
        if len(calls) != 1 or in_loop:
            break
        q = u
    if not q.startswith("Species."):
        raise AnalysisError("no method of Species records element counts (self.element_count[..] = ..)", (SP, 0), "MISSING")
    if q == start:
        return species_count_method(pkg)
    name = q.split(".", 1)[1]
    try:
        return name, pkg.expanded("Species", name)
    except Exception:
        return name, ci.methods[name]


def _tokenizer(pkg, cname):
    """(name, FunctionDef) of the tokenizer: the Species method that, with the private steps it was split into put back
    (pymodel.expanded; the count method stays a call), both scans the name with regular expressions and calls the count method --
    the smallest such method, so that a pipeline of helpers and the one-piece original are the same function to the rules"""
    ci = pkg.cls("Species")
    best = None
    for name in ci.methods:
        if name == cname or (name.startswith("__") and name.endswith("__")) or "." in name:
            continue
        try:
            fn = pkg.expanded("Species", name, keep=(cname,))
            # a scanner OBJECT that lives inside the tokenizer (a small class of the module holding the text and the matches) is the
            # bundle of its fields: its methods are read in place
            from ..normalize import inline_local_objects
            fn = inline_local_objects(fn, lambda c: pkg.classes[c].node if c in pkg.classes and pkg.classes[c].file == SP and c != "Species" else None)
        except Exception:
            continue
        calls = [c for c in ast.walk(fn) if isinstance(c, ast.Call) and isinstance(c.func, ast.Attribute)]
        if not any(ast.unparse(c.func) == f"self.{cname}" for c in calls) or not any(c.func.attr in SCAN_FUNCS and c.args for c in calls):
            continue
        size = sum(1 for _ in ast.walk(fn))
        if best is None or size < best[0]:
            best = (size, name, fn)
    if best is None:
        return species_parse_method(pkg)
    return best[1], best[2]


# ------------------------------------------------------------------ R1 / R2

def _is_len_desc_sorted(v):
    """sorted(X, key=len, reverse=True) in any of its spellings (key=lambda s: len(s) with reverse=True, key=lambda s: -len(s), a tuple key
    whose first component is one of these) -> X ;  'other' for a sorted(..) understood to be in another order (no key, the length
    ascending) ;  'unknown' for a key / reverse flag this rule does not read ;  None when not a sorted call"""
    v = simp(v)
    if v[0] == "call" and v[1] == ("global", "sorted") and len(v[2]) == 1:
        kw = dict(v[3])
        if set(kw) - {"key", "reverse"}:
            return "unknown"
        key, rev = kw.get("key"), kw.get("reverse", ("const", False))
        if rev[0] != "const" or not isinstance(rev[1], bool):
            return "unknown"

        def by_len(k):
            """+1: the key is the length; -1: minus the length; 0: understood, neither; None: not read"""
            if k is None:
                return 0                    # the natural (alphabetical) order
            if k == ("global", "len"):
                return 1
            if k[0] == "lambda" and len(k[1]) == 1:
                b = k[2]
                if b[0] == "tuple" and b[1]:
                    b = b[1][0]             # ties broken by further components
                LEN = ("call", ("global", "len"), (k[1][0],), ())
                if b == LEN:
                    return 1
                if b in (("unop", "USub", LEN), ("binop", "Mult", ("const", -1), LEN), ("binop", "Mult", LEN, ("const", -1)), ("binop", "Sub", ("const", 0), LEN)):
                    return -1
                if b == k[1][0] or (b[0] == "attr" and b[1] == k[1][0]) or (b[0] == "meth" and b[1] == k[1][0] and b[2] in ("lower", "upper")):
                    return 0                # the symbol itself / its case-folded text: alphabetical
            return None
        d = by_len(key)
        if d is None:
            return "unknown"
        if (d == 1 and rev[1]) or (d == -1 and not rev[1]):
            return v[2][0]
        return "other"
    return None


def _scan_loops(fl):
    """[(symbol loop, scan loop | None, scan call IR)]: a loop over the symbols whose element is the PATTERN of a regex scan"""
    out = []
    for lp in fl.all_loops.values():
        it = simp(lp.iter)
        call = None
        if it[0] == "meth" and it[2] in SCAN_FUNCS and it[3]:
            call = it
        if call is None:
            continue
        pat = call[3][0]
        for x in walk(pat):
            if isinstance(x, tuple) and len(x) == 3 and x[0] == "elem" and x[2] in fl.all_loops:
                out.append((fl.all_loops[x[2]], lp, call))
                break
    return out


def _r1_r2(ctx, fl, pfn, pname):
    W = (SP, pfn.lineno)
    scans = _scan_loops(fl)
    if not scans:
        # one alternation built from the sorted list?
        ok = None
        for f in fl.facts:
            for x in walk(f.value) if f.value else ():
                if isinstance(x, tuple) and x and x[0] == "join" and x[1] == ("const", "|"):
                    r = _is_len_desc_sorted(x[2]) if x[2][0] == "call" else None
                    # understood and wrong: sorted in another order, or the configured lists concatenated as they are; a list this
                    # rule cannot trace (a parameter, an accumulator, a helper's result) is not read
                    if r not in (None, "other", "unknown"):
                        ok = True if ok is None else ok
                    elif r == "other" or (r is None and simp(x[2])[0] in ("binop", "list") and not any(y[0] in ("call", "meth", "acc") for y in walk(simp(x[2])) if isinstance(y, tuple) and y)):
                        ok = False
                    elif ok is None:
                        ok = "unread"
        if ok == "unread":
            ctx.unrec("R1", f"{pname}:alternation order", W, "the symbols are joined into one alternation, but the order of the joined list is not read")
        elif ok is None:
            ctx.unrec("R1", f"{pname}:scan", W, "the tokenizer is not a per-symbol regular-expression scan nor an alternation of the symbols: longest-match discipline not decidable")
        else:
            ctx.check(ok, "R1", f"{pname}:alternation order", W, "the alternation lists the symbols longest first" if ok else
                      "the symbols are joined into one alternation in an order that is not longest-first: `S|Si` matches S inside Si", expected="'|'.join(sorted(symbols, key=len, reverse=True))")
        return
    sym_loop, scan_loop, call = scans[0]
    it = simp(sym_loop.iter)
    r = _is_len_desc_sorted(it)
    key = f"{pname}:symbols longest first"
    where = (SP, sym_loop.line)
    if r is None:
        plain = it[0] in ("binop", "attr", "list") or (it[0] == "call" and it[1] == ("global", "list"))
        if it[0] == "param":
            # the list is HANDED to the tokenizer: the order is the caller's business -- every call site inside the class passes
            # sorted(.., key=len, reverse=True) (ok), or some call site passes the configured lists as they are (wrong)
            verdicts = _param_order(ctx, pfn, pname, it[1])
            if verdicts and all(v is True for v in verdicts):
                ctx.ok("R1", key, where, "symbols are tried longest first (sorted by the callers that hand the list over)")
            elif any(v is False for v in verdicts):
                ctx.bad("R1", key, where, "the symbols are tried in the order of the list a caller hands over unsorted: a short symbol listed before a longer one that contains it "
                        "(S before Si, H before He) claims its characters first", expected="sorted(symbols, key=len, reverse=True)", found=show(it)[:100])
            else:
                ctx.unrec("R1", key, where, f"the symbol list is a parameter (`{it[1]}`) and the order its callers establish is not read")
        elif plain:
            ctx.bad("R1", key, where, "the symbols are tried in the order of the configured lists (" + show(it)[:80] + "): a short symbol listed before a longer one that contains it "
                    "(S before Si, H before He, C before Cl) claims its characters first -- Si is read as S + i", expected="sorted(symbols, key=len, reverse=True)", found=show(it)[:100])
        else:
            ctx.unrec("R1", key, where, f"cannot tell the order the symbols are tried in: {show(it)[:100]}")
    elif r == "unknown":
        ctx.unrec("R1", key, where, f"symbols are sorted by a key this rule cannot read: {show(it)[:100]}")
    else:
        ctx.check(r != "other", "R1", key, where, "symbols are tried longest first" if r != "other" else
                  "the symbols are sorted, but not by decreasing length (" + show(it)[:80] + "): a short symbol is tried before a longer one that contains it -- Si is read as S + i, He as H + e",
                  expected="sorted(symbols, key=len, reverse=True)", found=show(it)[:100])
    # ---- R2 masking ------------------------------------------------------------------------------------------------------------
    buf = None
    if len(call[3]) >= 2:
        b = call[3][1]
        if b[0] == "carried":
            buf = b[1]
    key = f"{pname}:matched span masked in place"
    if buf is None:
        ctx.unrec("R2", key, (SP, scan_loop.line), "the scanned text is not a local that is rewritten inside the scan loop: masking not decidable")
        return
    stores = [(v, loops, line) for (v, loops, guards, line, seq) in fl.assigns.get(buf, []) if any(l.id == scan_loop.id for l in loops)]
    if not stores:
        ctx.unrec("R2", key, (SP, scan_loop.line), f"`{buf}` is scanned symbol by symbol but never rewritten inside the scan loop")
        return
    v, loops, line = stores[-1]
    parts = _add_parts(simp(v))
    m_el = ("elem", simp(scan_loop.iter), scan_loop.id)

    def is_pos(x, which):
        x = simp(x)
        if x[0] == "meth" and x[2] == which and not x[3]:
            return True
        return x[0] == "item" and x[1][0] == "meth" and x[1][2] == "span" and x[2] == (0 if which == "start" else 1)
    ok = why = None
    if len(parts) == 3:
        a, f_, c = parts
        pre = a[0] == "sub" and a[2][0] == "slice" and a[2][1] == ("const", None) and is_pos(a[2][2], "start")
        suf = c[0] == "sub" and c[2][0] == "slice" and is_pos(c[2][1], "end") and c[2][2] == ("const", None)
        fill = None
        if f_[0] == "binop" and f_[1] == "Mult":
            s_, n_ = (f_[2], f_[3]) if f_[2][0] == "const" else (f_[3], f_[2])
            if s_[0] == "const" and isinstance(s_[1], str):
                n_ = simp(n_)
                same_len = n_[0] == "binop" and n_[1] == "Sub" and is_pos(n_[2], "end") and is_pos(n_[3], "start")
                if n_[0] == "call" and n_[1] == ("global", "len") and n_[2] and simp(n_[2][0])[0] == "meth" and simp(n_[2][0])[2] == "group":
                    same_len = True
                # understood: the span's own length (ok), a constant repeat count / a filler of several characters (wrong); a repeat
                # count computed in another way is not read
                if same_len or n_[0] == "const" or len(s_[1]) != 1:
                    fill = (len(s_[1]) == 1 and same_len, s_[1], show(n_))
        if pre and suf and fill is not None:
            ok = fill[0]
            why = f"filler {fill[1]!r} * ({fill[2]})"
        elif pre and suf and f_[0] == "const" and isinstance(f_[1], str):
            ok, why = False, f"constant filler {f_[1]!r}"
    elif len(parts) == 2:
        a, c = parts
        if a[0] == "sub" and c[0] == "sub":
            ok, why = False, "the matched span is cut out (no filler)"
    if ok is None:
        ctx.unrec("R2", key, (SP, line), f"masking expression not understood: {show(simp(v))[:120]}")
    else:
        ctx.check(ok, "R2", key, (SP, line), "text[:start] + filler*(end-start) + text[end:], one filler character per masked character" if ok else
                  f"the matched span is not replaced by a filler of its own length ({why}): the offsets of the matches recorded so far no longer refer to the same characters, and the "
                  "text between two symbols (counts) is cut at the wrong places", expected="text[:start] + ' ' * (end - start) + text[end:]", found=show(simp(v))[:120])


def _param_order(ctx, pfn, pname, param):
    """[True | False | None] per call site of the tokenizer inside Species: the argument bound to `param` is sorted longest first /
    is a plain concatenation of the configured lists / is not read"""
    pkg = package(ctx.tree)
    ci = pkg.cls("Species")
    params = [a.arg for a in pfn.args.args]
    if param not in params:
        return []
    pos = params.index(param) - 1          # without self
    out = []
    for mname, fn in ci.methods.items():
        if mname == pname or not isinstance(fn, ast.FunctionDef):
            continue
        if not any(isinstance(c, ast.Call) and isinstance(c.func, ast.Attribute) and c.func.attr == pname for c in ast.walk(fn)):
            continue
        fl = Flow(fn, SP)
        for f in fl.facts:
            if f.kind == "call" and f.target == pname and f.value is not None and f.value[0] == "meth":
                a = dict(f.value[4]).get(param) if param in dict(f.value[4]) else (f.value[3][pos] if 0 <= pos < len(f.value[3]) else None)
                if a is None:
                    out.append(None)
                    continue
                r = _is_len_desc_sorted(a)
                a = simp(a)
                out.append(True if r not in (None, "other", "unknown") else False if r == "other" or (r is None and a[0] in ("binop", "list", "attr")) else None)
    return out


def _add_parts(v):
    if v[0] == "binop" and v[1] == "Add":
        return _add_parts(v[2]) + _add_parts(v[3])
    if v[0] == "fstr":
        out = []
        for p in v[1]:
            out += _add_parts(p[1]) if p[0] == "fmt" and p[2] is None else [p]
        return out
    return [v]


# ------------------------------------------------------------------ R3

def _r3(ctx, fl, pfn, pname):
    W = (SP, pfn.lineno)
    digit_guards = []
    for f in fl.facts:
        for g, pol in f.guards:
            g = simp(g)
            if any(isinstance(x, tuple) and len(x) == 5 and x[0] == "meth" and x[2] in ("isdigit", "isdecimal", "isnumeric") for x in walk(g)):
                digit_guards.append((f, g, pol))
    key = f"{pname}:text that is not a count is rejected"
    if not digit_guards:
        # the other common spelling: int(text) inside try / except ValueError -> raise.  int() is MORE permissive than isdigit():
        # it accepts a sign, surrounding blanks and `_` separators, so "C+2", "H 2", "C1_0" are read instead of rejected
        for t in ast.walk(pfn):
            if isinstance(t, ast.Try) and any(h.type is None or "ValueError" in ast.unparse(h.type) or "Exception" in ast.unparse(h.type) for h in t.handlers):
                ints = [c for b in t.body for c in ast.walk(b) if isinstance(c, ast.Call) and isinstance(c.func, ast.Name) and c.func.id == "int" and len(c.args) == 1]
                if ints:
                    ctx.bad("R3", key, (SP, ints[0].lineno),
                            "the text between two symbols is validated by `int(text)` failing, not by isdigit(): int() also accepts a sign, surrounding whitespace and `_` digit "
                            "separators, so malformed names (`C+2`, `H 2`, `CO2\\n`, `C1_0`) are silently read as counts instead of being rejected",
                            expected="if text.isdigit(): count = int(text) else: raise", found=ast.unparse(ints[0])[:60] + " inside try/except")
                    return
        ctx.unrec("R3", key, W, "no isdigit() test on the text between two symbols: rejection of unrecognised characters not decidable")
        return
    neg = [f for f, g, pol in digit_guards if pol is False]
    raised = [f for f in neg if f.kind == "raise"]
    # the non-digit arm hands the text to something this rule does not follow (a rejecting helper, an error collector): not read
    handed = [f for f in neg if f.kind == "call" and f.value is not None and not (f.value[0] == "meth" and simp(f.value[1]) in (("global", "logging"), ("global", "logger"), ("global", "warnings")))
              and f.target not in ("append", "warning", "info", "debug", "error", "warn", "print")]
    if not raised and handed:
        ctx.unrec("R3", key, (SP, handed[0].line), f"text that is not a number is handed to `{handed[0].target}`; whether that rejects it is not read")
        return
    ctx.check(bool(raised), "R3", key, (SP, (raised or neg or [digit_guards[0][0]])[0].line),
              "text between two symbols that is not a number raises" if raised else
              "text between two symbols that is not a number does not raise: a name containing characters of no configured symbol (a typo, a symbol of another "
              "database) is accepted and silently mis-read instead of being rejected", expected="else: raise RuntimeError(..)",
              found="; ".join(sorted({f"{f.kind}@{f.line}" for f in neg})) or "nothing happens on the non-digit arm")


# ------------------------------------------------------------------ R4

def _sign_patterns(fn):
    """[(lineno, pattern text, anchored at end?, applied to)] for regex patterns (string constants handed to re.*) mentioning + or -"""
    import re._parser as sre
    out = []
    for c in ast.walk(fn):
        if isinstance(c, ast.Call) and isinstance(c.func, ast.Attribute) and c.func.attr in SCAN_FUNCS | {"compile"} and c.args and isinstance(c.args[0], ast.Constant) \
                and isinstance(c.args[0].value, str) and isinstance(c.func.value, ast.Name) and c.func.value.id == "re":
            pat = c.args[0].value
            try:
                tree = sre.parse(pat)
            except Exception:
                continue
            lits = set()

            def rec(t):
                for op, av in t:
                    op = str(op)
                    if op == "LITERAL":
                        lits.add(chr(av))
                    elif op == "IN":
                        for o2, a2 in av:
                            if str(o2) == "LITERAL":
                                lits.add(chr(a2))
                    elif op in ("MAX_REPEAT", "MIN_REPEAT", "POSSESSIVE_REPEAT"):
                        rec(av[2])
                    elif op == "SUBPATTERN":
                        rec(av[3])
                    elif op == "BRANCH":
                        for b in av[1]:
                            rec(b)
            rec(tree)
            if not (lits & {"+", "-"}) or lits - {"+", "-"}:
                continue
            last = tree[-1] if len(tree) else None
            anchored = last is not None and str(last[0]) == "AT" and str(last[1]) in ("AT_END", "AT_END_STRING")
            out.append((c.lineno, pat, anchored))
    return out


def _r4(ctx, pkg, pfn, pname):
    ci = pkg.cls("Species")
    n = 0
    # (with the private helpers they call put back: a shared sign-stripping helper is read where it is used)
    fns = [(pname, pfn)] + [(k, pkg.expanded("Species", k)) for k in ("charge", "basename") if k in ci.methods]
    for name, fn in fns:
        for line, pat, anchored in _sign_patterns(fn):
            n += 1
            ctx.check(anchored, "R4", f"Species.{name}:sign pattern {pat!r} anchored at the end", (SP, line),
                      "only the trailing run of signs is matched" if anchored else
                      f"the pattern {pat!r} matches signs anywhere in the name, not only the trailing run: the dash of c-C3H2 / l-C3H (or a sign inside a name) is taken for a charge",
                      expected=pat.rstrip("$") + "$", found=pat)
        # a sign counted over the whole name
        for c in ast.walk(fn):
            if isinstance(c, ast.Call) and isinstance(c.func, ast.Attribute) and c.func.attr == "count" and c.args and isinstance(c.args[0], ast.Constant) and c.args[0].value in ("+", "-"):
                recv = ast.unparse(c.func.value)
                whole = recv in ("self.name", "name", "self._name")
                n += 1
                ctx.check(not whole, "R4", f"Species.{name}:count({c.args[0].value!r}) over the trailing run", (SP, c.lineno),
                          "signs are counted in the trailing run only" if not whole else
                          f"`{recv}.count({c.args[0].value!r})` counts the sign over the WHOLE name: c-C3H2 and l-C3H get charge -1",
                          expected="count over the text matched by a pattern anchored at the end", found=ast.unparse(c))
    ctx.floor("R4", "sign patterns / counts", n, 4, (SP, 0))


# ------------------------------------------------------------------ R5 / R6

def _r5_r6(ctx, fl, pfn, pname, cname):
    calls = [f for f in fl.facts if f.kind == "call" and f.target == cname]
    W = (SP, pfn.lineno)
    if not calls:
        ctx.unrec("R5", f"{pname}:count per occurrence", W, f"no call of {cname} found in {pname}")
        return
    reads_repl = any(isinstance(x, tuple) and len(x) == 3 and x[0] == "attr" and x[2] == "_replacement"
                     for f in fl.facts for x in itertools.chain(walk(f.value) if f.value else (), *[walk(g) for g, _ in f.guards]))
    for f in calls:
        key = f"{pname}:{cname}@per occurrence"
        if not f.loops:
            ctx.unrec("R5", key, (SP, f.line), "the count method is called outside any loop over the matches")
            continue
        it = simp(f.loops[-1].iter)
        per_key = (it[0] == "meth" and it[2] in ("items", "keys", "values")) or it[0] in ("dict", "set") or (it[0] == "call" and it[1] in (("global", "set"), ("global", "dict")))
        if it[0] == "acc":
            # a local container filled earlier: a dict keyed by the symbol identifies the occurrences
            inits = [x for x in fl.facts if x.kind == "init" and x.target == it[1]]
            per_key = any(simp(x.value)[0] in ("dict", "set") or simp(x.value) in (("call", ("global", "dict"), (), ()), ("call", ("global", "set"), (), ())) for x in inits)
        ctx.check(not per_key, "R5", key, (SP, f.line), "the count method is called once per matched occurrence" if not per_key else
                  "the counts are first collected in a container keyed by the symbol and recorded once per DISTINCT symbol (" + show(it)[:60] + "): an element written at two places of a "
                  "formula (CH3OH, HCOOH, CH3OCH3) keeps only its last count", expected="one call per match, in match order", found=show(it)[:100])
        # R6: the symbol the count is recorded under
        if reads_repl and f.value is not None and f.value[0] == "meth" and f.value[3]:
            a0 = simp(f.value[3][0])
            through = any(isinstance(x, tuple) and len(x) == 5 and x[0] == "meth" and x[2] == "get" and x[1][0] == "attr" and x[1][2] == "_replacement" for x in walk(a0)) or \
                any(isinstance(x, tuple) and len(x) == 3 and x[0] == "sub" and x[1][0] == "attr" and x[1][2] == "_replacement" for x in walk(a0))
            raw = any(isinstance(x, tuple) and len(x) == 5 and x[0] == "meth" and x[2] in ("group",) for x in walk(a0)) or \
                any(isinstance(x, tuple) and x and x[0] == "sub" and x[2][0] == "slice" for x in walk(a0))
            if not through and not raw:
                ctx.unrec("R6", f"{pname}:{cname}@replaced symbol", (SP, f.line), f"cannot tell whether the symbol passed to {cname} went through the replacement table: {show(a0)[:80]}")
                continue
            ctx.check(through, "R6", f"{pname}:{cname}@{'replaced symbol'}", (SP, f.line),
                      "the count is recorded under the replaced symbol" if through else
                      "a replacement table is applied to the name, but this count is recorded under the symbol as written in the input: HE+ is renamed He+ while its composition says {'HE': 1} -- "
                      "mass number and element totals look the symbol up in tables keyed by the standard spelling",
                      expected="self._replacement.get(symbol, symbol)", found=show(a0)[:100])


# ------------------------------------------------------------------ R11  the symbol tables hold the caller's symbols verbatim

TABLES = ("_known_elements", "_known_pseudoelements")


def _identity_view(v, params):
    """v is the caller's list itself or a copy with the same elements: P, list(P), tuple(P), P.copy(), P[:], [x for x in P [if ..]]"""
    v = simp(v)
    if v[0] == "param" and v[1] in params:
        return True
    if v[0] == "copy":
        return _identity_view(v[1], params)
    if v[0] == "call" and v[1] in (("global", "list"), ("global", "tuple")) and len(v[2]) == 1 and not v[3]:
        return _identity_view(v[2][0], params)
    if v[0] == "sub" and v[2] == ("slice", ("const", None), ("const", None), ("const", None)):
        return _identity_view(v[1], params)
    if v[0] == "comp" and v[1] in ("list", "gen") and len(v[3]) == 1 and v[3][0][0] == v[2] and v[2][0] == "bv":
        return _identity_view(v[3][0][1], params)
    return False


def _r11(ctx, pkg, cname, cfn):
    """The tokenizer searches every table entry as a PATTERN but recognises what it found by comparing the matched TEXT with the
    table entries (`element in self._known_pseudoelements` in the count method).  For the two to agree a symbol must be stored
    exactly as the caller gave it: every value a method of Species puts into _known_elements / _known_pseudoelements that comes
    from one of its parameters is an element of that parameter, untouched (no escape / strip / case change / formatting on the way).
    A helper of the class that fills a list it is HANDED (`cls._extend(names, cls._known_elements, ..)`) is read at its call sites:
    what it does to its list parameter it does to the table passed for it."""
    ci = pkg.cls("Species")
    # premise: the count method classifies by membership of the matched text in a table
    premise = any(isinstance(c, ast.Compare) and len(c.ops) == 1 and isinstance(c.ops[0], (ast.In, ast.NotIn)) and isinstance(c.comparators[0], ast.Attribute)
                  and c.comparators[0].attr in TABLES for c in ast.walk(cfn))

    def proc(name):
        return pkg.resolve("Species", name)[1]

    def params_of(fn):
        static = any(ast.unparse(d) == "staticmethod" for d in fn.decorator_list)
        return [a.arg for a in (fn.args.args if static else fn.args.args[1:])] + [a.arg for a in fn.args.kwonlyargs]

    def status_of(how, v, params):
        """('verbatim' | 'transformed' | 'unread', what is stored per element) for the value stored by append / extend / assignment"""
        atoms = set()
        if how in ("append", "insert"):
            elt = v
        elif v[0] == "comp" and v[1] in ("list", "gen") and len(v[3]) == 1 and _identity_view(v[3][0][1], params):
            elt = v[2]
            atoms = {x for x in walk(v[3][0][0]) if isinstance(x, tuple) and x and x[0] == "bv"}
        elif _identity_view(v, params):
            return "verbatim", v
        else:
            return "unread", v
        atoms |= {x for x in walk(elt) if isinstance(x, tuple) and len(x) == 3 and x[0] == "elem" and _identity_view(x[1], params)}
        return ("verbatim" if elt in atoms else "transformed" if atoms else "unread"), elt

    flows, summaries = {}, {}
    for mname, fn in sorted(ci.methods.items()):
        if not isinstance(fn, ast.FunctionDef):
            continue
        params = set(params_of(fn))
        if not params:
            continue
        if any(isinstance(c, ast.Call) and isinstance(c.func, ast.Name) and c.func.id.startswith("_") and (SP, c.func.id) in pkg.functions for c in ast.walk(fn)):
            # a piece of the method that was moved into a private FUNCTION of the module (handed cls / self and the locals it needs)
            # is put back first: its stores into the tables are the method's (helpers that are methods stay the calls they are and
            # are read through their summaries below)
            try:
                fn = pkg.expanded("Species", mname, keep=tuple(ci.methods))
            except Exception:
                pass
        try:
            fl = Flow(fn, SP, resolver=proc, proc_resolver=proc)
        except RecursionError:
            continue
        flows[mname] = (fn, fl, params)
        out = []
        for f in fl.facts:
            dst = how = v = None
            if f.kind == "call" and f.value is not None and f.value[0] == "meth" and f.value[2] in ("append", "extend", "insert", "__iadd__") and f.value[3]:
                o = simp(f.value[1])
                if o[0] == "attr" and o[2] in TABLES:
                    dst, how, v = o[2], f.value[2], f.value[3][-1]
                elif o[0] == "param" and o[1] in params:
                    dst, how, v = o, f.value[2], f.value[3][-1]
            elif f.kind == "attrstore" and f.target in TABLES and f.op in ("=", "Add"):
                dst, how, v = f.target, "extend", f.value
            elif f.kind in ("append", "mutate") and f.op in ("append", "extend", "insert") and f.value is not None and fl.assigns.get(f.target):
                # a local that IS a table (`table = cls._known_elements`, also a helper's list parameter after the helper was put back)
                o = simp(fl.assigns[f.target][0][0])
                if len(fl.assigns[f.target]) == 1 and o[0] == "attr" and o[2] in TABLES:
                    dst, how, v = o[2], f.op, (f.extra.get("args") or (f.value,))[-1]
            if dst is None or v is None:
                continue
            v = simp(v)
            src = {x[1] for x in walk(v) if isinstance(x, tuple) and len(x) == 2 and x[0] == "param" and x[1] in params}
            if not src:
                continue            # not the caller's symbols (the defaults, entries moved from the other table)
            st, elt = status_of(how, v, params)
            out.append({"dst": dst, "how": how, "status": st, "elt": elt, "line": f.line, "src": src})
        summaries[mname] = out
    n = 0

    def report(key, line, table, st, elt):
        if st == "verbatim":
            ctx.ok("R11", key, (SP, line), "the symbol is stored exactly as the caller gave it")
        elif st == "transformed" and premise:
            ctx.bad("R11", key, (SP, line),
                    f"the symbol is TRANSFORMED before it is stored in `{table}` ({show(elt)[:80]}): the tokenizer finds the symbol by searching the stored entry as a pattern, but "
                    f"`{cname}` recognises what was found by comparing the matched text with the stored entries -- a symbol whose stored form differs from its text (`c-` stored as "
                    "`c\\-`) is still matched and no longer recognised as a pseudo-element: the label is counted as an atom",
                    expected=f"{table}.append(symbol) / .extend(symbols)", found=show(elt)[:120])
        else:
            ctx.unrec("R11", key, (SP, line), f"cannot tell whether the value stored in `{table}` is the caller's symbol: {show(elt)[:100]}")
    for mname, (fn, fl, params) in flows.items():
        for e in summaries[mname]:
            if isinstance(e["dst"], str):
                n += 1
                report(f"Species.{mname}:{e['dst']}.{e['how']}:stored verbatim", e["line"], e["dst"], e["status"], e["elt"])
        # helpers that fill a list they are handed, called with a table for that list
        seen = set()
        for f in fl.facts:
            for c in (walk(f.value) if f.value is not None else ()):
                if not (isinstance(c, tuple) and len(c) == 5 and c[0] == "meth" and c[2] in summaries and c[2] != mname and c[1] in (("param", "cls"), ("param", "self"), ("global", "Species"))):
                    continue
                hp = params_of(ci.methods[c[2]])
                bound = dict(zip(hp, c[3]))
                bound.update({k: v for k, v in c[4] if k in hp})
                for e in summaries[c[2]]:
                    if isinstance(e["dst"], str) or e["dst"][1] not in bound:
                        continue
                    t = simp(bound[e["dst"][1]])
                    if not (t[0] == "attr" and t[2] in TABLES) or (c[2], t[2], e["line"], f.line) in seen:
                        continue
                    seen.add((c[2], t[2], e["line"], f.line))
                    args = [simp(bound[q]) for q in e["src"] if q in bound]
                    mine = [a for a in args if any(isinstance(x, tuple) and len(x) == 2 and x[0] == "param" and x[1] in params for x in walk(a))]
                    if not mine:
                        continue
                    n += 1
                    st = e["status"]
                    elt = e["elt"]
                    for a in mine:
                        if not _identity_view(a, params):
                            st2, elt2 = status_of("extend", a, params)
                            if st2 != "verbatim":
                                st, elt = (st2 if st != "transformed" else st), elt2
                    report(f"Species.{mname}:{t[2]}.{e['how']} in {c[2]}:stored verbatim", f.line, t[2], st, elt)
    ctx.floor("R11", "stores of caller-given symbols into the tables", n, 4, (SP, 0))


# ------------------------------------------------------------------ R7  is_atom by truth table

def _r7(ctx, pkg):
    ci = pkg.cls("Species")
    fn = ci.methods.get("is_atom")
    if fn is None:
        ctx.missing("R7", "Species.is_atom", (SP, 0), "property is_atom vanished")
        return
    ctx.saw(SP, "Species.is_atom")
    fl = Flow(fn, SP, resolver=lambda n: pkg.resolve("Species", n)[1])
    rets = [(simp(f.value), [(simp(g), p) for g, p in f.guards]) for f in fl.facts if f.kind == "return"]
    atoms = {}

    def classify(c):
        """atom name for a condition IR, or None"""
        s = show(c)
        if c[0] == "attr" and c[1] == SELF and c[2] in ("is_electron", "is_surface", "is_grain"):
            return c[2]
        if c[0] == "attr" and c[1] == SELF and c[2] in ("_is_surface",):
            return "is_surface"
        if c[0] == "cmp" and len(c[1]) == 1 and c[1][0] == "Eq":
            l, r = c[2]
            if r[0] != "const":
                l, r = r, l
            if r[0] == "const":
                if l == ("attr", SELF, "charge") and r[1] == 0:
                    return "neutral"
                if l[0] == "call" and l[1] == ("global", "len") and r[1] == 1:
                    return "one_element"
                if l[0] == "call" and l[1] == ("global", "sum") and r[1] == 1:
                    return "one_atom"
        return None

    def ev(c, env):
        c = simp(c)
        if c[0] == "const":
            return bool(c[1])
        if c[0] == "unop" and c[1] == "Not":
            x = ev(c[2], env)
            return None if x is None else not x
        if c[0] == "bool":
            xs = [ev(x, env) for x in c[2]]
            if any(x is None for x in xs):
                return None
            return all(xs) if c[1] == "And" else any(xs)
        if c[0] == "cmp" and len(c[1]) == 1 and c[1][0] == "NotEq":
            x = ev(("cmp", ("Eq",), c[2]), env)
            return None if x is None else not x
        a = classify(c)
        if a is None:
            return None
        atoms[a] = True
        return env.get(a)
    names = ["one_element", "one_atom", "neutral", "is_electron", "is_surface"]
    bad = undec = None
    for vals in itertools.product((False, True), repeat=len(names)):
        env = dict(zip(names, vals))
        want = env["one_element"] and env["one_atom"] and env["neutral"] and not env["is_electron"] and not env["is_surface"]
        got = None
        for v, gs in rets:
            gv = [ev(g, env) for g, p in gs]
            if any(x is None for x in gv):
                undec = show(next(g for (g, p), x in zip(gs, gv) if x is None))
                break
            if all(x == p for x, (g, p) in zip(gv, gs)):
                got = ev(v, env)
                if got is None:
                    undec = show(v)
                break
        if undec:
            break
        if got is not None and got != want and bad is None:
            bad = (env, got)
    key = "Species.is_atom:definition"
    if undec or not rets:
        ctx.unrec("R7", key, (SP, fn.lineno), f"is_atom tests something this rule cannot classify: {str(undec)[:100]}")
    else:
        ctx.check(bad is None, "R7", key, (SP, fn.lineno), "is_atom <=> one element, one atom, neutral, not the electron, not on a surface" if bad is None else
                  f"is_atom answers {bad[1]} for a species with " + ", ".join(f"{k}={v}" for k, v in bad[0].items()) + ": ions, electrons, ice species or molecules are taken for the atomic "
                  "form of an element (they become the network's `elements` and the IDX_ELEM_ macros)",
                  expected="len(element_count) == 1 and sum(counts) == 1 and charge == 0 and not is_electron and not is_surface", found=f"{bad[0]} -> {bad[1]}" if bad else None)


RAWSTR = "naunet/species.py"
MUTANTS = [
    {"name": "symbols-in-list-order", "file": SP, "old": "components = sorted(elements + symbols, key=len, reverse=True)", "new": "components = elements + symbols", "rules": ["R1"]},
    {"name": "symbols-alphabetical", "file": SP, "old": "components = sorted(elements + symbols, key=len, reverse=True)", "new": "components = sorted(elements + symbols)", "rules": ["R1"]},
    {"name": "symbols-shortest-first", "file": SP, "old": "components = sorted(elements + symbols, key=len, reverse=True)", "new": "components = sorted(elements + symbols, key=len)", "rules": ["R1"]},
    {"name": "matched-span-cut-out", "file": SP, "old": 'firstparse = firstparse[:start] + " " * (end - start) + firstparse[end:]', "new": "firstparse = firstparse[:start] + firstparse[end:]", "rules": ["R2"]},
    {"name": "one-blank-filler", "file": SP, "old": 'firstparse = firstparse[:start] + " " * (end - start) + firstparse[end:]', "new": 'firstparse = firstparse[:start] + " " + firstparse[end:]', "rules": ["R2"]},
    {"name": "garbage-skipped", "file": SP, "old": "                else:\n                    raise RuntimeError(\n                        f'Unrecongnized name: \"{substring}\" in \"{self.name}\"'\n                    )\n",
     "new": "                else:\n                    logging.warning(f'skip \"{substring}\" in \"{self.name}\"')\n", "rules": ["R3"]},
    {"name": "charge-counts-whole-name", "file": SP, "old": '        pcharge = "".join(re.findall(r"\\+*$", self.name)).count("+")\n        ncharge = "".join(re.findall(r"-*$", self.name)).count("-")',
     "new": '        pcharge = self.name.count("+")\n        ncharge = self.name.count("-")', "rules": ["R4"]},
    {"name": "charge-pattern-unanchored", "file": SP, "old": 'ncharge = "".join(re.findall(r"-*$", self.name)).count("-")', "new": 'ncharge = "".join(re.findall(r"-+", self.name)).count("-")', "rules": ["R4"]},
    {"name": "count-under-raw-symbol", "file": SP, "old": "                if substring.isdigit():\n                    self._add_element_count(n, int(parsename[e:s]))",
     "new": "                if substring.isdigit():\n                    self._add_element_count(parsename[e - 1:e], int(parsename[e:s]))", "rules": ["R6"]},
    {"name": "is-atom-ignores-charge", "file": SP, "old": "            and self.charge == 0\n", "new": "", "rules": ["R7"]},
    {"name": "is-atom-any-count", "file": SP, "old": "            and sum(counts) == 1\n", "new": "", "rules": ["R7"]},
    {"name": "table-overwrites", "file": SP, "old": "            self.element_count[element] += count", "new": "            self.element_count[element] = count", "rules": ["R5"]},
]
BENIGN = [
    {"name": "sorted-keywords-swapped", "file": SP, "old": "components = sorted(elements + symbols, key=len, reverse=True)", "new": "components = sorted(elements + symbols, reverse=True, key=len)"},
    {"name": "is-atom-guard-clauses", "file": SP, "old": "        return (\n            len(names) == 1\n            and sum(counts) == 1\n            and self.charge == 0\n            and not self.is_electron\n            and not self.is_surface\n        )",
     "new": "        if self.is_electron or self.is_surface:\n            return False\n        if self.charge != 0:\n            return False\n        return len(names) == 1 and sum(counts) == 1"},
    {"name": "mask-via-span", "file": SP, "old": "                start, end = it.start(), it.end()\n", "new": "                start, end = it.span()\n"},
]

# ---- the tokenizer split into a pipeline of private steps / patterns precompiled at class level ------------------------------
_SPLIT = ('        parsename = self.name\n        # remove charge symbols\n        parsename = re.sub(r"\\+*$", "", parsename)\n        parsename = re.sub(r"-*$", "", parsename)\n'
          '        charge = self.name.replace(parsename, "")\n')
_SCAN = ('        firstparse = parsename\n        matches = []\n        for c in components:\n            for it in re.finditer(c, firstparse):\n                matches.append(it)\n'
         '                start, end = it.start(), it.end()\n                # remove the found items to avoid repeatance (e.g. S in Si)\n'
         '                firstparse = firstparse[:start] + " " * (end - start) + firstparse[end:]\n        matches = sorted(matches, key=lambda x: x.start())\n')
_PMN = "    def _parse_molecule_name(self, elements: list[str], symbols: list[str]) -> None:\n"
_SCAN_HELPER = ('    @staticmethod\n    def _scan(text, patterns):\n        rest = text\n        found = []\n        for pat in patterns:\n            for hit in re.finditer(pat, rest):\n'
                '                found.append(hit)\n                lo, hi = hit.start(), hit.end()\n                rest = rest[:lo] + " " * (hi - lo) + rest[hi:]\n'
                '        return sorted(found, key=lambda h: h.start())\n\n')
_SPLIT_HELPER = ('    @staticmethod\n    def _split(full):\n        stem = re.sub(r"\\+*$", "", full)\n        stem = re.sub(r"-*$", "", stem)\n        return stem, full.replace(stem, "")\n\n')
_PIPE = [{"file": SP, "old": _SPLIT, "new": "        parsename, charge = self._split(self.name)\n"},
         {"file": SP, "old": _SCAN, "new": "        matches = self._scan(parsename, components)\n"}]
_CLS_AT = "    _replacement = {}\n"
_CHARGE = '        pcharge = "".join(re.findall(r"\\+*$", self.name)).count("+")\n        ncharge = "".join(re.findall(r"-*$", self.name)).count("-")'
BENIGN += [
    {"name": "tokenizer-pipeline-of-static-steps", "edits": _PIPE + [{"file": SP, "old": _PMN, "new": _SPLIT_HELPER + _SCAN_HELPER + _PMN}]},
    {"name": "sign-patterns-precompiled-at-class-level", "edits": [
        {"file": SP, "old": _CLS_AT, "new": _CLS_AT + '    _plus_run = re.compile(r"\\+*$")\n    _minus_run = re.compile(r"-*$")\n'},
        {"file": SP, "old": _SPLIT, "new": '        parsename = self._plus_run.sub("", self.name)\n        parsename = Species._minus_run.sub("", parsename)\n        charge = self.name.replace(parsename, "")\n'},
        {"file": SP, "old": _CHARGE, "new": '        pcharge = "".join(self._plus_run.findall(self.name)).count("+")\n        ncharge = "".join(self._minus_run.findall(self.name)).count("-")'}]},
    {"name": "scan-through-pattern-compiled-per-symbol", "file": SP, "old": "            for it in re.finditer(c, firstparse):\n", "new": "            for it in re.compile(c).finditer(firstparse):\n"},
]
MUTANTS += [
    {"name": "pipeline-scan-step-cuts-the-span-out", "edits": _PIPE + [{"file": SP, "old": _PMN, "new": _SPLIT_HELPER + _SCAN_HELPER.replace('rest[:lo] + " " * (hi - lo) + rest[hi:]', "rest[:lo] + rest[hi:]") + _PMN}],
     "rules": ["R2"]},
    {"name": "pipeline-symbols-handed-over-unsorted", "edits": _PIPE + [{"file": SP, "old": _PMN, "new": _SPLIT_HELPER + _SCAN_HELPER + _PMN},
                                                                       {"file": SP, "old": "components = sorted(elements + symbols, key=len, reverse=True)", "new": "components = elements + symbols"}],
     "rules": ["R1"]},
    {"name": "class-level-minus-pattern-unanchored", "edits": [
        {"file": SP, "old": _CLS_AT, "new": _CLS_AT + '    _plus_run = re.compile(r"\\+*$")\n    _minus_run = re.compile(r"-+")\n'},
        {"file": SP, "old": _CHARGE, "new": '        pcharge = "".join(self._plus_run.findall(self.name)).count("+")\n        ncharge = "".join(self._minus_run.findall(self.name)).count("-")'}],
     "rules": ["R4"]},
]

# ---- R11: the tables hold the caller's symbols verbatim ---------------------------------------------------------------------------
_ADD_LOOP = "        for ele in elements:\n            if ele in cls._known_elements:\n                logging.warning(f\"{ele} exists in element list, skip!\")\n"
_SET_PS = "        cls._known_pseudoelements.clear()\n        cls._known_pseudoelements.extend(pelements)\n"
MUTANTS += [
    {"name": "added-symbols-stored-escaped", "file": SP, "old": _ADD_LOOP, "new": _ADD_LOOP.replace("for ele in elements:", "for ele in map(re.escape, elements):"), "rules": ["R11"]},
    {"name": "set-pseudo-symbols-stored-stripped-upper", "file": SP, "old": _SET_PS,
     "new": "        cls._known_pseudoelements.clear()\n        cls._known_pseudoelements.extend([p.strip().upper() for p in pelements])\n", "rules": ["R11"]},
]
BENIGN += [
    {"name": "set-pseudo-symbols-copied-first", "file": SP, "old": _SET_PS,
     "new": "        fresh = [p for p in pelements]\n        cls._known_pseudoelements.clear()\n        cls._known_pseudoelements.extend(list(fresh))\n"},
]

# ---- the scan kept in a helper OBJECT local to the tokenizer (normalize.inline_local_objects) ---------------------------------------
_SCANNER = ("class _Scan:\n    def __init__(self, text):\n        self.rest = text\n        self.hits = []\n\n    def _blank(self, lo, hi):\n        self.rest = self.rest[:lo] + %s + self.rest[hi:]\n\n"
            "    def feed(self, pattern):\n        for hit in re.finditer(pattern, self.rest):\n            self.hits.append(hit)\n            self._blank(hit.start(), hit.end())\n\n"
            "    def ordered(self):\n        return sorted(self.hits, key=lambda h: h.start())\n\n\n")
_SCAN_OBJ = [{"file": SP, "old": _SCAN, "new": "        scan = _Scan(parsename)\n        for c in components:\n            scan.feed(c)\n        matches = scan.ordered()\n"}]
BENIGN += [
    {"name": "scan-kept-in-a-local-helper-object", "edits": _SCAN_OBJ + [{"file": SP, "old": "class Species:\n", "new": _SCANNER % "\" \" * (hi - lo)" + "class Species:\n"}]},
]
MUTANTS += [
    {"name": "helper-object-cuts-the-span-out", "edits": _SCAN_OBJ + [{"file": SP, "old": "class Species:\n", "new": _SCANNER % "\"\"" + "class Species:\n"}], "rules": ["R2"]},
    {"name": "helper-object-fed-unsorted-symbols", "edits": _SCAN_OBJ + [{"file": SP, "old": "class Species:\n", "new": _SCANNER % "\" \" * (hi - lo)" + "class Species:\n"},
                                                                       {"file": SP, "old": "components = sorted(elements + symbols, key=len, reverse=True)", "new": "components = elements + symbols"}], "rules": ["R1"]},
]
_FILL = "    @staticmethod\n    def _fill(table, names) -> None:\n        table.clear()\n        table.extend(%s)\n\n    @classmethod\n    def reset(cls) -> None:\n"
_FILL_EDITS = [{"file": SP, "old": _SET_PS, "new": "        cls._fill(cls._known_pseudoelements, pelements)\n"}]
BENIGN += [
    {"name": "table-filled-by-a-helper-handed-the-table", "edits": _FILL_EDITS + [{"file": SP, "old": "    @classmethod\n    def reset(cls) -> None:\n", "new": _FILL % "names"}]},
]
MUTANTS += [
    {"name": "helper-handed-the-table-strips-the-symbols", "edits": _FILL_EDITS + [{"file": SP, "old": "    @classmethod\n    def reset(cls) -> None:\n", "new": _FILL % "[n.strip() for n in names]"}], "rules": ["R11"]},
]

# ---- wave 4: the length order in its other spellings ----
_COMP = "        components = sorted(elements + symbols, key=len, reverse=True)\n"
BENIGN += [
    {"name": "symbols-sorted-by-negative-length", "file": SP, "old": _COMP, "new": "        components = sorted(elements + symbols, key=lambda sym: -len(sym))\n"},
    {"name": "symbols-sorted-by-length-then-text-reversed", "file": SP, "old": _COMP, "new": "        components = sorted(elements + symbols, key=lambda sym: (len(sym), sym), reverse=True)\n"},
]
MUTANTS += [
    {"name": "symbols-sorted-by-length-lambda-ascending", "file": SP, "old": _COMP, "new": "        components = sorted(elements + symbols, key=lambda sym: len(sym))\n", "rules": ["R1"]},
    {"name": "symbols-sorted-by-negative-length-reversed", "file": SP, "old": _COMP, "new": "        components = sorted(elements + symbols, key=lambda sym: -len(sym), reverse=True)\n", "rules": ["R1"]},
]
